//! Cases of the extension parts: `runtime-persist/stores`, `runtime-persist/init-faults`,
//! `runtime-persist/no-store`. Same skeleton as `main::run_case`: incarnations on the store as it
//! survived, probe restarts at cuts of each incarnation's store log.

use common::{json, CaseOut, Rng};

use crate::lanes::LaneSpec;
use crate::oracle::{check, facet};
use crate::oracle_ext::{check_ext, check_nostore};
use crate::plan::{lane_specs, lane_specs_ext, plan_init_faults, plan_nostore, plan_stores, probe_plan_ext, probe_plan_init_faults, store_specs, Focus, Plan, StoreMode, Unique};
use crate::run::{run_incarnation, Obs};
use crate::store::{state_at, State};

#[derive(Clone, Copy, PartialEq, Eq)]
pub enum Part {
    Stores,
    InitFaults,
}

fn lane_names(lanes: &[LaneSpec]) -> Vec<String> {
    lanes.iter().map(|l| format!("{}:{}{}", l.name, l.kind.name(), if l.transient { ":transient" } else { "" })).collect()
}

fn common_counts(out: &mut CaseOut, p: &Plan, obs: &Obs) {
    if let Some(why) = obs.stuck.first() {
        out.inconclusive(format!("stuck: {why}"));
    }
    out.count(&format!("ending/{}", p.ending.name()));
    if obs.crashed {
        out.count("crashes");
    }
    if !obs.refused.is_empty() {
        out.count("store-failure-injected");
    }
    if !obs.read_refused.is_empty() {
        out.count("store-read-failure-injected");
    }
    if obs.ended_during_script.is_some() {
        out.count("runtime-ended-during-script");
    }
    if let Some(Err(e)) = &obs.agent_result {
        let class = if e.contains("Restoring the state") {
            "restoration"
        } else if e.contains("Persisting a change") {
            "persistence"
        } else if e.contains("Failed to initialize agent") {
            "agent-init"
        } else if e.contains("The agent task failed") {
            "agent-task"
        } else {
            "other"
        };
        out.count(&format!("runtime-ended-with-error/{class}"));
    }
}

pub fn run_case_recording(rng: &mut Rng, out: &mut CaseOut, part: Part, generations: u32, max_len: usize, max_probes: u64) {
    let lanes = match part {
        Part::Stores => lane_specs(rng, Focus::Mixed),
        Part::InitFaults => lane_specs_ext(rng, true, false),
    };
    let stores = store_specs(rng);
    let mut unique = Unique(1000);
    let mut base = State::default();
    let mut restarts = 0u64;
    let mut sample = vec![];
    let (mut item_ops, mut item_writes, mut items_restored, mut other_kind, mut faults_run, mut faulty_handed, mut views, mut lane_store_ops) = (0u64, 0u64, 0u64, 0u64, 0u64, 0u64, 0u64, 0u64);
    for l in &lanes {
        out.sig(&(l.kind, l.transient, l.in_buf));
    }
    for s in &stores {
        out.sig(&(s.name.clone(), s.kind));
    }
    'gens: for gen in 0..generations {
        let p = match part {
            Part::Stores => plan_stores(rng, &lanes, &stores, gen, max_len, &mut unique),
            Part::InitFaults => plan_init_faults(rng, &lanes, &stores, gen, max_len, &mut unique),
        };
        for l in 0..lanes.len() {
            out.count(&format!("lanes/{}", facet(&lanes[l], p.dynamic[l])));
        }
        out.sig(&(p.dynamic.clone(), p.store_dynamic.clone(), p.ending.name(), p.steps.len(), p.timeout_ms, p.item_init_timeout_ms));
        out.sig(&(p.lane_faults.clone(), p.store_faults.clone(), p.stores.iter().map(|s| s.kind).collect::<Vec<_>>()));
        let obs = run_incarnation(&p, &base, rng);
        common_counts(out, &p, &obs);
        if gen > 0 {
            restarts += 1;
        }
        let s = check(&obs, out);
        let e = check_ext(&obs, out);
        lane_store_ops += s.store_ops;
        item_ops += e.item_store_ops;
        item_writes += e.item_writes;
        items_restored += e.items_restored_nonempty;
        other_kind += e.items_restored_of_other_kind;
        faults_run += e.faults_run;
        faulty_handed += e.faulty_handed_state;
        views += e.views_compared;
        sample.push(json!({
            "incarnation": gen, "ending": p.ending.name(), "steps": p.steps.len(), "store_ops": obs.log.len(), "item_store_ops": e.item_store_ops,
            "stores": p.stores.iter().enumerate().map(|(i, s)| format!("{}:{}:{}", s.name, s.kind.name(), if p.store_dynamic[i] { "dynamic" } else { "init" })).collect::<Vec<_>>(),
            "lane_faults": p.lane_faults.iter().map(|f| f.map(|f| f.name())).collect::<Vec<_>>(),
            "store_faults": p.store_faults.iter().map(|f| f.map(|f| f.name())).collect::<Vec<_>>(),
        }));
        if s.violations + e.violations > 0 {
            break 'gens;
        }
        let ids_only = State { ids: obs.final_state.ids.clone(), ..obs.base.clone() };
        let n = obs.log.len();
        let probes = if n == 0 { 0 } else { rng.range(1, max_probes) };
        for _ in 0..probes {
            let k = rng.usize_below(n + 1);
            let st = state_at(&ids_only, &obs.log, k);
            let pp = match part {
                Part::Stores => probe_plan_ext(rng, &lanes, &p, gen + 1),
                Part::InitFaults => probe_plan_init_faults(rng, &lanes, &p, gen + 1),
            };
            let pobs = run_incarnation(&pp, &st, rng);
            if let Some(why) = pobs.stuck.first() {
                out.inconclusive(format!("stuck: {why}"));
            }
            restarts += 1;
            out.count("probe-restarts");
            let s = check(&pobs, out);
            let e = check_ext(&pobs, out);
            items_restored += e.items_restored_nonempty;
            other_kind += e.items_restored_of_other_kind;
            faults_run += e.faults_run;
            faulty_handed += e.faulty_handed_state;
            views += e.views_compared;
            if s.violations + e.violations > 0 {
                break 'gens;
            }
        }
        let survived = state_at(&ids_only, &obs.log, n);
        if survived != obs.final_state {
            out.violation("C05", "harness/replayed-log-differs", "replaying the recorded log does not give the recorded store state (harness defect)", json!({}));
        }
        base = survived;
    }
    out.add("restarts", restarts);
    out.add("store-ops-of-lanes-and-items", lane_store_ops);
    out.add("store-item-writes", item_writes);
    out.add("store-item-ops-in-the-log", item_ops);
    out.add("store-items-restored-nonempty", items_restored);
    out.add("store-items-restored-with-other-kind-held", other_kind);
    out.add("misbehaving-handshakes", faults_run);
    out.add("misbehaving-items-shown-all-of-a-nonempty-state", faulty_handed);
    out.add("closing-views-compared", views);
    out.nontrivial = match part {
        Part::Stores => item_ops > 0 && items_restored > 0,
        Part::InitFaults => faults_run > 0 && lane_store_ops > 0,
    };
    out.set_sample(json!({"lanes": lane_names(&lanes), "incarnations": sample}));
}

pub fn run_case_nostore(rng: &mut Rng, out: &mut CaseOut, generations: u32, max_len: usize) {
    let mode = *rng.pick(&[StoreMode::NoStore, StoreMode::IdUnavailable, StoreMode::IdUnavailable, StoreMode::DisabledImpl]);
    let all_persistent = rng.chance(1, 2);
    let lanes = lane_specs_ext(rng, false, all_persistent);
    let stores = store_specs(rng);
    let mut unique = Unique(1000);
    let base = State::default();
    let mut sample = vec![];
    let (mut views, mut restarts, mut frames, mut answered) = (0u64, 0u64, 0u64, 0u64);
    out.count(&format!("no-store/mode/{}", mode.name()));
    out.sig(&mode);
    for l in &lanes {
        out.sig(&(l.kind, l.transient));
    }
    for gen in 0..generations {
        let p = plan_nostore(rng, mode, &lanes, &stores, gen, max_len, &mut unique);
        out.sig(&(p.dynamic.clone(), p.store_dynamic.clone(), p.ending.name(), p.steps.len(), p.timeout_ms));
        let obs = run_incarnation(&p, &base, rng);
        common_counts(out, &p, &obs);
        if gen > 0 {
            restarts += 1;
        }
        let s = check_nostore(&obs, out);
        views += s.views_compared;
        frames += s.frames;
        answered += s.store_items_answered;
        sample.push(json!({"incarnation": gen, "ending": p.ending.name(), "steps": p.steps.len(), "frames": s.frames, "id_for_calls": s.id_requests, "views_compared": s.views_compared}));
        if s.violations > 0 {
            break;
        }
        // Whatever the recording store was left with is what the next incarnation would find: it
        // must be nothing (rule N1 has already said so if it is not).
        if obs.final_state.values.len() + obs.final_state.maps.len() > 0 {
            out.count("no-store/store-not-empty-after-incarnation");
        }
    }
    out.add("restarts", restarts);
    out.add("frames-received", frames);
    out.add("closing-views-compared", views);
    out.add("store-item-requests-answered", answered);
    out.nontrivial = views > 0 && restarts > 0 && frames > 0;
    out.set_sample(json!({"mode": mode.name(), "lanes": lane_names(&lanes), "incarnations": sample}));
}
