//! Oracles of the extension parts (`stores`, `init-faults`, `no-store`). They judge what the C05
//! statement says and nothing else:
//!
//!  * store items (no remotes): what a (re)start hands to an item is exactly what the store holds
//!    for the item's name and kind - the fold of the store log at the cut; the store log of an item
//!    is, in order and without gaps, a prefix of what the item wrote; a write the runtime had every
//!    chance to take (everything runnable ran, no failure injected) is in the store;
//!  * an item that misbehaves in the initialisation handshake: never treated as initialised without
//!    its acknowledgement, never shown `InitComplete` before all of the stored state; the other
//!    items are not affected (the existing rules of `oracle::check`, and the closing view);
//!  * degraded persistence (no store / `NoStoreAvailable` / `StoreDisabled`): no store call other
//!    than `id_for`, nothing handed to any item at a restart, and the remotes still see every lane's
//!    state (closing view).

use std::collections::BTreeMap;

use bytes::Bytes;
use common::{json, CaseOut};
use swimos_agent_protocol::{peeling::extract_header, MapMessage};

use crate::lanes::{Emitted, InitFault, InitItem, Kind, LaneRec, LaneSpec, Op};
use crate::oracle::facet;
use crate::plan::{Ending, StoreMode};
use crate::remote::FrameKind;
use crate::run::{Obs, NODE};
use crate::store::{Op as StoreOp, State};

const PROP: &str = "C05";

#[derive(Default)]
pub struct ExtSummary {
    pub item_writes: u64,
    pub item_store_ops: u64,
    pub items_restored_nonempty: u64,
    pub items_restored_of_other_kind: u64,
    pub faults_run: u64,
    pub faulty_handed_state: u64,
    pub views_compared: u64,
    pub violations: u64,
}

fn trim(b: &[u8]) -> &[u8] {
    let mut s = b;
    while let [first, rest @ ..] = s {
        if first.is_ascii_whitespace() {
            s = rest;
        } else {
            break;
        }
    }
    while let [rest @ .., last] = s {
        if last.is_ascii_whitespace() {
            s = rest;
        } else {
            break;
        }
    }
    s
}

fn text(b: &[u8]) -> String {
    String::from_utf8_lossy(b).chars().take(40).collect()
}

fn path(dynamic: bool) -> &'static str {
    if dynamic {
        "dynamic"
    } else {
        "init"
    }
}

fn store_op_id(op: &StoreOp) -> u64 {
    match op {
        StoreOp::PutValue { id, .. } | StoreOp::DeleteValue { id } | StoreOp::UpdateMap { id, .. } | StoreOp::RemoveMap { id, .. } | StoreOp::ClearMap { id } => *id,
    }
}

fn store_op_kind(op: &StoreOp) -> Kind {
    match op {
        StoreOp::PutValue { .. } | StoreOp::DeleteValue { .. } => Kind::Value,
        _ => Kind::Map,
    }
}

fn as_item_op(op: &StoreOp) -> Option<Op> {
    match op {
        StoreOp::PutValue { value, .. } => Some(Op::Set(Bytes::copy_from_slice(value))),
        StoreOp::UpdateMap { key, value, .. } => Some(Op::Upd(Bytes::copy_from_slice(key), Bytes::copy_from_slice(value))),
        StoreOp::RemoveMap { key, .. } => Some(Op::Rem(Bytes::copy_from_slice(key))),
        StoreOp::ClearMap { .. } => Some(Op::Clr),
        StoreOp::DeleteValue { .. } => None,
    }
}

/// (what the item was handed, what the store held for its name and kind), as sorted text.
fn handed_and_held(kind: Kind, name: &str, rec: &LaneRec, base: &State) -> (Vec<String>, Vec<String>) {
    match kind {
        Kind::Value => {
            let got = rec
                .init_items
                .iter()
                .map(|(_, i)| match i {
                    InitItem::Value(b) => text(trim(b)),
                    other => format!("{other:?}"),
                })
                .collect();
            let want = base.value_of(name).iter().map(|b| text(trim(b))).collect();
            (got, want)
        }
        Kind::Map => {
            let mut got: Vec<String> = rec
                .init_items
                .iter()
                .map(|(_, i)| match i {
                    InitItem::Entry(k, v) => format!("{}={}", text(trim(k)), text(trim(v))),
                    other => format!("{other:?}"),
                })
                .collect();
            got.sort();
            let mut want: Vec<String> = base.map_of(name).iter().map(|(k, v)| format!("{}={}", text(trim(k)), text(trim(v)))).collect();
            want.sort();
            (got, want)
        }
    }
}

/// No failure was injected and the runtime was not meant to stop by itself: it has to serve.
fn runtime_must_serve(obs: &Obs) -> bool {
    obs.plan.timeout_ms.is_none()
        && obs.refused.is_empty()
        && obs.read_refused.is_empty()
        && obs.id_refused.is_empty()
        && obs.ended_during_script.is_none()
        && !obs.plan.has_init_phase_fault()
        && !matches!(obs.agent_result, Some(Err(_)) if obs.plan.ending != Ending::Return(false))
}

fn frame_op(kind: Kind, body: &Bytes) -> Option<Op> {
    match kind {
        Kind::Value => Some(Op::Set(Bytes::copy_from_slice(trim(body)))),
        Kind::Map => match extract_header(body).ok()? {
            MapMessage::Update { key, value } => Some(Op::Upd(Bytes::copy_from_slice(trim(&key)), Bytes::copy_from_slice(trim(&value)))),
            MapMessage::Remove { key } => Some(Op::Rem(Bytes::copy_from_slice(trim(&key)))),
            MapMessage::Clear => Some(Op::Clr),
            _ => None,
        },
    }
}

/// The state a lane holds at the end of its incarnation, from its own record: what it was handed
/// (or its default), then its changes.
fn lane_final_state(spec: &LaneSpec, rec: &LaneRec) -> (Bytes, BTreeMap<Bytes, Bytes>) {
    let mut value = Bytes::copy_from_slice(trim(&spec.default));
    let mut map = BTreeMap::new();
    for (_, i) in &rec.init_items {
        match i {
            InitItem::Value(b) => value = Bytes::copy_from_slice(trim(b)),
            InitItem::Entry(k, v) => {
                map.insert(Bytes::copy_from_slice(trim(k)), Bytes::copy_from_slice(trim(v)));
            }
            InitItem::Other(_) => {}
        }
    }
    for (_, op) in &rec.hist {
        match op {
            Op::Set(b) => value = Bytes::copy_from_slice(trim(b)),
            Op::Upd(k, v) => {
                map.insert(Bytes::copy_from_slice(trim(k)), Bytes::copy_from_slice(trim(v)));
            }
            Op::Rem(k) => {
                map.remove(trim(k));
            }
            Op::Clr => map.clear(),
        }
    }
    (value, map)
}

/// The closing stretch of a script (`plan::push_closing`): a fresh fast remote synced every lane,
/// the lanes changed once more, everything that could run ran - twice. For every lane that is live
/// (it acknowledged its initialisation, or is transient) the remote must have been answered, and
/// what it was shown (the fold of the event frames of that attachment) is the lane's state: no
/// frame held back or lost. Judged only where the runtime has to serve (`runtime_must_serve`).
/// Returns the number of lanes whose view was compared.
pub fn closing_view(obs: &Obs, out: &mut CaseOut, prefix: &str) -> u64 {
    let plan = &obs.plan;
    let Some(from) = plan.closing_from else { return 0 };
    if obs.steps_done < plan.steps.len() || from >= plan.steps.len() {
        out.count(&format!("{prefix}/closing-not-reached"));
        return 0;
    }
    if !runtime_must_serve(obs) {
        out.count(&format!("{prefix}/closing-not-judged(runtime-may-stop)"));
        return 0;
    }
    let Some(session) = obs.sessions.iter().rev().find(|s| s.remote == 0) else { return 0 };
    let mut compared = 0;
    for l in 0..plan.lanes.len() {
        let spec = &plan.lanes[l];
        let rec = &obs.lanes[l];
        let f = facet(spec, plan.dynamic[l]);
        let asked = session.reqs.iter().any(|r| r.lane == spec.name && r.t1.is_some() && matches!(r.kind, crate::remote::ReqKind::Sync));
        if !asked {
            continue;
        }
        let live = if spec.transient { rec.reg_io.is_some() } else { rec.initialized_sent.is_some() };
        if !live || rec.write_error.is_some() {
            continue;
        }
        let synced = session.frames.iter().any(|fr| fr.kind == FrameKind::Synced && fr.lane == spec.name && fr.node == NODE);
        if !synced {
            // Narrowing facet: the lane wrote its first frame right after its acknowledgement (no
            // step in which everything runnable ran lies between the two).
            let burst = match (rec.initialized_sent, rec.emitted.iter().find(|e| !matches!(e.what, Emitted::Initialized))) {
                (Some(ack), Some(e)) => !obs.quiesces.iter().any(|(q0, q1)| *q0 > ack && *q1 < e.t0),
                _ => false,
            };
            out.violation(
                PROP,
                format!("{prefix}/sync-unanswered/{f}{}", if burst { "/wrote-directly-after-ack" } else { "" }),
                "a live lane was synced by a fresh, fast remote and, with everything runnable having run, the remote has no `synced` (frames are held back)",
                json!({"lane": spec.name, "mode": plan.store_mode.name(), "incarnation": plan.incarnation, "frames_of_session": session.frames.len(), "completion": format!("{:?}", session.completion), "agent_result": format!("{:?}", obs.agent_result),
                    "frames_for_lane": session.frames.iter().filter(|fr| fr.lane == spec.name).map(|fr| format!("{} {} {}", fr.ticket, fr.kind.name(), text(&fr.body))).collect::<Vec<_>>(),
                    "lane_acknowledged_at": rec.initialized_sent, "lane_first_emissions": rec.emitted.iter().take(4).map(|e| format!("{}..{:?} {:?}", e.t0, e.t1, e.what)).collect::<Vec<_>>(),
                    "lane_out_buf": spec.out_buf, "lane_closed": rec.closed, "lane_syncs_seen": rec.syncs}),
            );
            continue;
        }
        // Every change of the lane was handed to its channel (nothing deferred, nothing refused).
        let all_emitted = rec.emitted.iter().all(|e| e.t1.is_some());
        if !all_emitted {
            out.count(&format!("{prefix}/closing-lane-with-unfinished-write"));
            continue;
        }
        let (value, map) = lane_final_state(spec, rec);
        let mut seen_value: Option<Bytes> = None;
        let mut seen_map: BTreeMap<Bytes, Bytes> = BTreeMap::new();
        for fr in session.frames.iter().filter(|fr| fr.kind == FrameKind::Event && fr.lane == spec.name && fr.node == NODE) {
            match frame_op(spec.kind, &fr.body) {
                Some(Op::Set(b)) => seen_value = Some(b),
                Some(Op::Upd(k, v)) => {
                    seen_map.insert(k, v);
                }
                Some(Op::Rem(k)) => {
                    seen_map.remove(&k);
                }
                Some(Op::Clr) => seen_map.clear(),
                None => {}
            }
        }
        compared += 1;
        out.count(&format!("{prefix}/closing-view-compared/{f}"));
        let same = match spec.kind {
            Kind::Value => seen_value.as_ref() == Some(&value),
            Kind::Map => seen_map == map,
        };
        if !same {
            let (got, want) = match spec.kind {
                Kind::Value => (json!(seen_value.as_ref().map(|b| text(b))), json!(text(&value))),
                Kind::Map => (
                    json!(seen_map.iter().map(|(k, v)| format!("{}={}", text(k), text(v))).collect::<Vec<_>>()),
                    json!(map.iter().map(|(k, v)| format!("{}={}", text(k), text(v))).collect::<Vec<_>>()),
                ),
            };
            out.violation(
                PROP,
                format!("{prefix}/remote-view-differs/{f}"),
                "a fresh, fast remote that synced the lane and stayed linked does not hold the lane's state after everything runnable ran (a frame was held back or lost)",
                json!({"lane": spec.name, "remote_holds": got, "lane_holds": want, "mode": plan.store_mode.name(), "incarnation": plan.incarnation}),
            );
        }
    }
    compared
}

/// Store items and misbehaving items, on the recording store.
pub fn check_ext(obs: &Obs, out: &mut CaseOut) -> ExtSummary {
    let mut sum = ExtSummary::default();
    let plan = &obs.plan;
    let gen = plan.incarnation;
    let before = out.violations.len();
    let ids = &obs.final_state.ids;

    // ---- store items -----------------------------------------------------------------------------
    let n_items = plan.stores.len();
    // Operations of the log per item: (ticket, op). An operation under an item's id belongs to the
    // item of that name with the operation's kind.
    let mut ops_of: Vec<Vec<(u64, Op)>> = vec![vec![]; n_items];
    for (t, op) in &obs.log {
        let id = store_op_id(op);
        let Some(name) = ids.iter().find(|(_, i)| **i == id).map(|(n, _)| n.clone()) else { continue };
        if !plan.stores.iter().any(|s| s.name == name) {
            continue;
        }
        let kind = store_op_kind(op);
        match (0..n_items).find(|i| plan.stores[*i].name == name && plan.stores[*i].kind == kind) {
            Some(i) => {
                if let Some(o) = as_item_op(op) {
                    ops_of[i].push((*t, o));
                }
            }
            None => out.violation(
                PROP,
                format!("store-item/op-of-wrong-kind/{}", kind.name()),
                "the store was handed an operation of the other kind under the identifier of a store item (a value operation for a map store or the reverse)",
                json!({"store": name, "op": format!("{op:?}"), "ticket": t, "incarnation": gen}),
            ),
        }
    }
    for i in 0..n_items {
        let spec = &plan.stores[i];
        let rec = &obs.stores[i];
        let f = format!("{}/{}", spec.kind.name(), path(plan.store_dynamic[i]));
        if rec.reg_requested.is_none() {
            continue;
        }
        out.count(&format!("store-items/{f}"));
        let writes: Vec<&crate::lanes::Emit> = rec.emitted.iter().filter(|e| matches!(e.what, Emitted::Std(_))).collect();
        sum.item_writes += writes.len() as u64;
        sum.item_store_ops += ops_of[i].len() as u64;
        out.events += writes.len() as u64 + ops_of[i].len() as u64;

        // The request was answered, unless something was injected or the incarnation ended first.
        if let Some((t, e)) = &rec.reg_error {
            let excused = plan.store_faults[i].is_some()
                || *t >= obs.ending_at
                || !runtime_must_serve(obs)
                || obs.agent_result.as_ref().map_or(false, |r| r.is_err());
            if !excused {
                out.violation(
                    PROP,
                    format!("store-item/request-failed/{f}"),
                    "a store item could not be opened / initialised while the agent was running on a working store",
                    json!({"store": spec.name, "error": e, "incarnation": gen, "probe": plan.probe}),
                );
            }
        }

        // S4: the runtime keeps an item that acknowledged its initialisation for as long as it runs:
        // a write of the item is not refused (its channel closed) while the runtime has to serve.
        if let (Some(ack), Some(t)) = (rec.initialized_sent, rec.write_error) {
            if t < obs.ending_at && runtime_must_serve(obs) {
                let burst = writes.first().map_or(false, |w| !obs.quiesces.iter().any(|(q0, q1)| *q0 > ack && *q1 < w.t0));
                out.violation(
                    PROP,
                    format!("store-item/channel-closed-while-running/{f}{}", if burst { "/wrote-directly-after-ack" } else { "" }),
                    "the runtime closed the channel of a store item that had acknowledged its initialisation while the agent was running (the item's later writes go nowhere)",
                    json!({"store": spec.name, "refused_at": t, "acknowledged_at": ack, "writes": writes.len(), "incarnation": gen}),
                );
            }
        }

        // S1: what the item was handed is what the store held for its name and kind.
        if rec.init_complete.is_some() {
            let (got, want) = handed_and_held(spec.kind, &spec.name, rec, &obs.base);
            out.events += 1 + got.len() as u64;
            let other_kind_held = match spec.kind {
                Kind::Value => !obs.base.map_of(&spec.name).is_empty(),
                Kind::Map => obs.base.value_of(&spec.name).is_some(),
            };
            if other_kind_held {
                sum.items_restored_of_other_kind += 1;
                out.count(&format!("store-item-requested-with-other-kind-than-stored/{}", spec.kind.name()));
            }
            if !want.is_empty() {
                sum.items_restored_nonempty += 1;
                out.count(&format!("store-item-restored-nonempty/{f}"));
            } else {
                out.count(&format!("store-item-restored-empty/{f}"));
            }
            if got != want {
                out.violation(
                    PROP,
                    format!("store-item/restored-differs/{f}{}", if other_kind_held { "/other-kind-held" } else { "" }),
                    "what the runtime handed to a store item when it was opened is not what the store holds for its name and kind",
                    json!({"store": spec.name, "got": got, "want": want, "incarnation": gen, "probe": plan.probe, "fault": plan.store_faults[i].map(|f| f.name())}),
                );
            }
        }

        // S2: the store log of the item is a gap-free, in-order prefix of the item's writes, each
        // handed over after the item had started to write it. (Removals and clears have no body of
        // their own: the comparison is by equality, so an equal later write can stand in for a lost
        // earlier one - towards "no violation"; rule S3 counts.)
        let mut bad: Option<String> = None;
        if ops_of[i].len() > writes.len() {
            bad = Some(format!("{} operations stored, {} written", ops_of[i].len(), writes.len()));
        } else {
            for (j, (t, op)) in ops_of[i].iter().enumerate() {
                let Emitted::Std(w) = &writes[j].what else { continue };
                if w != op {
                    bad = Some(format!("operation #{j} of the log is {op:?}, write #{j} of the item was {w:?}"));
                    break;
                }
                if *t < writes[j].t0 {
                    bad = Some(format!("operation #{j} was stored before the item wrote it"));
                    break;
                }
            }
        }
        // Which writes are missing, under the alignment of the log with the *latest* writes it can
        // stand for; and whether the first missing one directly followed the acknowledgement (no
        // step in which everything runnable ran lies between the two).
        let aligned = align_latest(&ops_of[i], &writes);
        // The log as one gap-free run of the writes that starts after the first one (writes k..).
        let run_from = (1..writes.len()).find(|k| {
            ops_of[i].len() + k <= writes.len() && ops_of[i].iter().zip(writes[*k..].iter()).all(|((t, op), w)| matches!(&w.what, Emitted::Std(x) if x == op) && *t >= w.t0)
        });
        let first_missing = if run_from.is_some() { Some(0) } else { aligned.as_ref().and_then(|m| (0..writes.len()).find(|j| !m.contains(j))) };
        let ack = rec.initialized_sent.unwrap_or(0);
        let directly_after_ack = |j: usize| !obs.quiesces.iter().any(|(q0, q1)| *q0 > ack && *q1 < writes[j].t0);
        if let Some(why) = bad {
            // The narrow form seen on the unchanged tree: the log is an in-order, gap-free run of
            // the item's writes that does not start at the first one; the missing first writes
            // directly followed the acknowledgement; nothing else is wrong.
            let run = !ops_of[i].is_empty() && run_from.map_or(false, |k| directly_after_ack(k - 1));
            let form = if run { "first-writes-missing" } else { "other" };
            out.violation(
                PROP,
                format!("store-item/log-not-prefix-of-writes/{form}/{}/{}", spec.kind.name(), path(plan.store_dynamic[i])),
                "the operations the store was handed for a store item are not, in order and without gaps, the first writes of the item",
                json!({"store": spec.name, "why": why, "incarnation": gen, "writes": writes.len(), "stored": ops_of[i].len(), "log_is_the_run_of_writes_from": run_from, "or_stands_for_writes": aligned}),
            );
        } else {
            // S3: at the end of a step in which everything runnable ran, the store has been handed
            // as many operations of the item as the item's channel had accepted writes before the
            // step began (fault-free incarnations only: a misbehaving item may hold the write task
            // for one initialisation time-out).
            let no_faults = plan.lane_faults.iter().all(|f| f.is_none()) && plan.store_faults.iter().all(|f| f.is_none());
            if rec.initialized_sent.is_some() && no_faults && runtime_must_serve(obs) {
                for (q0, q1) in obs.quiesces.iter().filter(|(_, q1)| *q1 < obs.ending_at) {
                    let accepted = writes.iter().filter(|w| w.t1.map_or(false, |t1| t1 < *q0)).count();
                    if accepted == 0 {
                        continue;
                    }
                    out.count("store-item-quiescence-after-writes");
                    let stored = ops_of[i].iter().filter(|(t, _)| t < q1).count();
                    if stored < accepted {
                        let which = match first_missing {
                            Some(j) if directly_after_ack(j) => "first-write",
                            _ => "later-write",
                        };
                        out.violation(
                            PROP,
                            format!("store-item/write-not-stored-at-quiescence/{which}/{f}"),
                            "a store item's write that the channel had accepted was not handed to the store although everything runnable ran afterwards (a restart brings back less than the item wrote)",
                            json!({"store": spec.name, "first_missing_write": first_missing, "accepted_before_the_step": accepted, "stored_by_its_end": stored, "incarnation": gen, "ending": plan.ending.name(),
                                "writes": writes.iter().map(|w| format!("{}..{:?} {:?}", w.t0, w.t1, w.what)).collect::<Vec<_>>(),
                                "stored_at": ops_of[i].iter().map(|(t, _)| *t).collect::<Vec<_>>(), "acknowledged_at": rec.initialized_sent, "write_error": rec.write_error,
                                "items_of_the_case": plan.stores.iter().map(|s| format!("{}:{}", s.name, s.kind.name())).collect::<Vec<_>>()}),
                        );
                        break;
                    }
                }
            }
        }
    }

    // ---- items that misbehave in the handshake -------------------------------------------------------
    let live_evidence = |name: &str, after: u64| -> Option<(u64, &'static str)> {
        obs.sessions
            .iter()
            .flat_map(|s| s.frames.iter())
            .find(|fr| fr.node == NODE && fr.lane == name && fr.ticket > after && matches!(fr.kind, FrameKind::Linked | FrameKind::Synced | FrameKind::Event))
            .map(|fr| (fr.ticket, fr.kind.name()))
    };
    for l in 0..plan.lanes.len() {
        let Some(fault) = plan.lane_faults[l] else { continue };
        let spec = &plan.lanes[l];
        let rec = &obs.lanes[l];
        if rec.reg_requested.is_none() {
            continue;
        }
        sum.faults_run += 1;
        let f = facet(spec, plan.dynamic[l]);
        let acked = rec.emitted.iter().any(|e| matches!(e.what, Emitted::Initialized) && e.t1.is_some());
        let stage = if acked {
            "acknowledged"
        } else if rec.init_complete.is_some() {
            "saw-init-complete"
        } else if !rec.init_items.is_empty() {
            "saw-part-of-the-state"
        } else {
            "saw-nothing"
        };
        out.count(&format!("init-fault/lane/{}/{stage}", fault.name()));
        out.count(&format!("init-fault/lane-path/{}", path(plan.dynamic[l])));
        out.events += 1 + rec.init_items.len() as u64;
        // F1: no acknowledgement, no life.
        if !acked {
            if let Some((t, kind)) = live_evidence(&spec.name, rec.reg_requested.unwrap_or(0)) {
                out.violation(
                    PROP,
                    format!("init-fault/live-without-ack/{f}/{}", fault.name()),
                    "the runtime serves a lane (a remote got linked / synced / an event) that never acknowledged its initialisation",
                    json!({"lane": spec.name, "frame": kind, "frame_ticket": t, "outcome": rec.fault_outcome, "incarnation": gen, "probe": plan.probe}),
                );
            }
        }
        // F2: `InitComplete` only after all of the stored state.
        if !spec.transient && rec.init_complete.is_some() && rec.reg_error.is_some() {
            let (got, want) = handed_and_held(spec.kind, &spec.name, rec, &obs.base);
            if !want.is_empty() {
                sum.faulty_handed_state += 1;
                out.count("init-fault/lane-handed-nonempty-state");
            }
            if got != want {
                out.violation(
                    PROP,
                    format!("init-fault/init-complete-without-full-state/{f}/{}", fault.name()),
                    "a lane was told that its initialisation is complete without having been handed all (and only) the stored state",
                    json!({"lane": spec.name, "got": got, "want": want, "incarnation": gen, "probe": plan.probe}),
                );
            }
        } else if !spec.transient && rec.init_complete.is_none() && !rec.init_items.is_empty() {
            out.count("init-fault/partial-hand-over-never-completed");
        }
    }
    for i in 0..n_items {
        let Some(fault) = plan.store_faults[i] else { continue };
        let rec = &obs.stores[i];
        if rec.reg_requested.is_none() {
            continue;
        }
        sum.faults_run += 1;
        let acked = rec.initialized_sent.is_some();
        let stage = if acked {
            "acknowledged"
        } else if rec.init_complete.is_some() {
            "saw-init-complete"
        } else if !rec.init_items.is_empty() {
            "saw-part-of-the-state"
        } else {
            "saw-nothing"
        };
        out.count(&format!("init-fault/store/{}/{stage}", fault.name()));
        out.count(&format!("init-fault/store-path/{}", path(plan.store_dynamic[i])));
        if rec.init_complete.is_none() && !rec.init_items.is_empty() {
            out.count("init-fault/partial-hand-over-never-completed");
        }
        if fault != InitFault::DropPromise && rec.init_complete.is_some() && !handed_and_held(plan.stores[i].kind, &plan.stores[i].name, rec, &obs.base).1.is_empty() {
            sum.faulty_handed_state += 1;
        }
    }
    // The n-th `id_for` call of a name refused once (every item behaves). Whatever the runtime makes
    // of it - the agent does not start, the runtime stops with the error, or it goes on - is judged
    // by the rules of `oracle::check`: what a remote is shown was stored before, at every cut the
    // store is not older than what was shown, a restart is handed exactly the stored state.
    if let Some((name, n)) = &plan.id_fails_nth {
        let item = match plan.lanes.iter().position(|l| l.name == *name) {
            Some(l) => format!("lane/{}", path(plan.dynamic[l])),
            None => match plan.stores.iter().position(|s| s.name == *name) {
                Some(i) => format!("store/{}", path(plan.store_dynamic[i])),
                None => "unknown".to_string(),
            },
        };
        if obs.id_refused.is_empty() {
            out.count(&format!("init-fault/id-for-call-{n}/{item}/call-not-made"));
        } else {
            sum.faults_run += 1;
            let outcome = match &obs.agent_result {
                Some(Err(_)) => "runtime-ended-with-error",
                Some(Ok(())) => "runtime-went-on",
                None => "crashed-later",
            };
            out.count(&format!("init-fault/id-for-call-{n}/{item}/refused/{outcome}"));
            // Frames the remotes were shown for that name after the refusal (each is judged by rule 1).
            let (t, _) = &obs.id_refused[0];
            let shown = obs.sessions.iter().flat_map(|s| s.frames.iter()).filter(|fr| fr.node == NODE && fr.lane == *name && fr.kind == FrameKind::Event && fr.ticket > *t).count();
            out.add("init-fault/id-for-call-refused/event-frames-of-the-name-afterwards", shown as u64);
        }
    }
    if !obs.id_refused.is_empty() {
        out.count("init-fault/id-for-refused");
        // Nothing may be written under a name whose identifier the store refused to give.
        for (t, name) in &obs.id_refused {
            if let Some(id) = obs.base.ids.get(name) {
                if let Some((ot, op)) = obs.log.iter().find(|(ot, op)| ot > t && store_op_id(op) == *id) {
                    out.violation(
                        PROP,
                        "init-fault/written-after-id-refused",
                        "the store was handed an operation under the identifier of a name after it had refused to resolve that name",
                        json!({"name": name, "op": format!("{op:?}"), "ticket": ot, "incarnation": gen}),
                    );
                }
            }
        }
    }
    sum.views_compared = closing_view(obs, out, "init-fault");
    sum.violations = (out.violations.len() - before) as u64;
    sum
}

/// For each operation of the log the index of the write it stands for, matching from the end of
/// the log to the latest equal write that had been started before the operation was stored.
/// `None`: some operation stands for no write.
fn align_latest(ops: &[(u64, Op)], writes: &[&crate::lanes::Emit]) -> Option<Vec<usize>> {
    let mut res = vec![0usize; ops.len()];
    let mut end = writes.len();
    for (i, (t, op)) in ops.iter().enumerate().rev() {
        let j = (0..end).rev().find(|j| writes[*j].t0 <= *t && matches!(&writes[*j].what, Emitted::Std(x) if x == op))?;
        res[i] = j;
        end = j;
    }
    Some(res)
}

#[derive(Default)]
pub struct NoStoreSummary {
    pub views_compared: u64,
    pub frames: u64,
    pub id_requests: u64,
    pub store_items_answered: u64,
    pub violations: u64,
}

/// Degraded persistence: the incarnation ran without a usable store.
pub fn check_nostore(obs: &Obs, out: &mut CaseOut) -> NoStoreSummary {
    let mut sum = NoStoreSummary::default();
    let plan = &obs.plan;
    let mode = plan.store_mode.name();
    let gen = plan.incarnation;
    let before = out.violations.len();
    sum.id_requests = obs.id_requests.len() as u64;
    sum.frames = obs.sessions.iter().map(|s| s.frames.len() as u64).sum();
    out.events += sum.frames + sum.id_requests;
    out.add(&format!("no-store/id-for-calls/{mode}"), sum.id_requests);

    // N5: the agent runs.
    if let Some(Err(e)) = &obs.agent_result {
        let expected = plan.ending == Ending::Return(false) && e.contains("The agent task failed");
        if !expected {
            let class = if e.contains("Restoring the state") {
                "restoration"
            } else if e.contains("Persisting a change") {
                "persistence"
            } else if e.contains("Failed to initialize agent") {
                "agent-init"
            } else if e.contains("panicked") {
                "panic"
            } else {
                "other"
            };
            out.violation(
                PROP,
                format!("no-store/agent-failed/{mode}/{class}"),
                "without a usable store the runtime hosting the agent ended with an error (persistent lanes and stores must run transient)",
                json!({"error": e, "init_error": obs.init_error, "incarnation": gen, "ending": plan.ending.name()}),
            );
        }
    }
    // N1: nothing is claimed to be persisted.
    if plan.store_mode == StoreMode::IdUnavailable && (!obs.log.is_empty() || !obs.refused.is_empty() || obs.store_reads > 0) {
        out.violation(
            PROP,
            format!("no-store/store-called/{mode}"),
            "the store answered `NoStoreAvailable` to every `id_for` and was still read or written",
            json!({"writes": obs.log.len(), "reads": obs.store_reads, "first": obs.log.first().map(|(t, op)| format!("{t}: {op:?}")), "incarnation": gen}),
        );
    }
    // N2: nothing is handed to any item (in particular at a restart).
    for l in 0..plan.lanes.len() {
        let rec = &obs.lanes[l];
        let f = facet(&plan.lanes[l], plan.dynamic[l]);
        if rec.reg_io.is_some() {
            out.count(&format!("no-store/lanes/{f}"));
        }
        if let Some((t, i)) = rec.init_items.first() {
            out.violation(
                PROP,
                format!("no-store/lane-handed-state/{mode}/{f}"),
                "without a usable store a lane was handed state when it was registered",
                json!({"lane": plan.lanes[l].name, "item": format!("{i:?}"), "ticket": t, "incarnation": gen}),
            );
        }
        if !plan.lanes[l].transient && rec.init_complete.is_some() {
            out.count("no-store/persistent-lane-handshake-completed");
        }
        if plan.lanes[l].transient {
            if let Some((t, what)) = rec.stray.first() {
                out.violation(
                    PROP,
                    format!("no-store/transient-lane-handed-state/{mode}"),
                    "a transient lane received an initialisation message or a command nobody sent",
                    json!({"lane": plan.lanes[l].name, "what": what, "ticket": t, "incarnation": gen}),
                );
            }
        }
    }
    // N3: a request for a store item is answered (refused as unsupported, or opened with nothing in it).
    for i in 0..plan.stores.len() {
        let rec = &obs.stores[i];
        let spec = &plan.stores[i];
        let Some(t_req) = rec.reg_requested else { continue };
        let p = path(plan.store_dynamic[i]);
        if let Some((t, item)) = rec.init_items.first() {
            out.violation(
                PROP,
                format!("no-store/store-item-handed-state/{mode}/{}", spec.kind.name()),
                "without a usable store a store item was handed state when it was opened",
                json!({"store": spec.name, "item": format!("{item:?}"), "ticket": t, "incarnation": gen}),
            );
        }
        if rec.not_supported.is_some() {
            sum.store_items_answered += 1;
            out.count(&format!("no-store/add-store-answer/{mode}/{p}/stores-not-supported"));
        } else if rec.initialized_sent.is_some() {
            sum.store_items_answered += 1;
            out.count(&format!("no-store/add-store-answer/{mode}/{p}/opened-empty"));
            out.add(&format!("no-store/store-item-writes/{mode}"), rec.emitted.iter().filter(|e| matches!(e.what, Emitted::Std(_))).count() as u64);
        } else if let Some((t, e)) = &rec.reg_error {
            out.count(&format!("no-store/add-store-answer/{mode}/{p}/failed"));
            if *t < obs.ending_at && runtime_must_serve(obs) {
                out.violation(
                    PROP,
                    format!("no-store/add-store-failed/{mode}/{p}"),
                    "without a usable store the request for a store item failed (other than with `stores not supported`) while the agent was running",
                    json!({"store": spec.name, "error": e, "incarnation": gen}),
                );
            }
        } else {
            out.count(&format!("no-store/add-store-answer/{mode}/{p}/none"));
            let quiesced = obs.quiesces.iter().any(|(q0, q1)| *q0 > t_req && *q1 < obs.ending_at);
            if quiesced && runtime_must_serve(obs) {
                out.violation(
                    PROP,
                    format!("no-store/add-store-unanswered/{mode}/{p}"),
                    "without a usable store the request for a store item was not answered although everything runnable ran",
                    json!({"store": spec.name, "incarnation": gen, "io": rec.reg_io, "init_complete": rec.init_complete}),
                );
            }
        }
    }
    // N4: no frame held back or lost.
    sum.views_compared = closing_view(obs, out, "no-store");
    sum.violations = (out.violations.len() - before) as u64;
    sum
}
