//! Executes one incarnation: the real agent runtime (`AgentRouteTask::run_agent_with_store`) hosting
//! the harness-implemented agent against a recording store built from a given state, on a
//! current-thread Tokio runtime with a paused clock, and returns everything the monitors saw.

use std::collections::HashMap;
use std::num::NonZeroUsize;
use std::sync::Arc;
use std::time::Duration;

use common::jitter::Jitter;
use common::{ticket, Rng};
use parking_lot::Mutex;
use swimos_api::agent::AgentConfig;
use swimos_runtime::agent::{
    AgentAttachmentRequest, AgentExecError, AgentRouteChannels, AgentRouteDescriptor, AgentRouteTask, AgentRuntimeConfig, CombinedAgentConfig,
    DisconnectionReason, LinkRequest,
};
use swimos_utilities::byte_channel::byte_channel;
use swimos_utilities::trigger::{self, promise};
use tokio::sync::{mpsc, oneshot, Notify};
use tokio::task::JoinHandle;
use uuid::Uuid;

use crate::lanes::{AgentCtl, AgentShared, Controls, LaneCtl, LaneRec, RawAgent, SharedLane};
use crate::plan::{Ending, Plan, Step, StoreMode};
use crate::remote::{new_ctl, reader_task, set_stalled, writer_task, Frame, FrameLog, PacedReader, Req, ReqKind, ReqLog, SharedCtl, SharedLog, SharedReqs, WriterCmd, FAST};
use crate::store::{Op as StoreOp, RecStore, State};

pub const NODE: &str = "/persist";
/// A lane the agent does not have: requests for it keep the read task busy (commands: nothing else
/// happens; link / sync / unlink: the write task answers "lane not found").
pub const UNKNOWN_LANE: &str = "nolane";

/// One attachment of a remote.
pub struct Session {
    pub frames: Vec<Frame>,
    /// The requests this attachment wrote (with the virtual time of each).
    pub reqs: Vec<Req>,
    /// Which remote of the plan this was an attachment of.
    pub remote: usize,
    /// How the runtime completed the attachment, if it did (None inside: the promise was dropped).
    pub completion: Option<Option<DisconnectionReason>>,
}

struct Live {
    req_tx: mpsc::UnboundedSender<WriterCmd>,
    ctl: SharedCtl,
    drop_signal: Arc<Notify>,
    reader: JoinHandle<()>,
    writer: JoinHandle<()>,
    watcher: JoinHandle<()>,
    log: SharedLog,
    reqs: SharedReqs,
    completion: Arc<Mutex<Option<Option<DisconnectionReason>>>>,
}

pub struct Obs {
    pub plan: Plan,
    /// State of the store the incarnation started on.
    pub base: State,
    pub final_state: State,
    /// Mutating store operations of this incarnation: (ticket, op).
    pub log: Vec<(u64, StoreOp)>,
    pub id_requests: Vec<(u64, String)>,
    /// Mutating store calls that the store refused (fault injection): (ticket, op).
    pub refused: Vec<(u64, StoreOp)>,
    /// Store reads that the store refused (fault injection): (ticket, lane id).
    pub read_refused: Vec<(u64, u64)>,
    pub sessions: Vec<Session>,
    pub lanes: Vec<LaneRec>,
    /// How `run_agent_with_store` ended (None: crashed / never finished).
    pub agent_result: Option<Result<(), String>>,
    /// Ticket at which the ending (stop signal, return request, crash, waiting for the time-out) began.
    pub ending_at: u64,
    pub crashed: bool,
    /// The time-out ending needed the stop signal after all.
    pub timeout_needed_stop: bool,
    pub init_error: Option<String>,
    pub stuck: Vec<String>,
    /// Virtual time at which the incarnation began.
    pub epoch: tokio::time::Instant,
    /// The runtime ended by itself while the script was still running (ticket at which this was
    /// noticed): with a finite inactivity time-out that is legitimate.
    pub ended_during_script: Option<u64>,
    /// Records of the store items (shape of a lane's record).
    pub stores: Vec<LaneRec>,
    /// Number of read calls the store saw (`get_value` / `read_map`).
    pub store_reads: u64,
    /// `id_for` calls that were refused (fault injection): (ticket, name).
    pub id_refused: Vec<(u64, String)>,
    /// Script steps that let everything runnable run (`Quiesce`, `Advance`): (ticket before, ticket after).
    pub quiesces: Vec<(u64, u64)>,
    /// Number of script steps that were executed.
    pub steps_done: usize,
}

fn nz(n: usize) -> NonZeroUsize {
    NonZeroUsize::new(n.max(1)).unwrap()
}

const NEVER: Duration = Duration::from_secs(1_000_000);
const STEP_TIMEOUT: Duration = Duration::from_secs(20);

fn runtime_config(plan: &Plan) -> AgentRuntimeConfig {
    AgentRuntimeConfig {
        inactive_timeout: plan.timeout_ms.map_or(NEVER, Duration::from_millis),
        prune_remote_delay: NEVER,
        shutdown_timeout: Duration::from_secs(5),
        item_init_timeout: Duration::from_millis(plan.item_init_timeout_ms),
        command_output_timeout: NEVER,
        ..Default::default()
    }
}

fn joined(res: Result<Result<(), AgentExecError>, tokio::task::JoinError>) -> Result<(), String> {
    match res {
        Ok(r) => r.map_err(|e| format!("{e}")),
        Err(join_err) => Err(format!("agent task panicked: {join_err}")),
    }
}

async fn settle() {
    // Paused clock: this returns only when every other task is idle (virtual time advances only then).
    tokio::time::sleep(Duration::from_millis(1)).await;
}

struct Runner {
    plan: Plan,
    rng: Rng,
    att_tx: mpsc::Sender<AgentAttachmentRequest>,
    live: Vec<Option<Live>>,
    sessions: Vec<Session>,
    stuck: Vec<String>,
    lane_tx: Vec<mpsc::UnboundedSender<LaneCtl>>,
    store_tx: Vec<mpsc::UnboundedSender<LaneCtl>>,
    agent_tx: Option<mpsc::UnboundedSender<AgentCtl>>,
    attachments: u128,
    quiesces: Vec<(u64, u64)>,
}

impl Runner {
    async fn attach(&mut self, r: usize) {
        if let Some(old) = self.live[r].take() {
            self.retire(r, old).await;
        }
        self.attachments += 1;
        let id = Uuid::from_u128(0x1000 + self.attachments);
        let (req_tx, req_rx) = byte_channel(nz(self.plan.cap_in[r]));
        let (resp_tx, resp_rx) = byte_channel(nz(self.plan.cap_out[r]));
        let (comp_tx, comp_rx) = promise::promise::<DisconnectionReason>();
        let (att_done_tx, att_done_rx) = trigger::trigger();
        let ctl = new_ctl(self.plan.pace[r], false);
        let log: SharedLog = Arc::new(Mutex::new(FrameLog::default()));
        let reqs: SharedReqs = Arc::new(Mutex::new(ReqLog::default()));
        let completion: Arc<Mutex<Option<Option<DisconnectionReason>>>> = Arc::new(Mutex::new(None));
        let drop_signal = Arc::new(Notify::new());
        let reader = tokio::spawn(reader_task(PacedReader::new(resp_rx, ctl.clone(), self.rng.fork()), log.clone(), drop_signal.clone()));
        let (wtx, wrx) = mpsc::unbounded_channel();
        let writer = tokio::spawn(writer_task(id, NODE.to_string(), req_tx, wrx, reqs.clone()));
        let comp2 = completion.clone();
        let watcher = tokio::spawn(async move {
            let r = comp_rx.await;
            let reason: Option<DisconnectionReason> = match r { Ok(a) => Some(a), Err(_) => None };
            *comp2.lock() = Some(reason);
        });
        let req = AgentAttachmentRequest::with_confirmation(id, (resp_tx, req_rx), comp_tx, att_done_tx);
        if self.att_tx.send(req).await.is_ok() {
            if tokio::time::timeout(STEP_TIMEOUT, att_done_rx).await.is_err() {
                self.stuck.push(format!("attach of remote {r} not confirmed"));
            }
        }
        self.live[r] = Some(Live { req_tx: wtx, ctl, drop_signal, reader, writer, watcher, log, reqs, completion });
    }

    /// The remote goes away: both halves are dropped; what it had received stays in the record.
    async fn retire(&mut self, r: usize, mut live: Live) {
        let _ = live.req_tx.send(WriterCmd::Close);
        live.drop_signal.notify_one();
        let _ = (&mut live.reader).await;
        live.writer.abort();
        live.watcher.abort();
        let frames = std::mem::take(&mut live.log.lock().frames);
        let reqs = live.reqs.lock().reqs.clone();
        let completion = live.completion.lock().clone();
        self.sessions.push(Session { frames, reqs, remote: r, completion });
    }

    fn send(&mut self, r: usize, kind: ReqKind, lane: &str) {
        let Some(live) = self.live[r].as_ref() else { return };
        // Once the runtime has told the remote that it was removed, a peer stops sending.
        if live.completion.lock().is_some() {
            return;
        }
        {
            let mut g = live.reqs.lock();
            if g.writer_gone.is_some() {
                return;
            }
            g.queued += 1;
        }
        let _ = live.req_tx.send(WriterCmd::Send(kind, lane.to_string(), bytes::Bytes::new()));
    }

    fn stall(&mut self, r: usize, stalled: bool) {
        if let Some(live) = self.live[r].as_ref() {
            set_stalled(&live.ctl, stalled);
        }
    }

    fn drain(&mut self) {
        for r in 0..self.live.len() {
            self.stall(r, false);
            if let Some(live) = self.live[r].as_ref() {
                live.ctl.lock().pace = FAST;
            }
        }
    }

    async fn step(&mut self, step: &Step) {
        match step {
            Step::Register(l) => {
                if let Some(tx) = self.agent_tx.as_ref() {
                    let _ = tx.send(AgentCtl::Register(*l));
                }
            }
            Step::Attach(r) => self.attach(*r).await,
            Step::Link(r, l) => {
                let name = self.plan.lanes[*l].name.clone();
                self.send(*r, ReqKind::Link, &name)
            }
            Step::Sync(r, l) => {
                let name = self.plan.lanes[*l].name.clone();
                self.send(*r, ReqKind::Sync, &name)
            }
            Step::Unlink(r, l) => {
                let name = self.plan.lanes[*l].name.clone();
                self.send(*r, ReqKind::Unlink, &name)
            }
            Step::Stall(r) => self.stall(*r, true),
            Step::Unstall(r) => self.stall(*r, false),
            Step::DropRemote(r) => {
                if let Some(live) = self.live[*r].take() {
                    self.retire(*r, live).await;
                }
            }
            Step::Apply { lane, op, defer } => {
                if let Some(tx) = self.lane_tx.get(*lane) {
                    let _ = tx.send(LaneCtl::Apply { op: op.clone(), defer: *defer });
                }
            }
            Step::Run(n) => {
                for _ in 0..*n {
                    tokio::task::yield_now().await;
                }
            }
            Step::Quiesce => {
                let t = ticket();
                settle().await;
                self.quiesces.push((t, ticket()));
            }
            // Virtual time: returns when the clock has moved on by this much (every timer of the
            // runtime that expires on the way fires, in order).
            Step::Advance(ms) => {
                let t = ticket();
                tokio::time::sleep(Duration::from_millis(*ms)).await;
                self.quiesces.push((t, ticket()));
            }
            Step::RegisterStore(i) => {
                if let Some(tx) = self.agent_tx.as_ref() {
                    let _ = tx.send(AgentCtl::RegisterStore(*i));
                }
            }
            Step::StoreApply { store, op } => {
                if let Some(tx) = self.store_tx.get(*store) {
                    let _ = tx.send(LaneCtl::Apply { op: op.clone(), defer: false });
                }
            }
            Step::Drain => self.drain(),
            Step::Poke(r, kind) => self.send(*r, *kind, UNKNOWN_LANE),
        }
    }
}

pub fn run_incarnation(plan: &Plan, base: &State, rng: &mut Rng) -> Obs {
    let rt = tokio::runtime::Builder::new_current_thread().enable_time().start_paused(true).build().expect("tokio runtime");
    let identity = Uuid::from_u128(0xA6E47);
    let plan2 = plan.clone();
    let base2 = base.clone();
    let mut rng2 = rng.fork();
    rt.block_on(async move {
        let epoch = tokio::time::Instant::now();
        let n_lanes = plan2.lanes.len();
        let store = RecStore::from_state(base2.clone());
        store.0.lock().fail_from = plan2.store_fails_from;
        store.0.lock().read_fails_at = plan2.store_read_fails_at;
        store.0.lock().no_ids = plan2.store_mode == StoreMode::IdUnavailable;
        store.0.lock().id_fails_for = plan2.id_fails_for.clone();
        store.0.lock().id_fails_nth = plan2.id_fails_nth.clone();
        let lane_recs: Vec<SharedLane> = (0..n_lanes).map(|_| Arc::new(Mutex::new(LaneRec::default()))).collect();
        let store_recs: Vec<SharedLane> = (0..plan2.stores.len()).map(|_| Arc::new(Mutex::new(LaneRec::default()))).collect();
        let shared = Arc::new(AgentShared { lanes: lane_recs.clone(), stores: store_recs.clone(), returned: Mutex::new(None), init_error: Mutex::new(None) });
        let mut store_tx = vec![];
        let mut store_rx = vec![];
        for _ in 0..plan2.stores.len() {
            let (tx, rx) = mpsc::unbounded_channel();
            store_tx.push(tx);
            store_rx.push(rx);
        }
        let mut lane_tx = vec![];
        let mut lane_rx = vec![];
        for _ in 0..n_lanes {
            let (tx, rx) = mpsc::unbounded_channel();
            lane_tx.push(tx);
            lane_rx.push(rx);
        }
        let (return_tx, return_rx) = oneshot::channel::<bool>();
        let (agent_tx, agent_rx) = mpsc::unbounded_channel();
        let agent = RawAgent {
            specs: plan2.lanes.clone(),
            dynamic: plan2.dynamic.clone(),
            faults: plan2.lane_faults.clone(),
            stores: plan2.stores.clone(),
            store_dynamic: plan2.store_dynamic.clone(),
            store_faults: plan2.store_faults.clone(),
            hold_ms: plan2.item_init_timeout_ms,
            shared: shared.clone(),
            ctl: Mutex::new(Some(Controls { lane_ctl: lane_rx, store_ctl: store_rx, agent_ctl: agent_rx, return_rx })),
            jitter: Mutex::new(Some((rng2.fork(), plan2.agent_jitter_per_mille))),
        };
        let (att_tx, att_rx) = mpsc::channel(8);
        let (_http_tx, http_rx) = mpsc::channel(1);
        let (link_tx, mut link_rx) = mpsc::channel::<LinkRequest>(8);
        let (stop_tx, stop_rx) = trigger::trigger();
        let mut stop_tx = Some(stop_tx);
        let config = CombinedAgentConfig { agent_config: AgentConfig::default(), runtime_config: runtime_config(&plan2) };
        // The agent never opens downlinks or command channels.
        let link_handle = tokio::spawn(async move { while link_rx.recv().await.is_some() {} });
        let descriptor = AgentRouteDescriptor { identity, route: NODE.parse().expect("route uri"), route_params: HashMap::new() };
        let task = AgentRouteTask::new(&agent, descriptor, AgentRouteChannels::new(att_rx, http_rx, link_tx), stop_rx, config, None);
        let store2 = store.clone();
        let run: futures::future::BoxFuture<'static, Result<(), AgentExecError>> = match plan2.store_mode {
            StoreMode::Recording | StoreMode::IdUnavailable => Box::pin(task.run_agent_with_store(async move { Ok(store2) })),
            StoreMode::NoStore => Box::pin(task.run_agent()),
            StoreMode::DisabledImpl => Box::pin(task.run_agent_with_store(async move { Ok(swimos_api::persistence::StoreDisabled) })),
        };
        let agent_handle: JoinHandle<Result<(), AgentExecError>> = tokio::spawn(Jitter::new(run, rng2.fork(), plan2.jitter_per_mille));

        let mut runner = Runner {
            plan: plan2.clone(),
            rng: rng2.fork(),
            att_tx,
            live: (0..plan2.remotes).map(|_| None).collect(),
            sessions: vec![],
            stuck: vec![],
            lane_tx,
            store_tx,
            agent_tx: Some(agent_tx),
            attachments: 0,
            quiesces: vec![],
        };
        let mut agent_handle = Some(agent_handle);
        let mut ended_during_script = None;
        let mut steps_done = 0;
        for step in &plan2.steps {
            runner.step(step).await;
            steps_done += 1;
            if agent_handle.as_ref().map_or(false, |h| h.is_finished()) {
                ended_during_script = Some(ticket());
                break;
            }
        }
        if plan2.drain_before_end {
            runner.drain();
        }
        // The ending. No lane is registered from here on: the agent task may end once its lanes have.
        let ending_at = ticket();
        let mut crashed = false;
        let mut timeout_needed_stop = false;
        let mut agent_result = None;
        let mut return_tx = Some(return_tx);
        match plan2.ending {
            Ending::Crash => {
                if let Some(h) = agent_handle.take() {
                    if h.is_finished() {
                        agent_handle = Some(h);
                    } else {
                        h.abort();
                        let _ = h.await;
                        crashed = true;
                    }
                }
                runner.agent_tx = None;
            }
            Ending::Stop => {
                runner.agent_tx = None;
                if let Some(tx) = stop_tx.take() {
                    tx.trigger();
                }
            }
            Ending::Return(ok) => {
                if let Some(tx) = return_tx.take() {
                    let _ = tx.send(ok);
                }
                runner.agent_tx = None;
            }
            Ending::Timeout => {
                runner.agent_tx = None;
                if let Some(mut h) = agent_handle.take() {
                    match tokio::time::timeout(Duration::from_secs(30), &mut h).await {
                        Ok(res) => agent_result = Some(joined(res)),
                        Err(_) => {
                            timeout_needed_stop = true;
                            if let Some(tx) = stop_tx.take() {
                                tx.trigger();
                            }
                            agent_handle = Some(h);
                        }
                    }
                }
            }
        }
        if let Some(mut h) = agent_handle.take() {
            match tokio::time::timeout(Duration::from_secs(120), &mut h).await {
                Ok(res) => agent_result = Some(joined(res)),
                Err(_) => {
                    runner.stuck.push("agent did not stop within 120 virtual seconds".to_string());
                    h.abort();
                }
            }
        }
        drop(return_tx);
        // Whatever is still buffered in the remotes' channels was sent: it is read now.
        runner.drain();
        settle().await;
        settle().await;
        for r in 0..runner.live.len() {
            if let Some(live) = runner.live[r].take() {
                runner.retire(r, live).await;
            }
        }
        link_handle.abort();
        drop(stop_tx);
        let lanes: Vec<LaneRec> = lane_recs.iter().map(|l| l.lock().clone()).collect();
        let init_error = shared.init_error.lock().clone();
        let (final_state, log, id_requests) = store.snapshot();
        let refused = store.0.lock().refused.clone();
        let read_refused = store.0.lock().read_refused.clone();
        let stores: Vec<LaneRec> = store_recs.iter().map(|l| l.lock().clone()).collect();
        let store_reads = store.0.lock().reads;
        let id_refused = store.0.lock().id_refused.clone();
        Obs {
            plan: plan2,
            base: base2,
            final_state,
            log,
            id_requests,
            refused,
            read_refused,
            sessions: runner.sessions,
            lanes,
            agent_result,
            ending_at,
            crashed,
            timeout_needed_stop,
            init_error,
            stuck: runner.stuck,
            epoch,
            ended_during_script,
            stores,
            store_reads,
            id_refused,
            quiesces: runner.quiesces,
            steps_done,
        }
    })
}
