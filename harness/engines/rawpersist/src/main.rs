//! Engine `rawpersist` (property C05 at the level of the agent *runtime*): a harness-implemented
//! `Agent` speaking the raw lane protocol is hosted by the real runtime
//! (`AgentRouteTask::run_agent_with_store`) on a recording store. Lanes are registered during the
//! agent's initialisation phase or dynamically by the running agent; simulated remotes link / sync
//! over small byte channels; the incarnation ends by a stop, by the agent returning, by a crash or
//! by the inactivity time-out, and is then restarted against the store rebuilt from the recorded
//! operation log: at 1-3 cuts of the log (probe restarts) and at its end (a full next incarnation,
//! with the registration paths chosen afresh).
//!
//! Half of the incarnations run with a short, finite inactivity time-out (15 / 40 ms of virtual time)
//! and scripts that let virtual time pass in steps of 0.5x..1.5x of it: stretches in which the lanes
//! are silent for more than one time-out while a remote keeps the read task awake (a request every
//! half time-out), so that the write task casts its stop vote and the vote stays incomplete, then a
//! lane event that rescinds it. One body in ten (map updates, value sets) is *empty* - valid Recon
//! for `()`, `None`, `Extant` - and is placed in the lane's history by position (`oracle::Placing`).
//!
//! Extension parts (modules `ext`, `items`, `oracle_ext`; generators at the end of `plan`):
//!  * `runtime-persist/stores`: the agent also requests value and map *store items* with
//!    `AgentContext::add_store`, during its initialisation or while it runs
//!    (`AgentRuntimeRequest::AddStore` -> `WriteTaskMessage::Store`), writes through them, and may
//!    request an item with the other kind than the one its name had before;
//!  * `runtime-persist/init-faults`: lanes and store items that misbehave in the initialisation
//!    handshake (never read, never acknowledge, acknowledge late, drop a channel or the promise,
//!    send garbage; the store refuses `id_for`) with a short `item_init_timeout`;
//!  * `runtime-persist/no-store`: the same conversations on `run_agent` (no store), on a store
//!    whose `id_for` answers `NoStoreAvailable`, and on swimos_api's `StoreDisabled`.

mod ext;
mod items;
mod lanes;
mod oracle;
mod oracle_ext;
mod plan;
#[allow(dead_code)]
mod remote;
mod run;
#[allow(dead_code)]
mod store;

use std::hash::Hash;

use common::{json, CaseOut, Rng, Session};

use crate::oracle::{check, facet, Summary};
use crate::plan::{lane_specs, plan, probe_plan, Focus, Unique};
use crate::run::run_incarnation;
use crate::store::{state_at, State};

fn fold(sum: &mut Summary, s: Summary) {
    sum.frames_checked += s.frames_checked;
    sum.frames_transient += s.frames_transient;
    sum.store_ops += s.store_ops;
    sum.cuts += s.cuts;
    sum.restored_nonempty += s.restored_nonempty;
    sum.violations += s.violations;
}

fn run_case(rng: &mut Rng, out: &mut CaseOut, focus: Focus, generations: u32, max_len: usize, max_probes: u64) {
    let lanes = lane_specs(rng, focus);
    let mut unique = Unique(1000);
    let mut base = State::default();
    let mut sum = Summary::default();
    let mut restarts = 0u64;
    let mut sample = vec![];
    for l in &lanes {
        out.sig(&(l.kind, l.transient));
    }
    for gen in 0..generations {
        let p = plan(rng, focus, &lanes, gen, max_len, &mut unique);
        for l in 0..lanes.len() {
            out.count(&format!("lanes/{}", facet(&lanes[l], p.dynamic[l])));
        }
        out.sig(&(p.dynamic.clone(), p.ending.name(), p.steps.len(), p.timeout_ms));
        let obs = run_incarnation(&p, &base, rng);
        if let Some(why) = obs.stuck.first() {
            out.inconclusive(format!("stuck: {why}"));
        }
        out.count(&format!("ending/{}", p.ending.name()));
        out.count(&match p.timeout_ms {
            Some(t) => format!("inactive-timeout/{t}ms"),
            None => "inactive-timeout/never".to_string(),
        });
        if obs.ended_during_script.is_some() {
            out.count("runtime-ended-during-script");
        }
        if obs.crashed {
            out.count("crashes");
        }
        if !obs.read_refused.is_empty() {
            out.count("store-read-failure-injected");
        }
        if !obs.refused.is_empty() {
            out.count("store-failure-injected");
        }
        if obs.timeout_needed_stop {
            out.count("timeout-ending-needed-stop");
        }
        if gen > 0 {
            restarts += 1;
        }
        for (_, op) in &obs.log {
            op_sig(out, op);
        }
        let s = check(&obs, out);
        sample.push(json!({
            "incarnation": gen, "ending": p.ending.name(), "steps": p.steps.len(), "store_ops": obs.log.len(),
            "frames_checked": s.frames_checked, "paths": p.dynamic, "base_ids": base.ids.len(),
        }));
        let found = s.violations > 0;
        fold(&mut sum, s);
        if found {
            // Later incarnations would only repeat the finding on a store that is already off.
            break;
        }
        // Restarts at cuts of this incarnation's log: a fresh agent on a fresh runtime against the
        // store as it would have survived a crash right after the first k operations.
        let ids_only = State { ids: obs.final_state.ids.clone(), ..obs.base.clone() };
        let n = obs.log.len();
        let probes = if n == 0 { 0 } else { rng.range(1, max_probes) };
        for _ in 0..probes {
            let k = rng.usize_below(n + 1);
            let st = state_at(&ids_only, &obs.log, k);
            let pp = probe_plan(rng, focus, &lanes, gen + 1);
            let pobs = run_incarnation(&pp, &st, rng);
            if let Some(why) = pobs.stuck.first() {
                out.inconclusive(format!("stuck: {why}"));
            }
            restarts += 1;
            out.count("probe-restarts");
            let s = check(&pobs, out);
            fold(&mut sum, s);
        }
        // The store as it actually survived is what the next incarnation starts on.
        let survived = state_at(&ids_only, &obs.log, n);
        if survived != obs.final_state {
            out.violation("C05", "harness/replayed-log-differs", "replaying the recorded log does not give the recorded store state (harness defect)", json!({}));
        }
        base = survived;
    }
    out.add("frames-checked-against-store", sum.frames_checked);
    out.add("frames-of-transient-lanes", sum.frames_transient);
    out.add("store-ops", sum.store_ops);
    out.add("cuts-evaluated", sum.cuts);
    out.add("restarts", restarts);
    out.add("lanes-restored-nonempty", sum.restored_nonempty);
    // A case counts when something was published and stored, and a restart handed state back.
    out.nontrivial = sum.frames_checked > 0 && sum.store_ops > 0 && restarts > 0 && sum.restored_nonempty > 0;
    out.set_sample(json!({"lanes": lanes.iter().map(|l| format!("{}:{}{}", l.name, l.kind.name(), if l.transient { ":transient" } else { "" })).collect::<Vec<_>>(), "incarnations": sample}));
}

fn op_sig(out: &mut CaseOut, op: &crate::store::Op) {
    // The shape of the operation (which id, which kind), not the unique bodies.
    let (kind, id) = match op {
        crate::store::Op::PutValue { id, .. } => (0u8, *id),
        crate::store::Op::DeleteValue { id } => (1, *id),
        crate::store::Op::UpdateMap { id, .. } => (2, *id),
        crate::store::Op::RemoveMap { id, .. } => (3, *id),
        crate::store::Op::ClearMap { id } => (4, *id),
    };
    let mut h = common::Fnv::default();
    (kind, id).hash(&mut h);
    out.sig(&std::hash::Hasher::finish(&h));
}

fn main() {
    let mut session = Session::new("rawpersist");
    if session.prop() == "C05" {
        let thorough = session.args.thorough();
        let generations = if thorough { 3 } else { 2 };
        let max_len = if thorough { 60 } else { 36 };
        let max_probes = if thorough { 3 } else { 2 };
        let rule = "nontrivial = frames of persistent lanes were checked against store operations, and a restart handed a non-empty stored state back to a lane";
        let n = session.args.budget(25000, 250000);
        session.part("runtime-persist/mixed", rule, false, n, |_case, rng, out| {
            run_case(rng, out, Focus::Mixed, generations, max_len, max_probes);
        });
        let n = session.args.budget(25000, 250000);
        session.part("runtime-persist/dynamic", rule, false, n, |_case, rng, out| {
            run_case(rng, out, Focus::Dynamic, generations, max_len, max_probes);
        });
        // ---- extensions (coverage gaps 6, 5, 22) ----
        let rule = "nontrivial = store items wrote through the runtime into the store log, and a restart handed a non-empty stored state back to a store item";
        let n = session.args.budget(3000, 30000);
        session.part("runtime-persist/stores", rule, false, n, |_case, rng, out| {
            ext::run_case_recording(rng, out, ext::Part::Stores, generations, max_len, max_probes);
        });
        let rule = "nontrivial = after an incarnation that filled the store, at least one item (lane or store item) misbehaved in its initialisation handshake";
        let n = session.args.budget(2500, 25000);
        session.part("runtime-persist/init-faults", rule, false, n, |_case, rng, out| {
            ext::run_case_recording(rng, out, ext::Part::InitFaults, generations.max(2), max_len, max_probes);
        });
        let rule = "nontrivial = without a usable store remotes received frames, the closing view of at least one lane was compared with the lane's state, and the agent was restarted";
        let n = session.args.budget(2000, 20000);
        session.part("runtime-persist/no-store", rule, false, n, |_case, rng, out| {
            ext::run_case_nostore(rng, out, generations, max_len);
        });
    }
    session.finish()
}
