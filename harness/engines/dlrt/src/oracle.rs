//! Oracles of C07, decided on what the consumers and the lane model observed.
//!
//! Consumer side (per consumer):
//!  * order        – `linked (event)* [synced] (event)* unlinked`;
//!  * synced       – delivered iff SYNC was requested;
//!  * synced-state – at `synced` the replica folded from the events received so far equals a state
//!                   the lane held between the consumer's attachment and that receipt;
//!  * events       – the events received are a contiguous run of the events the lane sent, starting
//!                   no later than the first event the lane sent after the consumer was owed events
//!                   (receipt of `linked` without SYNC, of `synced` with SYNC) and, for a consumer
//!                   still attached at the quiescent point, running to the last event;
//!  * unlinked     – delivered (then the channel closed) when the link closes, not before. The link
//!                   closes by the end action of the case (lane `unlinked`, socket dropped, stop
//!                   trigger), by a lane-side fault of the script (the lane closes its writer: the
//!                   runtime's input ends; the lane drops its reader: the runtime's output fails, which
//!                   the write task can only notice when it writes), or because the runtime stops after
//!                   `empty_timeout` without consumers - which it must not do while one is attached.
//! Frames that are not what a lane emits (`badframe-*` parts; new rules have the prefix `badframe/`):
//!  * an `event` whose body is not a map message, map runtime with a strategy that *aborts*: once the
//!    frame is completely written and everything is drained the runtime has terminated
//!    (`badframe/runtime-not-stopped/..`), and - by the `unlinked` rule above, cause `bad-event-body` -
//!    every served consumer that still listens was told `unlinked`, nothing after it; with a strategy
//!    that *ignores*: the runtime does not stop (`badframe/stopped-although-ignored/..`), nobody is told
//!    `unlinked`, and the rules `events` / `synced-state` hold for the well-formed events (the bad one
//!    is not part of the lane's history); in both cases no consumer receives an event the lane did not
//!    send - neither the bad body nor a substitute (`badframe/forwarded-to-consumers/..`);
//!  * bytes that are not an envelope (undecodable frame; a prefix of a frame, then end of stream): the
//!    statement does not say what happens; whether the runtime stops is counted, and whatever it does
//!    the session grammar, the `events` rule up to that point and the `unlinked` rule (cause
//!    `bad-envelope`) hold.
//! Whatever the part: the runtime never closes the channel of a served consumer without `unlinked`
//! while it keeps running (`session-dropped-without-unlinked/..`).
//! Socket side:
//!  * per consumer the commands that arrive are an in-order subsequence of what it sent (value: at
//!    all; map: per key and relative to its clears), nothing arrives that was not sent;
//!  * value: the last command to arrive is the last command of its issuer;
//!  * map: the lane's final state restricted to a consumer's keys equals the fold of all its commands
//!    (when nobody else clears).

//!
//! C17 at the level of the runtime (conversations with a finite `empty_timeout` only), see
//! `check_inactivity`: the runtime never stops for inactivity while a served consumer listens or less
//! than one timeout after work of one of its tasks (`downlink/stopped-while-consumer-attached/..`,
//! `downlink/stopped-early/..`), and it has stopped by itself at the end of the final idle period
//! (`downlink/idle-runtime-never-stopped/..`).

use std::collections::{BTreeMap, HashMap};
use std::sync::Mutex;

use common::{json, CaseOut, Json};

use crate::peers::{show_val, BadEnv, Cmd, Ev, Key, LaneKind, Note, ReaderEnd, Req, SentKind, St};
use crate::run::{ConsObs, Obs};
use crate::script::{key_owner, Config, EndKind, Step};

const P: &str = "C07";
/// Inactivity rules at the level of the runtime (the vote coordinator itself is the `vote` engine's).
const P17: &str = "C17";

/// Where findings and coverage counters go: the case output, or a probe (oracle self-test).
pub trait Sink {
    fn violation(&mut self, property: &str, signature: String, what: String, detail: Json);
    fn count(&mut self, key: &str);
    fn add(&mut self, key: &str, n: u64);
}

impl Sink for CaseOut {
    fn violation(&mut self, property: &str, signature: String, what: String, detail: Json) {
        CaseOut::violation(self, property, signature, what, detail)
    }
    fn count(&mut self, key: &str) {
        CaseOut::count(self, key)
    }
    fn add(&mut self, key: &str, n: u64) {
        CaseOut::add(self, key, n)
    }
}

/// Collects signatures only.
#[derive(Default)]
pub struct Probe {
    pub signatures: Vec<String>,
}

impl Sink for Probe {
    fn violation(&mut self, _: &str, signature: String, _: String, _: Json) {
        self.signatures.push(signature);
    }
    fn count(&mut self, _: &str) {}
    fn add(&mut self, _: &str, _: u64) {}
}

#[derive(Default)]
pub struct Summary {
    pub frames: u64,
    pub events_delivered: u64,
    pub consumers_linked: u64,
}

fn show_ev(ev: &Ev) -> String {
    match ev {
        Ev::Set(v) => format!("set {}", show_val(*v)),
        Ev::Upd(k, v) => format!("upd {k}={}", show_val(*v)),
        Ev::Rem(k) => format!("rem {k}"),
        Ev::Clear => "clear".to_string(),
        Ev::Take(n) => format!("take {n}"),
        Ev::Drop(n) => format!("drop {n}"),
    }
}

fn show_note(n: &Note) -> String {
    match n {
        Note::Linked => "linked".to_string(),
        Note::Synced => "synced".to_string(),
        Note::Unlinked => "unlinked".to_string(),
        Note::Event(ev) => show_ev(ev),
        Note::BadEvent(s) => format!("BAD-EVENT {s}"),
    }
}

/// The whole observed conversation, in ticket order, for a violation's detail.
pub fn witness(cfg: &Config, script: &[Step], obs: &Obs) -> Json {
    let mut lines: Vec<(u64, String)> = vec![];
    for (c, co) in obs.cons.iter().enumerate() {
        if let Some(t) = co.t_att {
            let cc = &cfg.consumers[c];
            lines.push((t, format!("c{c} attaches sync={} keep_linked={}{}", cc.sync, cc.keep, if co.attach_accepted { "" } else { " (refused)" })));
        }
        for (t, n) in &co.frames {
            lines.push((*t, format!("c{c} <- {}", show_note(n))));
        }
        match &co.end {
            Some(ReaderEnd::Closed(t)) => lines.push((*t, format!("c{c} reader: closed by runtime"))),
            Some(ReaderEnd::Dropped(t)) => lines.push((*t, format!("c{c} reader: dropped by consumer"))),
            Some(ReaderEnd::DecodeError(t, e)) => lines.push((*t, format!("c{c} reader: decode error {e}"))),
            None => {}
        }
        for r in &co.cmds {
            lines.push((r.t0, format!("c{c} -> {}{}", show_ev(&r.cmd.as_ev()), if r.t1.is_some() { "" } else { " (frame never completed)" })));
        }
        if let Some((t, how)) = co.writer_end {
            lines.push((t, format!("c{c} writer: {how}")));
        }
    }
    for (t, r) in &obs.lane.reqs {
        let s = match r {
            Req::Link => "link".to_string(),
            Req::Sync => "sync".to_string(),
            Req::Unlink => "unlink".to_string(),
            Req::Cmd(c) => format!("command {}", show_ev(&c.as_ev())),
            Req::Bad(b) => format!("command BAD {b}"),
        };
        lines.push((*t, format!("lane <- {s}")));
    }
    for s in &obs.lane.sent {
        let k = match &s.kind {
            SentKind::Linked => "linked".to_string(),
            SentKind::Synced => "synced".to_string(),
            SentKind::Unlinked => "unlinked".to_string(),
            SentKind::Event(ev) => format!("event {}", show_ev(ev)),
            SentKind::BadEvent(b) => format!("EVENT WITH A BODY THAT IS NOT A {} EVENT: {b:?}", cfg.kind.name().to_uppercase()),
            SentKind::BadEnvelope(how) => format!("BYTES THAT ARE NOT AN ENVELOPE ({}{})", how.name(), if let BadEnv::Truncated(pm) = how { format!(", {pm} per mille of a frame") } else { String::new() }),
        };
        lines.push((s.t0, format!("lane -> {k}{}", if s.t1.is_some() { "" } else { " (not completely written)" })));
    }
    if let Some(t) = obs.lane.reader_dropped {
        lines.push((t, "lane: DROPS ITS READER of the runtime's output (its writer stays open)".to_string()));
    }
    if let Some(t) = obs.lane.writer_closed {
        lines.push((t, "lane: CLOSES ITS WRITER (keeps reading the runtime's output)".to_string()));
    }
    if cfg.faults {
        for (t, ms) in &obs.quiet {
            lines.push((*t, format!("-- quiet, virtual time {ms} ms --")));
        }
    }
    if let Some((te, ms)) = obs.runtime_end {
        lines.push((te, format!("**** the runtime task RETURNED by itself at virtual time {ms} ms ****")));
    }
    for (c, co) in obs.cons.iter().enumerate() {
        if cfg.faults && co.attach_accepted {
            lines.push((co.t_att.unwrap_or(0), format!("   (c{c}: attached at {} ms, reader dropped at {:?} ms, writer dropped/closed at {:?} ms)", co.att_ms, co.reader_drop_ms, co.writer_gone_ms)));
        }
    }
    if let Some(fi) = &obs.final_idle {
        lines.push((fi.t_end, format!(
            "---- end of the final idle period: nobody attached, no traffic from {} ms to {} ms; runtime {} ----",
            fi.from_ms, fi.until_ms, if fi.stopped { "terminated by itself" } else { "STILL RUNNING" }
        )));
    }
    lines.push((obs.q, format!("---- quiescent point (virtual time {} ms, runtime {}) ----", obs.ms_at_q, if obs.runtime_alive_at_q { "running" } else { "terminated" })));
    lines.sort();
    let lines: Vec<String> = lines.into_iter().take(400).map(|(_, s)| s).collect();
    json!({
        "lane": cfg.kind.name(),
        "initial_state": cfg.init.show(),
        "end": cfg.end.name(),
        "empty_timeout_ms": cfg.timeout_ms,
        "bad_frame_strategy": if cfg.kind == LaneKind::Map { cfg.strategy.name() } else { "none (value runtime)" },
        "runtime": match (cfg.kind, cfg.passthrough) {
            (LaneKind::Value, _) => "ValueDownlinkRuntime",
            (LaneKind::Map, false) => "MapDownlinkRuntime (MapInterpretation)",
            (LaneKind::Map, true) => "MapDownlinkRuntime::with_interpretation(.., NoInterpretation): bodies passed through",
        },
        "channels": {"socket_out": cfg.cap_sock_out, "socket_in": cfg.cap_sock_in,
                     "consumers": cfg.consumers.iter().map(|c| json!([c.cap_note, c.cap_cmd])).collect::<Vec<_>>()},
        "script": script.iter().map(|s| format!("{s:?}")).collect::<Vec<_>>(),
        "trace": lines,
    })
}

struct Ctx<'a> {
    cfg: &'a Config,
    script: &'a [Step],
    obs: &'a Obs,
}

/// The runner keeps the first few violations per signature only; the full trace is attached to the
/// first occurrences of each signature in this process and left out afterwards (a frequent finding
/// would otherwise spend most of the run formatting traces that are thrown away).
const FULL_WITNESSES_PER_SIGNATURE: u32 = 200;

fn wants_full_witness(sig: &str) -> bool {
    static SEEN: Mutex<Option<HashMap<String, u32>>> = Mutex::new(None);
    let mut g = SEEN.lock().unwrap_or_else(|e| e.into_inner());
    let n = g.get_or_insert_with(HashMap::new).entry(sig.to_string()).or_insert(0);
    *n += 1;
    *n <= FULL_WITNESSES_PER_SIGNATURE
}

impl<'a> Ctx<'a> {
    fn violate(&self, out: &mut dyn Sink, sig: String, what: String, extra: Json) {
        self.violate_as(P, out, sig, what, extra)
    }

    fn violate_as(&self, property: &str, out: &mut dyn Sink, sig: String, what: String, extra: Json) {
        let mut d = if wants_full_witness(&sig) { witness(self.cfg, self.script, self.obs) } else { json!({"trace": "omitted (frequent signature)"}) };
        d["finding"] = extra;
        out.violation(property, sig, what, d);
    }
}

fn is_substring_at(hay: &[&Ev], needle: &[&Ev], p: usize) -> bool {
    p + needle.len() <= hay.len() && hay[p..p + needle.len()].iter().zip(needle).all(|(a, b)| a == b)
}

fn is_subsequence(hay: &[&Ev], needle: &[&Ev]) -> bool {
    let mut i = 0;
    for h in hay {
        if i < needle.len() && *h == needle[i] {
            i += 1;
        }
    }
    i == needle.len()
}

/// The runtime's output half has *provably* failed and the write task has noticed, whatever the
/// schedule: the lane dropped its reader (every write / flush of the runtime fails from then on, none
/// can stay pending), and afterwards two complete commands were written by consumers that the
/// runtime had already served a frame (so both of its tasks know them by the next quiet point), with
/// a quiet point after each. The first command is taken by an idle write task, buffered, and its
/// flush fails; the task is allowed to look at that result only when its next input arrives, which
/// the second command is. (Without the quiet point in between, the second command can be taken
/// before the flush is started, and the failure goes unnoticed until a third.)
fn output_failure_proven(obs: &Obs) -> bool {
    let Some(td) = obs.lane.reader_dropped else { return false };
    let mut cmds: Vec<(u64, u64)> = vec![];
    for co in &obs.cons {
        if !co.attach_accepted {
            continue;
        }
        let Some(tf) = co.frames.first().map(|f| f.0) else { continue };
        for r in &co.cmds {
            if let Some(t1) = r.t1 {
                if r.t0 > td && r.t0 > tf {
                    cmds.push((r.t0, t1));
                }
            }
        }
    }
    // a quiet point after one command was completely written, and a command issued after that quiet
    // point and completely written before the quiescent point
    cmds.iter().any(|(_, x1)| {
        let Some(tq) = obs.quiet.iter().map(|x| x.0).find(|t| t > x1) else { return false };
        cmds.iter().any(|(y0, y1)| *y0 > tq && *y1 < obs.q)
    })
}

pub fn check(cfg: &Config, script: &[Step], obs: &Obs, out: &mut dyn Sink) -> Summary {
    let cx = Ctx { cfg, script, obs };
    let mut sum = Summary::default();
    let lane = cfg.kind.name();
    let kind = cfg.kind;

    let lane_evs: Vec<(&Ev, u64, Option<u64>)> = obs
        .lane
        .sent
        .iter()
        .filter_map(|s| match &s.kind {
            // (the end action `all-leave` makes the lane emit one more event after the quiescent
            // point, when nobody is attached any more)
            SentKind::Event(ev) if s.t0 < obs.q => Some((ev, s.t0, s.t1)),
            _ => None,
        })
        .collect();
    let lane_payloads: Vec<&Ev> = lane_evs.iter().map(|e| e.0).collect();
    let linked_t0 = obs.lane.sent.iter().find(|s| s.kind == SentKind::Linked).map(|s| s.t0);
    let linked_done = obs.lane.sent.iter().any(|s| s.kind == SentKind::Linked && s.t1.is_some());
    // Everything the lane was asked to do is done and delivered as far as it can be.
    let settled = obs.runtime_alive_at_q && obs.lane_idle_at_q && obs.stuck.is_empty();

    // ---- the link closes before the quiescent point (lane-side faults, inactivity) -------------------
    let t_drop = obs.lane.reader_dropped;
    let t_wclose = obs.lane.writer_closed;
    let output_failed = output_failure_proven(obs);
    // At the quiescent point every brake is released and everything is drained: an input that has
    // ended has been seen by the read task, an output failure as above by the write task.
    let proven_closed = t_wclose.is_some() || output_failed;
    // ---- frames that are not what a lane emits (`badframe-*` parts) ----------------------------------
    // (shown body, ticket before the first byte, ticket after the last)
    let bad_bodies: Vec<(&String, u64, Option<u64>)> =
        obs.lane.sent.iter().filter_map(|s| if let SentKind::BadEvent(b) = &s.kind { Some((b, s.t0, s.t1)) } else { None }).filter(|b| b.1 < obs.q).collect();
    let bad_env: Option<(BadEnv, u64, Option<u64>)> =
        obs.lane.sent.iter().find_map(|s| if let SentKind::BadEnvelope(how) = &s.kind { Some((*how, s.t0, s.t1)) } else { None }).filter(|b| b.1 < obs.q);
    let lane_mute = bad_env.is_some();
    let aborting = kind == LaneKind::Map && cfg.strategy.aborts();
    // The frame after which the link is to be closed / may be closed.
    let t_fatal_body = if aborting { bad_bodies.first().map(|b| b.1) } else { None };
    let t_fatal = match (t_fatal_body, bad_env.map(|b| b.1)) {
        (Some(a), Some(b)) => Some(a.min(b)),
        (a, b) => a.or(b),
    };
    let early_cause = if t_fatal.is_some() && t_fatal == t_fatal_body {
        "bad-event-body"
    } else if t_fatal.is_some() {
        "bad-envelope"
    } else if t_wclose.is_some() {
        "input-closed"
    } else if t_drop.is_some() {
        "output-failed"
    } else if obs.ms_at_q >= cfg.timeout_ms {
        "inactivity"
    } else {
        "unknown"
    };
    if t_drop.is_some() {
        out.count("fault/lane-dropped-its-reader");
        if output_failed {
            out.count("fault/output-failure-proven-by-two-separated-commands");
        }
        if !obs.runtime_alive_at_q && t_wclose.is_none() {
            out.count("fault/runtime-stopped-after-output-only-failure");
        }
    }
    if t_wclose.is_some() {
        out.count("fault/lane-closed-its-writer");
    }
    if !obs.runtime_alive_at_q && t_drop.is_none() && t_wclose.is_none() && obs.ms_at_q >= cfg.timeout_ms {
        out.count("inactivity/runtime-stopped-by-inactivity");
    }
    if proven_closed && obs.runtime_alive_at_q && obs.runtime_panic.is_none() {
        cx.violate(
            out,
            format!("runtime-not-stopped/{lane}/{early_cause}"),
            format!(
                "the link is closed ({early_cause}{}), every brake is released and everything is drained, but the runtime task is still running",
                if t_wclose.is_none() { ": the lane dropped its reader and two commands were written afterwards with a quiet point after each" } else { "" }
            ),
            Json::Null,
        );
    }

    if !bad_bodies.is_empty() {
        let resp = cfg.strategy.response();
        out.count(&format!("badframe/conversations-with-a-bad-event-body/{resp}"));
        out.count(&format!("badframe/strategy/{}", cfg.strategy.name()));
        out.add("badframe/bad-event-bodies-sent", bad_bodies.len() as u64);
        let written = bad_bodies[0].2.map_or(false, |t| t < obs.q);
        if aborting {
            if !obs.runtime_alive_at_q {
                out.count("badframe/abort/runtime-stopped");
            }
            if written && obs.runtime_alive_at_q && obs.runtime_panic.is_none() {
                cx.violate(
                    out,
                    format!("badframe/runtime-not-stopped/{lane}/abort"),
                    format!(
                        "the lane sent an event whose body ({:?}) is not a {lane} message, the runtime's strategy ({}) answers `abort`, every brake is released and everything is drained, but the runtime task is still running",
                        bad_bodies[0].0,
                        cfg.strategy.name()
                    ),
                    json!({"strategy": cfg.strategy.name(), "body": bad_bodies[0].0}),
                );
            }
        } else {
            if obs.runtime_alive_at_q {
                out.count("badframe/ignore/runtime-kept-running");
            }
            let other_cause = bad_env.is_some() || t_drop.is_some() || t_wclose.is_some() || obs.ms_at_q >= cfg.timeout_ms;
            if !obs.runtime_alive_at_q && !other_cause && obs.runtime_panic.is_none() {
                cx.violate(
                    out,
                    format!("badframe/stopped-although-ignored/{lane}"),
                    format!(
                        "the lane sent an event whose body ({:?}) is not a {lane} message, the runtime's strategy ({}) answers `ignore`, nothing else closed the link, and yet the runtime task has terminated",
                        bad_bodies[0].0,
                        cfg.strategy.name()
                    ),
                    json!({"strategy": cfg.strategy.name(), "body": bad_bodies[0].0}),
                );
            }
        }
    }
    if let Some((how, _, t1)) = bad_env {
        out.count(&format!("badframe/conversations-with-a-bad-envelope/{}", how.name()));
        if t1.map_or(false, |t| t < obs.q) {
            out.count(&format!("badframe/bad-envelope/runtime-{}", if obs.runtime_alive_at_q { "kept-running" } else { "stopped" }));
        }
    }

    if let Some(msg) = &obs.runtime_panic {
        cx.violate(out, format!("runtime-panic/{lane}/{}", common::sanitize_sig(msg)), format!("the downlink runtime task panicked: {msg}"), Json::Null);
    }
    for msg in &obs.harness_panics {
        cx.violate(out, format!("harness-panic/{}", common::sanitize_sig(msg)), format!("a harness task panicked: {msg}"), Json::Null);
    }

    if cfg.passthrough {
        out.count("passthrough/conversations");
    }
    sum.frames += obs.lane.reqs.len() as u64;
    out.add("lane-requests", obs.lane.reqs.len() as u64);
    out.add("lane-sync-requests", obs.lane.reqs.iter().filter(|r| r.1 == Req::Sync).count() as u64);

    for (c, co) in obs.cons.iter().enumerate() {
        let Some(t_att) = co.t_att else { continue };
        if !co.attach_accepted {
            out.count("attach-refused");
            continue;
        }
        let cc = &cfg.consumers[c];
        sum.frames += co.frames.len() as u64;
        let late = linked_t0.map_or(false, |t| t_att > t);
        let late_s = if late { "late" } else { "initial" };
        let sync_s = if cc.sync { "sync" } else { "nosync" };
        if late {
            out.count("late-joiners");
            if !cc.sync {
                out.count("late-joiners-without-sync");
            }
        }
        if obs.lane.syncs.iter().any(|(a, b)| t_att > *a && b.map_or(true, |b| t_att < b)) {
            out.count("late-joiner-during-sync");
        }

        // ---- order ------------------------------------------------------------------------------
        let mut phase = 0u8;
        let phase_name = |p: u8| ["start", "linked", "synced", "unlinked"][p as usize];
        for (_, n) in &co.frames {
            let next = match (phase, n) {
                (0, Note::Linked) => Some(1),
                // A link that closes before it was ever established: only `unlinked` can be said.
                (0, Note::Unlinked) => Some(3),
                (1, Note::Event(_) | Note::BadEvent(_)) => Some(1),
                (2, Note::Event(_) | Note::BadEvent(_)) => Some(2),
                (1, Note::Synced) => Some(2),
                (1 | 2, Note::Unlinked) => Some(3),
                _ => None,
            };
            match next {
                Some(p) => phase = p,
                None => {
                    let k = ["linked", "synced", "unlinked", "event", "event"][n.kind_id() as usize];
                    cx.violate(
                        out,
                        format!("order/{lane}/{k}-in-state-{}", phase_name(phase)),
                        format!("consumer {c} received `{k}` in session state `{}`", phase_name(phase)),
                        json!({"consumer": c}),
                    );
                    break;
                }
            }
        }
        for (_, n) in &co.frames {
            if let Note::BadEvent(b) = n {
                if bad_bodies.is_empty() {
                    cx.violate(out, format!("bad-event-body/{lane}"), format!("consumer {c} received an event whose body is not a {lane} lane event: {b}"), json!({"consumer": c}));
                } else {
                    // The lane did send an event that is not a map message. Whatever the strategy, the
                    // consumer must not receive an event the lane did not send: neither the bad body
                    // itself (it is not a map message) nor a substitute.
                    out.count("badframe/consumers-that-received-an-event-the-lane-did-not-send");
                    let class = if b == "b\"\"" { "empty-body" } else { "other-body" };
                    cx.violate(
                        out,
                        format!("badframe/forwarded-to-consumers/{lane}/{}/{class}", cfg.strategy.response()),
                        format!(
                            "the lane sent an event whose body is not a {lane} message (strategy {}); consumer {c} received an event with the body {b}, which the lane never sent and which is not a {lane} message either",
                            cfg.strategy.name()
                        ),
                        json!({"consumer": c, "strategy": cfg.strategy.name(), "received_body": b, "bad_bodies_sent": bad_bodies.iter().map(|x| x.0.clone()).collect::<Vec<_>>()}),
                    );
                }
                break;
            }
        }
        if let Some(ReaderEnd::DecodeError(_, e)) = &co.end {
            cx.violate(out, format!("notification-stream-corrupt/{lane}"), format!("consumer {c}: the notification byte stream is not a frame sequence: {e}"), json!({"consumer": c}));
        }

        let i_linked = co.frames.iter().position(|f| f.1 == Note::Linked);
        let i_synced = co.frames.iter().position(|f| f.1 == Note::Synced);
        let i_unlinked = co.frames.iter().position(|f| f.1 == Note::Unlinked);
        if i_linked.is_some() {
            sum.consumers_linked += 1;
        }
        let here_at_q = co.alive_at_q && settled;

        // ---- linked / synced iff requested ---------------------------------------------------------
        if here_at_q && linked_done && i_linked.is_none() && !lane_mute {
            cx.violate(
                out,
                format!("linked-missing/{lane}/{sync_s}"),
                format!("consumer {c} is attached, the lane answered the link request, everything is drained, but `linked` was never delivered"),
                json!({"consumer": c}),
            );
        }
        if i_synced.is_some() {
            out.count("synced-delivered");
        }
        if !cc.sync && i_synced.is_some() {
            cx.violate(
                out,
                format!("unrequested-synced/{lane}"),
                format!("consumer {c} attached without SYNC but received `synced`"),
                json!({"consumer": c, "joined": late_s}),
            );
        }
        // (a lane that dropped its reader may never have seen the sync request)
        // (nor does a lane answer that has emitted bytes that are not an envelope)
        if cc.sync && here_at_q && i_linked.is_some() && i_synced.is_none() && t_drop.is_none() && !lane_mute {
            // Two different ways to get here are told apart by what the lane saw: a sync request
            // after the attachment whose answer went out (the answer was consumed before the read
            // task registered the consumer), or no sync request at all.
            let answered = obs.lane.syncs.iter().any(|(a, b)| *a > t_att && b.is_some());
            // A third way: the request arrived at the lane after the consumer had received `linked`
            // (the read task knew the consumer before the answer existed) and was answered.
            let t_linked = i_linked.map(|i| co.frames[i].0).unwrap_or(u64::MAX);
            let answered_while_registered = obs.lane.syncs.iter().any(|(a, b)| *a > t_linked && b.is_some());
            let cause = if answered_while_registered {
                "answer-dropped-while-registered".to_string()
            } else if answered {
                "answer-consumed-before-registration".to_string()
            } else {
                format!("sync-never-requested/{}", if co.writer_end.is_some() { "writer-closed" } else { "writer-open" })
            };
            cx.violate(
                out,
                format!("synced-missing/{lane}/{cause}"),
                format!("consumer {c} attached with SYNC and is still attached with everything drained, but `synced` was never delivered"),
                json!({"consumer": c, "joined": late_s}),
            );
        }

        // ---- state at synced -----------------------------------------------------------------------
        if let (true, Some(si)) = (cc.sync, i_synced) {
            let t_s = co.frames[si].0;
            let pre: Vec<&Ev> = co.frames[..si].iter().filter_map(|f| if let Note::Event(ev) = &f.1 { Some(ev) } else { None }).collect();
            // take/drop applied to a replica that is still partial are not meaningful (that is the
            // protocol's business, not the runtime's): such a consumer is not judged here.
            if pre.iter().any(|e| matches!(e, Ev::Take(_) | Ev::Drop(_))) {
                out.count("synced-state-skipped-take-drop");
            } else {
                let folded: Option<St> = match kind {
                    LaneKind::Value => pre.last().and_then(|e| if let Ev::Set(v) = e { Some(St::V(*v)) } else { None }),
                    LaneKind::Map => {
                        let mut s = St::M(BTreeMap::new());
                        for e in &pre {
                            s.apply(e);
                        }
                        Some(s)
                    }
                };
                out.count("synced-states-checked");
                if cfg.passthrough {
                    out.count("passthrough/synced-states-checked");
                }
                let hist = &obs.lane.hist;
                let in_window = |j: usize| hist[j].0 <= t_s && (j + 1 == hist.len() || hist[j + 1].0 >= t_att);
                match folded {
                    None => cx.violate(
                        out,
                        format!("synced-state/{lane}/no-state"),
                        format!("consumer {c} received `synced` without any state before it"),
                        json!({"consumer": c}),
                    ),
                    Some(f) => {
                        if !(0..hist.len()).any(|j| in_window(j) && hist[j].1 == f) {
                            // `stale`: exactly a state the lane held, but only before the attachment;
                            // `incomplete` (map): a strict part of a state the lane held up to the
                            // receipt (entries missing); otherwise `inconsistent`.
                            // `events-withheld-after-linked` (map lanes): the replica is wrong because an
                            // event the lane sent after this consumer had received `linked` (so: after the
                            // read task knew it) never reached it, although a later one did. Both events
                            // are ones the lane sent once only, so they cannot be taken for other copies.
                            // (A consumer promoted by somebody else's `synced`, or registered while an
                            // answer was half consumed, misses events sent *before* it was told `linked`.)
                            let withheld = kind == LaneKind::Map && i_linked.map_or(false, |il| {
                                let t_l = co.frames[il].0;
                                let once = |e: &Ev| matches!(e, Ev::Upd(..)) && lane_payloads.iter().filter(|x| **x == e).count() == 1;
                                let got = |e: &Ev| co.frames.iter().any(|f| matches!(&f.1, Note::Event(x) if x == e));
                                lane_evs.iter().enumerate().any(|(a, ea)| {
                                    ea.1 > t_l && once(ea.0) && !got(ea.0) && lane_evs[a + 1..].iter().any(|eb| once(eb.0) && got(eb.0))
                                })
                            });
                            let class = if withheld {
                                "events-withheld-after-linked"
                            } else if (0..hist.len()).any(|j| hist[j].0 <= t_s && hist[j].1 == f) {
                                "stale"
                            } else if let St::M(fm) = &f {
                                let sub = (0..hist.len()).any(|j| {
                                    hist[j].0 <= t_s
                                        && match &hist[j].1 {
                                            St::M(m) => fm.len() < m.len() && fm.iter().all(|(k, v)| m.get(k) == Some(v)),
                                            _ => false,
                                        }
                                });
                                if sub {
                                    "incomplete"
                                } else {
                                    "inconsistent"
                                }
                            } else {
                                "inconsistent"
                            };
                            let window: Vec<String> = (0..hist.len()).filter(|j| in_window(*j)).map(|j| hist[j].1.show()).collect();
                            cx.violate(
                                out,
                                format!("synced-state/{lane}/{class}"),
                                format!(
                                    "consumer {c}: at `synced` the replica is {} which the lane never held between the attachment and that receipt",
                                    f.show()
                                ),
                                json!({"consumer": c, "joined": late_s, "replica_at_synced": f.show(), "lane_states_in_window": window}),
                            );
                        }
                    }
                }
            }
        }

        // ---- events: contiguous, none lost once owed --------------------------------------------
        // (where the lane itself sent a bad body, a bad event a consumer received is reported above and
        // the rule is applied to the well-formed ones: they must still be a complete, ordered run)
        let has_bad = co.frames.iter().any(|f| matches!(f.1, Note::BadEvent(_)));
        if !has_bad || !bad_bodies.is_empty() {
            let c_evs: Vec<&Ev> = co.frames.iter().filter_map(|f| if let Note::Event(ev) = &f.1 { Some(ev) } else { None }).collect();
            sum.events_delivered += c_evs.len() as u64;
            let t_owed = if cc.sync { i_synced.map(|i| co.frames[i].0) } else { i_linked.map(|i| co.frames[i].0) };
            let n = lane_payloads.len();
            let len = c_evs.len();
            let first_owed = t_owed.map(|t| lane_evs.iter().position(|e| e.1 > t).unwrap_or(n));
            // A consumer still attached at the quiescent point (and not told `unlinked` before) must
            // have everything up to the last event.
            let must_end = if here_at_q && t_owed.is_some() && i_unlinked.map_or(true, |i| i >= co.frames_at_q) { Some(n) } else { None };
            let matches: Vec<usize> = (0..=n.saturating_sub(len)).filter(|p| len <= n && is_substring_at(&lane_payloads, &c_evs, *p)).collect();
            let acceptable = |p: usize| {
                let start_ok = match first_owed {
                    Some(fo) => p <= fo || (len == 0 && must_end.is_none()),
                    None => true,
                };
                let end_ok = must_end.map_or(true, |e| p + len == e);
                start_ok && end_ok
            };
            if !matches.iter().any(|p| acceptable(*p)) {
                let class = if matches.is_empty() {
                    if c_evs.iter().any(|e| !lane_payloads.contains(e)) {
                        "foreign"
                    } else if is_subsequence(&lane_payloads, &c_evs) {
                        "gap"
                    } else {
                        "reordered-or-duplicated"
                    }
                } else {
                    "lost"
                };
                let what = match class {
                    "foreign" => "received an event the lane never sent",
                    "gap" => "events the lane sent are missing in the middle of what the consumer received",
                    "lost" => "events the lane sent after the consumer was owed them were never delivered",
                    _ => "the events received are not in the order the lane sent them (or one is duplicated)",
                };
                // (a consumer that attached after nobody had listened for longer than the runtime's
                // `empty_timeout` - only in the `faults-*` parts - gets a signature of its own)
                let after_idle = if co.idle_ms_before_attach.map_or(false, |ms| ms >= cfg.timeout_ms) { "/joined-after-idle-timeout" } else { "" };
                cx.violate(
                    out,
                    format!("events/{lane}/{class}/{sync_s}{after_idle}"),
                    format!("consumer {c}: {what}"),
                    json!({
                        "consumer": c,
                        "joined": late_s,
                        "lane_events": lane_payloads.iter().map(|e| show_ev(e)).collect::<Vec<_>>(),
                        "received": c_evs.iter().map(|e| show_ev(e)).collect::<Vec<_>>(),
                        "first_owed_index": first_owed,
                        "must_run_to_the_end": must_end.is_some(),
                    }),
                );
            } else if len > 0 {
                out.count("event-runs-checked");
                if cfg.passthrough {
                    out.count("passthrough/event-runs-checked");
                }
            }
        }

        // ---- unlinked -----------------------------------------------------------------------------
        let closing = matches!(cfg.end, EndKind::LaneUnlinked | EndKind::SocketClosed | EndKind::StopTrigger);
        // Nothing closes the link before the quiescent point (the lane does not unlink, the socket
        // stays open, the stop trigger is not fired, and the scripts are far shorter in virtual time
        // than the runtime's `empty_timeout`).
        // In the `faults-*` parts the link can close earlier: after a lane-side fault, or because the
        // runtime stopped for want of consumers once `empty_timeout` of virtual time has passed. The
        // latter can legitimately hit a consumer that arrives while the stop is under way: it is
        // served `linked` (if the link is up) and `unlinked` by the same turn of the read task. Two or
        // more frames before `unlinked` show that a later turn served the consumer: the read task
        // had it on its lists with its vote rescinded, and only this consumer going away (its reader
        // is still there: it received `unlinked`) lets the read task vote again. So does a quiet point
        // (virtual time passed: every task was idle) between the receipts of the first frame and of
        // `unlinked` by a reader that was never stalled: such a reader takes what is available before
        // it goes idle, so `unlinked` was not yet written when `linked` had been read, whereas the
        // turn that refuses a newcomer writes both without waiting for anything but the newcomer.
        if let Some(i) = i_unlinked {
            if i < co.frames_at_q {
                let t_unl = co.frames[i].0;
                let fault_before = t_drop.map_or(false, |t| t < t_unl) || t_wclose.map_or(false, |t| t < t_unl);
                let ms_unl = obs.quiet.iter().find(|x| x.0 > t_unl).map_or(obs.ms_at_q, |x| x.1);
                if t_fatal.map_or(false, |t| t < t_unl) {
                    out.count(&format!("badframe/sessions-unlinked-after-the-bad-frame/{early_cause}"));
                } else if fault_before {
                    out.count("fault/sessions-unlinked-after-a-lane-fault");
                } else if ms_unl >= cfg.timeout_ms {
                    let t_first = co.frames[0].0;
                    let idle_in_between = i >= 1 && !co.ever_stalled && obs.quiet.iter().any(|x| x.0 > t_first && x.0 < t_unl);
                    if i >= 2 || idle_in_between {
                        cx.violate(
                            out,
                            format!("stopped-while-consumer-attached/{lane}"),
                            format!("consumer {c} was attached and served ({i} frames), nothing closed the link, and yet the runtime stopped (inactivity) and told it `unlinked`"),
                            json!({"consumer": c, "frames_before_unlinked": i}),
                        );
                        // The same observation refutes C17 at the level of the runtime: the read task
                        // had this consumer on its lists (so no outstanding vote) when the stop began.
                        cx.violate_as(
                            P17,
                            out,
                            format!("downlink/stopped-while-consumer-attached/{lane}"),
                            format!("consumer {c} was attached, served ({i} frames) and listening: the read task cannot have had an outstanding vote to stop, and yet the runtime stopped for inactivity"),
                            json!({"consumer": c, "frames_before_unlinked": i}),
                        );
                    } else {
                        out.count("inactivity/unlinked-on-arrival-at-a-stopping-runtime");
                    }
                } else {
                    cx.violate(
                        out,
                        format!("unlinked-while-link-open/{lane}"),
                        format!("consumer {c} was told `unlinked` although the link was not closed"),
                        json!({"consumer": c}),
                    );
                }
            }
        }
        // The link closed before the quiescent point (the runtime task has terminated, or it provably
        // has to): a consumer the runtime had served (so: on the read task's lists) and that is still
        // listening must have been told `unlinked`, and its channel closed.
        let harness_dropped = matches!(co.end, Some(ReaderEnd::Dropped(_)) | Some(ReaderEnd::DecodeError(..)));
        if (proven_closed || !obs.runtime_alive_at_q) && obs.runtime_panic.is_none() && co.frames_at_q >= 1 && !harness_dropped {
            let closed_at_q = matches!(co.end, Some(ReaderEnd::Closed(t)) if t < obs.q);
            let last_is_unlinked = co.frames[..co.frames_at_q].last().map_or(false, |f| f.1 == Note::Unlinked);
            if !closed_at_q || !last_is_unlinked {
                let keep = if cc.keep { "keep-linked" } else { "no-keep-linked" };
                cx.violate(
                    out,
                    format!("unlinked-missing/{lane}/{early_cause}/{keep}"),
                    format!(
                        "consumer {c} was attached (and served) when the link closed ({early_cause}); everything is drained but its session did not end with `unlinked` and a closed channel"
                    ),
                    json!({"consumer": c, "last_is_unlinked": last_is_unlinked, "channel_closed": closed_at_q, "runtime_terminated": !obs.runtime_alive_at_q}),
                );
            } else {
                out.count(&format!("sessions-closed-with-unlinked-before-the-end-action/{early_cause}"));
            }
        }
        if co.idle_ms_before_attach.map_or(false, |ms| ms >= cfg.timeout_ms) {
            out.count("inactivity/attach-after-nobody-listened-for-longer-than-the-timeout");
            if i_linked.is_some() {
                // (the runtime survived the period: one of its tasks had not voted to stop)
                out.count("inactivity/late-consumer-linked-after-such-a-period");
                if co.frames.iter().any(|f| matches!(f.1, Note::Event(_))) {
                    out.count("inactivity/late-consumer-received-events-after-such-a-period");
                }
            }
        }
        // The runtime closed the consumer's channel while it kept running, and the last thing the
        // consumer was told is not `unlinked`: its session was dropped (every later event is lost).
        // (A runtime that has terminated is judged by the rule above.)
        if let Some(ReaderEnd::Closed(t)) = co.end {
            if t < obs.q && obs.runtime_alive_at_q && !co.frames.is_empty() && co.frames.last().map_or(false, |f| f.1 != Note::Unlinked) {
                cx.violate(
                    out,
                    format!("session-dropped-without-unlinked/{lane}"),
                    format!("consumer {c} was served ({} frames) and listening; the runtime closed its channel without `unlinked` and kept running", co.frames.len()),
                    json!({"consumer": c}),
                );
            }
        }
        // (a lane that has emitted bytes that are not an envelope cannot say `unlinked`)
        let closing = closing && !(lane_mute && cfg.end == EndKind::LaneUnlinked);
        if closing && co.alive_at_q && obs.runtime_alive_at_q {
            let last_is_unlinked = co.frames.last().map_or(false, |f| f.1 == Note::Unlinked);
            let closed = matches!(co.end, Some(ReaderEnd::Closed(_)));
            if !last_is_unlinked || !closed {
                let keep = if cc.keep { "keep-linked" } else { "no-keep-linked" };
                cx.violate(
                    out,
                    format!("unlinked-missing/{lane}/{}/{keep}", cfg.end.name()),
                    format!("consumer {c} was attached when the link closed ({}) but its session did not end with `unlinked` and a closed channel", cfg.end.name()),
                    json!({"consumer": c, "last_is_unlinked": last_is_unlinked, "channel_closed": closed}),
                );
            } else if cfg.end == EndKind::LaneUnlinked && cc.keep {
                out.count("unlinked-with-keep-linked-consumer");
            }
            out.count("sessions-closed-with-unlinked");
        }
        if let Some(ReaderEnd::Dropped(t)) = co.end {
            if t < obs.q && !co.frames.is_empty() {
                out.count("consumer-dropped-mid-stream");
            }
        }
        if let Some((_, "mid-frame")) = co.writer_end {
            out.count("consumer-writer-dropped-mid-frame");
        }
    }

    // ---- a consumer found dead while an event is fed (`feed-failure-*` parts) -----------------------------
    // What can be seen from outside: a served consumer dropped its reader, others kept listening, and
    // the lane then wrote more than 8 KiB of events and one more without a quiet point in between (a
    // framed writer that holds 8 KiB flushes before it takes the next frame: for the consumer that has
    // gone that fails inside `feed`, unless an earlier flush had found it out).
    if cfg.bursts {
        let mut reached = 0u64;
        for (c, co) in obs.cons.iter().enumerate() {
            let Some(ReaderEnd::Dropped(t_left)) = co.end else { continue };
            if !co.attach_accepted || co.frames.is_empty() || t_left >= obs.q {
                continue;
            }
            let others = obs.cons.iter().enumerate().any(|(d, o)| d != c && o.attach_accepted && !o.frames.is_empty() && match o.end {
                Some(ReaderEnd::Dropped(t)) | Some(ReaderEnd::Closed(t)) | Some(ReaderEnd::DecodeError(t, _)) => t > t_left,
                None => true,
            });
            if !others {
                continue;
            }
            // bytes of events between consecutive quiet points after the departure
            // (an envelope is some 30 bytes longer than the notification made of it: a margin of 256)
            let mut acc = 0usize;
            let mut hit = false;
            let mut last_quiet = obs.quiet.iter().filter(|x| x.0 <= t_left).count();
            for sent in obs.lane.sent.iter().filter(|x| x.t0 > t_left && x.t1.is_some()) {
                let qn = obs.quiet.iter().filter(|x| x.0 <= sent.t0).count();
                if qn != last_quiet {
                    last_quiet = qn;
                    acc = 0;
                }
                if let SentKind::Event(_) = sent.kind {
                    // this event is fed to a writer that already holds `acc` bytes
                    hit |= acc >= 8192 + 256;
                    acc += sent.bytes;
                }
            }
            if hit {
                reached += 1;
            }
        }
        if reached > 0 {
            out.count("feed-failure/conversations-with-a-reader-gone-before-a-burst-of-more-than-8KiB");
            out.add("feed-failure/readers-gone-before-a-burst-of-more-than-8KiB", reached);
        }
    }

    if cfg.end == EndKind::AllLeave && obs.runtime_alive_at_q && obs.runtime_finished {
        out.count("runtime-stopped-after-all-consumers-left");
    }

    check_inactivity(&cx, out);

    // (a lane that dropped its reader sees no further commands: nothing can be said about arrivals)
    check_socket(&cx, out, settled && t_drop.is_none());
    sum
}

/// C17, seen from outside the downlink runtime (finite `empty_timeout`, paused clock).
///
/// What the runtime's tasks do (runtime/swimos_runtime/src/downlink/mod.rs): the write task votes to
/// stop when it has been idle with no consumer's command stream registered for `empty_timeout`, the
/// read task when its lists of consumers have been empty for `empty_timeout`; each withdraws its vote
/// when a consumer is registered with it; the runtime stops when both votes are outstanding at once.
/// The write task learns of a departure when the command stream ends (at once when it is not parked
/// on a write), the read task only when forwarding to the consumer fails (an event is buffered, its
/// flush fails, the next input lets the task look at that result).
///
/// Rule S (safety): a stop for inactivity needs both votes, each of which needs a whole timeout
/// without a consumer, so the runtime cannot stop less than one timeout after the script attached a
/// consumer that was served, dropped the reader of one, or dropped / closed the command writer of one.
/// Instants are virtual milliseconds at script steps and in the runtime's own task; work in the very
/// instant of the stop is skipped (its order relative to the stop is not observable).
/// A stop is *the decision*: with both votes outstanding the write task is idle and flushed and the
/// read task's lists are empty, so both return in the instant of the decision.
///
/// Rule L (bounded progress): after everybody has left (both halves), the lane has sent three more
/// events with a quiet point after each, every brake is released, and nothing at all has happened for
/// five timeouts, the runtime has terminated by itself.
fn check_inactivity(cx: &Ctx<'_>, out: &mut dyn Sink) {
    let (cfg, obs) = (cx.cfg, cx.obs);
    if !cfg.faults {
        // (the other parts run with an `empty_timeout` longer than any script)
        return;
    }
    let lane = cfg.kind.name();
    let t = cfg.timeout_ms;
    // (so is a frame after which the runtime is to close the link: not a stop for inactivity)
    let fatal_frame = obs.lane.sent.iter().any(|s| match &s.kind {
        SentKind::BadEnvelope(_) => true,
        SentKind::BadEvent(_) => cfg.kind == LaneKind::Map && cfg.strategy.aborts(),
        _ => false,
    });
    let lane_fault = obs.lane.reader_dropped.is_some() || obs.lane.writer_closed.is_some() || fatal_frame;
    let closing_end = matches!(cfg.end, EndKind::LaneUnlinked | EndKind::SocketClosed | EndKind::StopTrigger);

    // ---- how consumers came and went ------------------------------------------------------------------
    let mut come_and_go = false;
    for co in &obs.cons {
        if !co.attach_accepted {
            continue;
        }
        if let Some(ms) = co.idle_ms_before_attach {
            // somebody had been there before and had left
            if obs.cons.iter().any(|o| o.attach_accepted && o.reader_drop_ms.map_or(false, |r| r <= co.att_ms) && o.t_att < co.t_att) {
                come_and_go = true;
                let class = if ms + 3 < t {
                    "well-below-the-timeout"
                } else if ms < t {
                    "just-below-the-timeout"
                } else if ms == t {
                    "at-the-timeout"
                } else if ms <= t + 3 {
                    "just-above-the-timeout"
                } else {
                    "well-above-the-timeout"
                };
                out.count(&format!("c17/arrival-after-everybody-had-left/gap-{class}"));
                if !co.frames.is_empty() {
                    out.count("c17/arrival-after-everybody-had-left/served");
                }
            }
        }
    }
    if come_and_go {
        out.count("c17/conversations-with-come-and-go");
    }

    // ---- rule S ------------------------------------------------------------------------------------
    // A stop by inactivity: the runtime returned by itself, nothing failed, nothing closed the link.
    let by_inactivity = match obs.runtime_end {
        Some((t_end, _)) => !lane_fault && obs.runtime_panic.is_none() && (t_end < obs.q || !closing_end),
        None => false,
    };
    if let (true, Some((_, ms_end))) = (by_inactivity, obs.runtime_end) {
        out.count("c17/runtimes-stopped-by-inactivity");
        if ms_end < t {
            // (both tasks start with a timer of one timeout)
            cx.violate_as(
                P17,
                out,
                format!("downlink/stopped-early/{lane}/before-the-first-timeout"),
                format!("the runtime stopped for inactivity {ms_end} ms after it was started, `empty_timeout` is {t} ms"),
                json!({"stopped_at_ms": ms_end, "timeout_ms": t}),
            );
        }
        'cons: for (c, co) in obs.cons.iter().enumerate() {
            // Only a consumer the runtime served: the attachment task has handed it to both tasks.
            if !co.attach_accepted || co.frames.is_empty() {
                continue;
            }
            for (what, at) in [("consumer-attached", Some(co.att_ms)), ("reader-left", co.reader_drop_ms), ("writer-left", co.writer_gone_ms)] {
                let Some(at) = at else { continue };
                if at >= ms_end {
                    continue;
                }
                out.count("c17/stops-checked-against-earlier-work");
                if ms_end - at < t {
                    cx.violate_as(
                        P17,
                        out,
                        format!("downlink/stopped-early/{lane}/{what}"),
                        format!(
                            "the runtime stopped for inactivity at {ms_end} ms, {} ms after the event `{what}` of consumer {c} (a consumer it had served): less than `empty_timeout` = {t} ms, so one of its tasks cannot have had an outstanding vote",
                            ms_end - at
                        ),
                        json!({"consumer": c, "work": what, "work_at_ms": at, "stopped_at_ms": ms_end, "timeout_ms": t}),
                    );
                    break 'cons;
                }
            }
        }
    }

    // ---- rule L ------------------------------------------------------------------------------------
    if let Some(fi) = &obs.final_idle {
        if !fi.runtime_alive_before {
            out.count("c17/final-idle-periods/runtime-had-stopped-before");
        } else if lane_fault || obs.runtime_panic.is_some() {
            out.count("c17/final-idle-periods/not-judged/link-failed");
        } else if !obs.stuck.is_empty() {
            out.count("c17/final-idle-periods/not-judged/something-still-busy-at-the-quiescent-point");
        } else if fi.events_after_departure < 2 {
            // (the read task may not have been told that the last consumer left)
            out.count("c17/final-idle-periods/not-judged/lane-sent-fewer-than-two-events");
        } else {
            out.count("c17/final-idle-periods/judged");
            if fi.stopped {
                out.count("c17/final-idle-periods/runtime-stopped-within");
            } else {
                // One way to get here has a signature of its own: a consumer that asked for SYNC was
                // told `linked`, never `synced` (the answer to its request was consumed before the read
                // task had registered it, C07 `synced-missing/.../answer-consumed-before-registration`),
                // and left. The read task keeps it on its list of consumers awaiting `synced`; on a value
                // lane nothing is ever written to that list before the next `synced`, and flushing an
                // empty buffer into a channel whose reader is gone succeeds, so the departure is never
                // seen, the list never empties and the read task never votes.
                // Observable part of that: the lane completely answered a sync request that arrived after
                // the consumer attached, a quiet point followed, and only then did the consumer leave,
                // having been told `linked` and nothing else since. (Value lanes only: on a map lane
                // events are forwarded to the consumers awaiting `synced`, so the departure is seen.)
                let never_synced: Vec<usize> = (0..obs.cons.len())
                    .filter(|c| {
                        let co = &obs.cons[*c];
                        let (Some(t_att), Some(ReaderEnd::Dropped(t_left))) = (co.t_att, &co.end) else { return false };
                        cfg.kind == LaneKind::Value
                            && cfg.consumers[*c].sync
                            && co.attach_accepted
                            && co.frames.iter().any(|f| f.1 == Note::Linked)
                            && !co.frames.iter().any(|f| matches!(f.1, Note::Synced | Note::Unlinked))
                            && obs.lane.syncs.iter().any(|(a, b)| *a > t_att && b.map_or(false, |b| obs.quiet.iter().any(|x| x.0 > b && x.0 < *t_left)))
                    })
                    .collect();
                let class = if never_synced.is_empty() { "" } else { "/departed-consumer-never-synced" };
                cx.violate_as(
                    P17,
                    out,
                    format!("downlink/idle-runtime-never-stopped/{lane}{class}"),
                    format!(
                        "every consumer has left (both halves), the lane sent {} more events with a quiet point after each, nothing is stalled, and nothing happened for {} ms = five times `empty_timeout` and more: the runtime task is still running",
                        fi.events_after_departure,
                        fi.until_ms - fi.from_ms
                    ),
                    json!({"idle_from_ms": fi.from_ms, "idle_until_ms": fi.until_ms, "timeout_ms": t, "consumers_linked_but_never_synced": never_synced}),
                );
            }
        }
    }
}

fn sent_of(co: &ConsObs) -> Vec<&Cmd> {
    co.cmds.iter().filter(|r| r.t1.is_some()).map(|r| &r.cmd).collect()
}

fn check_socket(cx: &Ctx<'_>, out: &mut dyn Sink, settled: bool) {
    let cfg = cx.cfg;
    let obs = cx.obs;
    let lane = cfg.kind.name();
    let n = obs.cons.len();
    let sent: Vec<Vec<&Cmd>> = obs.cons.iter().map(sent_of).collect();
    let total_sent: usize = sent.iter().map(|s| s.len()).sum();
    let arrivals: Vec<&Cmd> = obs.lane.reqs.iter().filter_map(|r| if let Req::Cmd(c) = &r.1 { Some(c) } else { None }).collect();
    out.add("commands-sent", total_sent as u64);
    out.add("commands-arrived", arrivals.len() as u64);
    for r in &obs.lane.reqs {
        if let Req::Bad(b) = &r.1 {
            cx.violate(out, format!("socket/{lane}/bad-command-body"), format!("a command arrived whose body is not a {lane} lane command: {b}"), Json::Null);
            return;
        }
    }
    if let Some((_, e)) = &obs.lane.reader_end {
        // A runtime that terminates before the quiescent point (the link closed early, `faults-*`
        // parts) may do so with a request half-written into a socket the lane was not reading: the
        // stream then ends inside its last frame, which is not a corruption.
        let truncated_at_stop = !obs.runtime_alive_at_q && e.contains("bytes remaining on stream");
        if truncated_at_stop {
            out.count("socket/truncated-last-request-at-runtime-stop");
        } else if e != "closed" {
            cx.violate(out, format!("socket/{lane}/request-stream-corrupt"), format!("the request byte stream is not a frame sequence: {e}"), Json::Null);
            return;
        }
    }
    let mut sound = true;
    match cfg.kind {
        LaneKind::Value => {
            let mut last: Vec<Option<usize>> = vec![None; n];
            for a in &arrivals {
                let Cmd::Set(v) = a else { continue };
                let src = (*v >> 32) as usize;
                let pos = if src >= 1 && src <= n { sent[src - 1].iter().position(|c| *c == *a) } else { None };
                let Some(pos) = pos else {
                    cx.violate(out, format!("socket/{lane}/never-sent"), format!("command {} arrived but no consumer sent it", show_val(*v)), Json::Null);
                    sound = false;
                    break;
                };
                let c = src - 1;
                if let Some(l) = last[c] {
                    if pos <= l {
                        let class = if pos == l { "duplicated" } else { "reordered" };
                        cx.violate(
                            out,
                            format!("socket/{lane}/{class}"),
                            format!("commands of consumer {c} arrived {class}: {} after {}", show_val(*v), show_ev(&sent[c][l].as_ev())),
                            json!({"consumer": c}),
                        );
                        sound = false;
                        break;
                    }
                }
                last[c] = Some(pos);
            }
            if sound && settled && total_sent > 0 {
                match arrivals.last() {
                    None => cx.violate(out, format!("socket/{lane}/all-commands-lost"), "commands were sent, everything is drained, none arrived".to_string(), Json::Null),
                    Some(Cmd::Set(v)) => {
                        let c = (*v >> 32) as usize - 1;
                        if sent[c].last() != arrivals.last() {
                            cx.violate(
                                out,
                                format!("socket/{lane}/last-arrival-not-issuers-last"),
                                format!(
                                    "the last command to arrive is {} but consumer {c} later sent {}: a command that nothing superseded was dropped",
                                    show_val(*v),
                                    sent[c].last().map(|x| show_ev(&x.as_ev())).unwrap_or_default()
                                ),
                                json!({"consumer": c}),
                            );
                        } else {
                            out.count("final-value-checked");
                        }
                    }
                    _ => {}
                }
            }
        }
        LaneKind::Map => {
            // Greedy earliest matching is exact here: updates are unique, and for removes / clears
            // the earliest admissible sent position leaves the most room for what follows.
            struct M {
                last_k: HashMap<Key, usize>,
                clear_pos: Option<usize>,
                max_pos: Option<usize>,
            }
            let mut ms: Vec<M> = (0..n).map(|_| M { last_k: HashMap::new(), clear_pos: None, max_pos: None }).collect();
            let after = |a: Option<usize>, b: Option<usize>| -> usize {
                // first admissible index: strictly after both bounds
                a.map_or(0, |x| x + 1).max(b.map_or(0, |x| x + 1))
            };
            for a in &arrivals {
                let owner = match a {
                    Cmd::Upd(k, _) | Cmd::Rem(k) => key_owner(*k).filter(|c| *c < n),
                    Cmd::Clear => cfg.clearer,
                    Cmd::Set(_) => None,
                };
                let Some(c) = owner else {
                    cx.violate(out, format!("socket/{lane}/never-sent"), format!("command `{}` arrived but no consumer sends such a command", show_ev(&a.as_ev())), Json::Null);
                    sound = false;
                    break;
                };
                let m = &mut ms[c];
                let pos = match a {
                    Cmd::Upd(k, _) => match sent[c].iter().position(|s| *s == *a) {
                        None => Err("never-sent"),
                        Some(p) => {
                            if m.clear_pos.map_or(false, |cp| p < cp) {
                                Err("crossed-clear")
                            } else if m.last_k.get(k).map_or(false, |l| p == *l) {
                                Err("duplicated")
                            } else if m.last_k.get(k).map_or(false, |l| p < *l) {
                                Err("reordered-on-key")
                            } else {
                                Ok(p)
                            }
                        }
                    },
                    Cmd::Rem(k) => {
                        let from = after(m.last_k.get(k).copied(), m.clear_pos);
                        (from..sent[c].len()).find(|p| sent[c][*p] == *a).ok_or("remove-unmatched")
                    }
                    _ => {
                        let from = after(m.max_pos, None);
                        (from..sent[c].len()).find(|p| *sent[c][*p] == Cmd::Clear).ok_or("clear-unmatched")
                    }
                };
                match pos {
                    Ok(p) => {
                        if let Some(k) = a.key() {
                            m.last_k.insert(k, p);
                        } else {
                            m.clear_pos = Some(p);
                        }
                        m.max_pos = Some(m.max_pos.map_or(p, |x| x.max(p)));
                    }
                    Err(class) => {
                        cx.violate(
                            out,
                            format!("socket/{lane}/{class}"),
                            format!(
                                "commands of consumer {c}: `{}` arrived where no order-preserving match with what the consumer sent exists ({class})",
                                show_ev(&a.as_ev())
                            ),
                            json!({"consumer": c, "sent": sent[c].iter().map(|x| show_ev(&x.as_ev())).collect::<Vec<_>>(),
                                   "arrived": arrivals.iter().map(|x| show_ev(&x.as_ev())).collect::<Vec<_>>()}),
                        );
                        sound = false;
                        break;
                    }
                }
            }
            // Final state, per consumer, on its own keys.
            if sound && settled && !cfg.lane_bulk {
                let St::M(fin) = &obs.lane.hist.last().expect("initial state").1 else { return };
                let St::M(init) = &cfg.init else { return };
                let clears_by: Vec<usize> = (0..n).filter(|c| obs.cons[*c].cmds.iter().any(|r| r.cmd == Cmd::Clear)).collect();
                for c in 0..n {
                    if sent[c].is_empty() || clears_by.iter().any(|d| *d != c) {
                        continue;
                    }
                    // commands whose frame never completed cannot be judged either way
                    if obs.cons[c].cmds.iter().any(|r| r.t1.is_none()) {
                        continue;
                    }
                    let mine = |k: &Key| key_owner(*k) == Some(c);
                    let mut exp: BTreeMap<Key, u64> = init.iter().filter(|(k, _)| mine(k)).map(|(k, v)| (*k, *v)).collect();
                    for s in &sent[c] {
                        match s {
                            Cmd::Upd(k, v) => {
                                exp.insert(*k, *v);
                            }
                            Cmd::Rem(k) => {
                                exp.remove(k);
                            }
                            Cmd::Clear => exp.clear(),
                            Cmd::Set(_) => {}
                        }
                    }
                    let got: BTreeMap<Key, u64> = fin.iter().filter(|(k, _)| mine(k)).map(|(k, v)| (*k, *v)).collect();
                    out.count("final-map-states-checked");
                    if exp != got {
                        let keys: Vec<Key> = exp.keys().chain(got.keys()).copied().collect();
                        let k = keys.into_iter().find(|k| exp.get(k) != got.get(k)).unwrap_or(0);
                        let class = match (exp.get(&k), got.get(&k)) {
                            (Some(_), None) => "key-missing",
                            (None, Some(_)) => "key-not-removed",
                            _ => "stale-value",
                        };
                        cx.violate(
                            out,
                            format!("socket/{lane}/final-state/{class}"),
                            format!("the lane's final state on the keys of consumer {c} differs from the state obtained from all its commands (key {k})"),
                            json!({"consumer": c,
                                   "expected": St::M(exp).show(), "lane": St::M(got).show(),
                                   "sent": sent[c].iter().map(|x| show_ev(&x.as_ev())).collect::<Vec<_>>()}),
                        );
                    }
                }
            }
        }
    }
    if sound && settled && total_sent > arrivals.len() {
        out.add("commands-superseded", (total_sent - arrivals.len()) as u64);
        out.count("cases-with-superseded-commands");
    }
}
