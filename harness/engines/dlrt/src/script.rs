//! Case configuration and scripts: random conversations and the systematic join-phase grid.

use std::collections::BTreeMap;

use common::Rng;

use crate::peers::{BadEnv, Cmd, Ev, Key, LaneKind, Pace, St, FAST};

/// What the map runtime is told to do with an event whose body is not a map message
/// (`swimos_runtime::downlink::failure`). The value runtime has no such choice.
#[derive(Clone, Copy, Debug, PartialEq, Eq, Hash)]
pub enum Strategy {
    /// `AlwaysAbortStrategy` (what every part other than `badframe-*` runs with).
    Abort,
    /// `ReportStrategy::new(AlwaysAbortStrategy)`.
    ReportAbort,
    /// `ReportStrategy::new(AlwaysAbortStrategy).boxed()` (what the server and the client build when
    /// `abort_on_bad_frames` is set).
    BoxedReportAbort,
    /// `AlwaysIgnoreStrategy`.
    Ignore,
    /// `ReportStrategy::new(AlwaysIgnoreStrategy).boxed()` (what they build when it is not set).
    BoxedReportIgnore,
}

pub const STRATEGIES: [Strategy; 5] = [Strategy::Abort, Strategy::ReportAbort, Strategy::BoxedReportAbort, Strategy::Ignore, Strategy::BoxedReportIgnore];

impl Strategy {
    pub fn name(self) -> &'static str {
        match self {
            Strategy::Abort => "always-abort",
            Strategy::ReportAbort => "report(always-abort)",
            Strategy::BoxedReportAbort => "boxed-report(always-abort)",
            Strategy::Ignore => "always-ignore",
            Strategy::BoxedReportIgnore => "boxed-report(always-ignore)",
        }
    }

    /// The response the strategy gives to every bad frame.
    pub fn aborts(self) -> bool {
        matches!(self, Strategy::Abort | Strategy::ReportAbort | Strategy::BoxedReportAbort)
    }

    pub fn response(self) -> &'static str {
        if self.aborts() {
            "abort"
        } else {
            "ignore"
        }
    }
}

/// Event bodies that are not map messages (`@update(key:K) V`, `@remove(key:K)`, `@clear`, `@take(n)`,
/// `@drop(n)`), whatever one thinks of optional white space.
pub const BAD_MAP_BODIES: [&[u8]; 12] = [
    b"",
    b"42",
    b"@nonsense",
    b"@update",
    b"@remove",
    b"@take",
    b"@update(key:",
    b"@update(wrong:1) 5",
    b"@update(key:1,key:2) 3",
    b"@drop(many)",
    b"{",
    b"@update(key:\xff\xfe) 1",
];

#[derive(Clone, Debug)]
pub struct ConsCfg {
    pub sync: bool,
    pub keep: bool,
    /// Capacity of the channel runtime -> consumer (notifications).
    pub cap_note: usize,
    /// Capacity of the channel consumer -> runtime (commands).
    pub cap_cmd: usize,
    pub pace: Pace,
}

#[derive(Clone, Copy, Debug, PartialEq, Eq)]
pub enum EndKind {
    /// The lane sends `unlinked`.
    LaneUnlinked,
    /// The lane drops the socket.
    SocketClosed,
    /// The runtime's stop trigger is fired.
    StopTrigger,
    /// Every consumer leaves; the runtime is given its `empty_timeout`.
    AllLeave,
    /// C17: every consumer leaves (both halves), the lane sends three more events with a quiet point
    /// after each (the read task only learns that a consumer has gone when forwarding fails), then
    /// nothing at all happens for five timeouts of virtual time. Nothing closes the link.
    FinalIdle,
    /// Nothing: the case ends at the quiescent point.
    Nothing,
}

impl EndKind {
    pub fn name(self) -> &'static str {
        match self {
            EndKind::LaneUnlinked => "lane-unlinked",
            EndKind::SocketClosed => "socket-closed",
            EndKind::StopTrigger => "stop-trigger",
            EndKind::AllLeave => "all-leave",
            EndKind::FinalIdle => "final-idle",
            EndKind::Nothing => "none",
        }
    }
}

#[derive(Clone, Debug)]
pub struct Config {
    pub kind: LaneKind,
    pub consumers: Vec<ConsCfg>,
    /// Capacity of the channel runtime -> lane (requests).
    pub cap_sock_out: usize,
    /// Capacity of the channel lane -> runtime (responses).
    pub cap_sock_in: usize,
    pub lane_pace: Pace,
    pub att_queue: usize,
    pub jitter: u64,
    pub init: St,
    pub end: EndKind,
    /// Map lanes: the only consumer that issues `clear`.
    pub clearer: Option<usize>,
    /// Map lanes: the lane makes spontaneous clear / take / drop changes (they hit every key, so the
    /// final-state oracle of the socket side is not applicable to such a case).
    pub lane_bulk: bool,
    /// The runtime's `empty_timeout` in (virtual) milliseconds. `LONG_TIMEOUT_MS` in the parts whose
    /// scripts never let that much virtual time pass.
    pub timeout_ms: u64,
    /// The script may contain lane-side faults and virtual-time steps (parts `faults-*`).
    pub faults: bool,
    /// Parts `inactivity-*` (C17): consumers come and go around the `empty_timeout`, no lane-side
    /// faults, the conversation ends with `EndKind::FinalIdle`.
    pub inactivity: bool,
    /// Map lanes: the runtime's `BadFrameStrategy`.
    pub strategy: Strategy,
    /// The script may make the lane emit frames that are not what a lane emits (`badframe-*` parts and
    /// the C17 part `inactivity-extras`): the oracles then expect what is said in `oracle.rs`.
    pub badframes: bool,
    /// Random conversations: bursts of padded events with nothing in between (`feed-failure-*` parts).
    pub bursts: bool,
    /// Map lanes: the runtime is built with `MapDownlinkRuntime::with_interpretation(.., NoInterpretation)`
    /// (what the server builds for map-event downlinks and the client with `interpret_frame_data = false`):
    /// event bodies are passed to the consumers as the lane sent them, and the consumers read them as such.
    pub passthrough: bool,
}

pub const LONG_TIMEOUT_MS: u64 = 5000;

#[derive(Clone, Debug)]
pub enum Step {
    Attach(usize),
    Cmd(usize, Cmd),
    LaneApply(Ev),
    /// The same with that many bytes of trailing white space in the event's body.
    LaneApplyPadded(Ev, usize),
    /// The lane emits an `event` envelope with this body (not an event of its kind).
    LaneBadEvent(Vec<u8>),
    /// The lane emits bytes that are not an envelope (and nothing afterwards).
    LaneBadEnvelope(BadEnv),
    Stall(usize),
    Unstall(usize),
    SetPace(usize, Pace),
    /// The consumer stops listening (drops the notification reader).
    DropReader(usize),
    /// The consumer's command writer is dropped abruptly (possibly in the middle of a frame).
    DropWriter(usize),
    /// The consumer's command writer is dropped after everything queued was written.
    CloseWriter(usize),
    /// The consumer goes away (both halves dropped).
    DropBoth(usize),
    /// The consumer writes a strict prefix of a command frame, then its writer is dropped.
    DropMidFrame(usize, Cmd, u64),
    LaneStallRead,
    LaneUnstallRead,
    /// Number of frames the lane may still emit (`None` = unlimited).
    LaneBudget(Option<u32>),
    /// Fault: the lane drops its reader of the runtime's output and keeps its writer open (the
    /// runtime's write half fails from now on, its read half stays healthy).
    LaneDropReader,
    /// Fault: the lane closes its writer and keeps reading the runtime's output.
    LaneCloseWriter,
    /// Let that many milliseconds of virtual time pass (paused clock: every timer of the runtime that
    /// falls due fires, in order, with the runtime running to idleness in between).
    Advance(u64),
    Yield(u32),
    Settle,
}

/// Keys: consumer `c` owns `c * 10 + j`; the lane's own changes use `900 + j`.
pub fn consumer_key(c: usize, j: u64) -> Key {
    (c as i32) * 10 + j as i32
}

pub fn key_owner(k: Key) -> Option<usize> {
    if (0..900).contains(&k) {
        Some((k / 10) as usize)
    } else {
        None
    }
}

pub fn lane_key(j: u64) -> Key {
    900 + j as i32
}

pub const KEYS_PER_CONSUMER: u64 = 4;
pub const LANE_KEYS: u64 = 5;

const CAPS: [usize; 7] = [4, 8, 16, 32, 64, 256, 4096];

fn pace(rng: &mut Rng) -> Pace {
    if rng.chance(1, 3) {
        FAST
    } else {
        Pace { chunk: *rng.pick(&[1, 2, 3, 8, 24, 64, 4096]), yields: *rng.pick(&[0, 0, 1, 3, 8]) }
    }
}

pub struct Gen<'a> {
    pub rng: &'a mut Rng,
    next_cmd: Vec<u64>,
    next_lane: u64,
}

impl<'a> Gen<'a> {
    pub fn new(rng: &'a mut Rng) -> Self {
        Gen { rng, next_cmd: vec![0; 8], next_lane: 1 }
    }

    fn lane_val(&mut self) -> u64 {
        let n = self.next_lane;
        self.next_lane += 1;
        n
    }

    fn cons_val(&mut self, c: usize) -> u64 {
        let n = self.next_cmd[c];
        self.next_cmd[c] += 1;
        ((c as u64 + 1) << 32) | n
    }

    pub fn config(&mut self, kind: LaneKind) -> Config {
        let rng = &mut *self.rng;
        let n = match rng.below(10) {
            0 => 1,
            1..=4 => 2,
            5..=7 => 3,
            _ => 4,
        };
        let tiny = rng.chance(1, 3);
        let consumers: Vec<ConsCfg> = (0..n)
            .map(|_| ConsCfg {
                sync: rng.bool(),
                keep: rng.bool(),
                cap_note: if tiny { *rng.pick(&CAPS[..4]) } else { *rng.pick(&CAPS) },
                cap_cmd: *rng.pick(&CAPS),
                pace: pace(rng),
            })
            .collect();
        let init = match kind {
            LaneKind::Value => St::V(0),
            LaneKind::Map => {
                let mut m = BTreeMap::new();
                for j in 0..LANE_KEYS {
                    if rng.chance(3, 5) {
                        m.insert(lane_key(j), 1000 + j);
                    }
                }
                for c in 0..n {
                    if rng.chance(1, 4) {
                        m.insert(consumer_key(c, 0), 2000 + c as u64);
                    }
                }
                St::M(m)
            }
        };
        let end = match rng.below(100) {
            0..=34 => EndKind::LaneUnlinked,
            35..=49 => EndKind::SocketClosed,
            50..=69 => EndKind::StopTrigger,
            70..=84 => EndKind::AllLeave,
            _ => EndKind::Nothing,
        };
        Config {
            kind,
            cap_sock_out: *rng.pick(&CAPS),
            cap_sock_in: *rng.pick(&CAPS),
            lane_pace: pace(rng),
            att_queue: *rng.pick(&[1, 2, 8]),
            jitter: *rng.pick(&[0, 0, 100, 300]),
            init,
            end,
            clearer: if kind == LaneKind::Map && rng.bool() { Some(rng.usize_below(n)) } else { None },
            lane_bulk: kind == LaneKind::Map && rng.chance(1, 4),
            consumers,
            timeout_ms: LONG_TIMEOUT_MS,
            faults: false,
            inactivity: false,
            strategy: Strategy::Abort,
            badframes: false,
            bursts: false,
            passthrough: false,
        }
    }

    /// Configuration of the `faults-*` parts: a finite `empty_timeout`, at least two consumers most of
    /// the time, and more often than not a socket too small for one request frame (so that a write to
    /// a lane that is not reading stays pending).
    pub fn fault_config(&mut self, kind: LaneKind) -> Config {
        let mut cfg = self.config(kind);
        let rng = &mut *self.rng;
        cfg.faults = true;
        cfg.timeout_ms = *rng.pick(&[20, 60, 300]);
        if rng.chance(1, 2) {
            cfg.cap_sock_out = *rng.pick(&CAPS[..4]);
        }
        if cfg.consumers.len() == 1 {
            let again = cfg.consumers[0].clone();
            cfg.consumers.push(ConsCfg { sync: rng.bool(), keep: rng.bool(), ..again });
        }
        cfg
    }

    /// Configuration of the `badframe-*` parts: as `config`, with one of the five strategies (map) and
    /// a script that makes the lane emit one frame that is not what a lane emits (two or three event
    /// bodies when the strategy ignores them).
    pub fn badframe_config(&mut self, kind: LaneKind) -> Config {
        let mut cfg = self.config(kind);
        cfg.badframes = true;
        cfg.strategy = *self.rng.pick(&STRATEGIES);
        cfg
    }

    /// Configuration of the `feed-failure-*` parts: three or four consumers, a socket that holds a
    /// whole burst, bursts of padded events in the script.
    pub fn burst_config(&mut self, kind: LaneKind) -> Config {
        let mut cfg = self.config(kind);
        let rng = &mut *self.rng;
        cfg.bursts = true;
        cfg.cap_sock_in = 1 << 16;
        let n = rng.range(3, 5) as usize;
        while cfg.consumers.len() < n {
            let again = cfg.consumers[rng.usize_below(cfg.consumers.len())].clone();
            cfg.consumers.push(ConsCfg { sync: rng.bool(), keep: rng.bool(), ..again });
        }
        // (a consumer that takes a byte at a time makes a burst of 15 KiB very long)
        for c in cfg.consumers.iter_mut() {
            c.cap_note = c.cap_note.max(64);
            c.pace.chunk = c.pace.chunk.max(1024);
            c.pace.yields = c.pace.yields.min(1);
        }
        cfg.lane_pace.chunk = cfg.lane_pace.chunk.max(64);
        cfg
    }

    fn bad_frame_step(&mut self, cfg: &Config, envelope_allowed: bool) -> Step {
        let envelope = cfg.kind == LaneKind::Value || (envelope_allowed && self.rng.chance(1, 4));
        if envelope {
            Step::LaneBadEnvelope(match self.rng.below(5) {
                0 => BadEnv::RequestTag,
                1 => BadEnv::LinkedWithBody,
                2 => BadEnv::NonUtf8Node,
                _ => BadEnv::Truncated(self.rng.range(1, 999)),
            })
        } else {
            Step::LaneBadEvent(self.rng.pick(&BAD_MAP_BODIES).to_vec())
        }
    }

    fn advance(&mut self, cfg: &Config) -> Step {
        let t = cfg.timeout_ms;
        Step::Advance(*self.rng.pick(&[t / 3, t - 1, t + 1, t + 1, 2 * t + 1, 3 * t + 5]))
    }

    fn settle_or_yield(&mut self) -> Step {
        if self.rng.chance(3, 4) {
            Step::Settle
        } else {
            Step::Yield(self.rng.range(1, 6) as u32)
        }
    }

    /// The output half of the link fails alone: the lane drops its reader, then consumers write
    /// commands with quiet points in between (the write task only notices a failed flush when the
    /// next operation arrives).
    fn output_failure_pattern(&mut self, cfg: &Config, attached: &[usize], steps: &mut Vec<Step>) {
        steps.push(Step::LaneDropReader);
        steps.push(self.settle_or_yield());
        for _ in 0..self.rng.range(0, 3) {
            let c = *self.rng.pick(attached);
            let cmd = self.cmd(cfg, c);
            steps.push(Step::Cmd(c, cmd));
            steps.push(self.settle_or_yield());
        }
    }

    /// Everybody leaves (while, most of the time, a write to a lane that is not reading is pending,
    /// so that the write task cannot time out), the lane keeps talking, virtual time passes, a new
    /// consumer attaches and the lane sends events spaced out by less than the timeout.
    fn idle_period_pattern(&mut self, cfg: &Config, attached: &[usize], y: usize, steps: &mut Vec<Step>) {
        let t = cfg.timeout_ms;
        let x = *self.rng.pick(attached);
        let stall = self.rng.chance(3, 4);
        if stall {
            steps.push(Step::LaneStallRead);
        }
        for _ in 0..self.rng.range(1, 3) {
            let cmd = self.cmd(cfg, x);
            steps.push(Step::Cmd(x, cmd));
        }
        steps.push(self.settle_or_yield());
        let all = self.rng.chance(5, 6);
        for c in attached {
            if all || *c != x {
                steps.push(Step::DropBoth(*c));
            }
        }
        steps.push(Step::Settle);
        // (two events are needed for the read task to notice that a consumer has gone)
        for _ in 0..self.rng.range(0, 3) {
            let ev = self.lane_change(cfg);
            steps.push(Step::LaneApply(ev));
            steps.push(Step::Settle);
        }
        steps.push(Step::Advance(*self.rng.pick(&[t / 2, t + 1, t + 1, 2 * t + 3])));
        for _ in 0..self.rng.range(0, 2) {
            let ev = self.lane_change(cfg);
            steps.push(Step::LaneApply(ev));
            steps.push(Step::Settle);
        }
        steps.push(Step::Attach(y));
        steps.push(self.settle_or_yield());
        for _ in 0..self.rng.range(1, 4) {
            let ev = self.lane_change(cfg);
            steps.push(Step::LaneApply(ev));
            steps.push(match self.rng.below(3) {
                0 => Step::Settle,
                1 => Step::Advance(t / 4 + 1),
                _ => Step::Advance(t / 2 + 1),
            });
        }
        if self.rng.chance(1, 3) {
            steps.push(Step::CloseWriter(y));
        }
        if stall && self.rng.bool() {
            steps.push(Step::LaneUnstallRead);
        }
        if self.rng.bool() {
            steps.push(Step::Advance(2 * t + 3));
        }
        let ev = self.lane_change(cfg);
        steps.push(Step::LaneApply(ev));
        steps.push(Step::Settle);
    }

    /// Configuration of the `inactivity-*` parts (C17): `empty_timeout` of 20 / 60 ms of virtual time,
    /// three to six consumers that attach one after the other (each once), no lane-side faults, and the
    /// conversation ends with the final idle period.
    pub fn inactivity_config(&mut self, kind: LaneKind) -> Config {
        let mut cfg = self.config(kind);
        let rng = &mut *self.rng;
        cfg.faults = true;
        cfg.inactivity = true;
        cfg.timeout_ms = *rng.pick(&[20, 60]);
        cfg.end = EndKind::FinalIdle;
        let n = rng.range(3, 7) as usize;
        while cfg.consumers.len() < n {
            let again = cfg.consumers[rng.usize_below(cfg.consumers.len())].clone();
            cfg.consumers.push(ConsCfg { sync: rng.bool(), keep: rng.bool(), ..again });
        }
        cfg.consumers.truncate(n);
        if cfg.clearer.map_or(false, |c| c >= n) {
            cfg.clearer = None;
        }
        // (half of the conversations have no paced / tiny channels at all: the instants at which the
        // tasks of the runtime learn of a departure are then exactly those of the script)
        if rng.bool() {
            cfg.jitter = 0;
            cfg.lane_pace = FAST;
            for c in cfg.consumers.iter_mut() {
                c.pace = FAST;
            }
        }
        cfg
    }

    /// A gap around the timeout: well below, just below, at, just above, well above.
    fn gap(&mut self, t: u64) -> u64 {
        *self.rng.pick(&[t / 3, t / 2, t - 3, t - 2, t - 1, t, t + 1, t + 1, t + 2, t + 3, t + 5, 2 * t + 1, 3 * t + 5])
    }

    /// One consumer goes away: both halves at once, or one half first and the other a little (or a
    /// whole timeout) later.
    fn leave(&mut self, t: u64, c: usize, steps: &mut Vec<Step>) {
        let between = |g: &mut Self, steps: &mut Vec<Step>| match g.rng.below(4) {
            0 => {}
            1 => steps.push(Step::Settle),
            2 => steps.push(Step::Advance(t / 3)),
            _ => steps.push(Step::Advance(t + 1)),
        };
        match self.rng.below(10) {
            0..=5 => steps.push(Step::DropBoth(c)),
            6 | 7 => {
                steps.push(Step::DropReader(c));
                between(self, steps);
                steps.push(if self.rng.bool() { Step::DropWriter(c) } else { Step::CloseWriter(c) });
            }
            _ => {
                steps.push(if self.rng.bool() { Step::DropWriter(c) } else { Step::CloseWriter(c) });
                between(self, steps);
                steps.push(Step::DropReader(c));
            }
        }
    }

    /// Something happens in a session: a command, a lane event, a little virtual time.
    fn session_activity(&mut self, cfg: &Config, attached: &[usize], steps: &mut Vec<Step>) {
        let t = cfg.timeout_ms;
        for _ in 0..self.rng.range(0, 5) {
            match self.rng.below(8) {
                0 | 1 if !attached.is_empty() => {
                    let c = *self.rng.pick(attached);
                    let cmd = self.cmd(cfg, c);
                    steps.push(Step::Cmd(c, cmd));
                }
                2 | 3 | 4 => {
                    let ev = self.lane_change(cfg);
                    steps.push(Step::LaneApply(ev));
                }
                5 => steps.push(Step::Advance(*self.rng.pick(&[1, t / 4, t / 2, t - 1]))),
                6 => steps.push(Step::Yield(self.rng.range(1, 6) as u32)),
                _ => steps.push(Step::Settle),
            }
        }
        steps.push(self.settle_or_yield());
    }

    /// A conversation of the `inactivity-*` parts: consumers come and go. Between the departure of
    /// one and the arrival of the next the lane sends zero to three events (two, each followed by a
    /// quiet point, make the read task see that the consumer has gone; the write task sees the end
    /// of its command stream at once) and a gap of virtual time passes that is just below, at or
    /// just above the timeout (or far from it). Now and then a second consumer is there at the same
    /// time, a consumer leaves half by half, or the write task is parked on a write to a lane that is
    /// not reading when the consumer leaves (it cannot time out then).
    pub fn inactivity_script(&mut self, cfg: &Config, max_ops: usize) -> Vec<Step> {
        let t = cfg.timeout_ms;
        let n = cfg.consumers.len();
        let mut steps: Vec<Step> = vec![];
        let mut next = 0usize;
        if self.rng.chance(1, 5) {
            // nobody attaches for a while after the start (both tasks start with their timers running:
            // a whole timeout ends the conversation there and then)
            let g = *self.rng.pick(&[t / 3, t / 2, t - 2, t - 1, t - 1, t, t + 1]);
            steps.push(Step::Advance(g));
        }
        while next < n && steps.len() + 12 < max_ops {
            let mut attached = vec![next];
            steps.push(Step::Attach(next));
            next += 1;
            steps.push(self.settle_or_yield());
            self.session_activity(cfg, &attached, &mut steps);
            if next < n && self.rng.chance(1, 4) {
                // a second consumer joins while the first is there
                attached.push(next);
                steps.push(Step::Attach(next));
                next += 1;
                self.session_activity(cfg, &attached, &mut steps);
            }
            let parked = self.rng.chance(1, 8);
            if parked {
                // the write task is parked on a write to a lane that is not reading
                let x = *self.rng.pick(&attached);
                steps.push(Step::LaneStallRead);
                for _ in 0..self.rng.range(1, 3) {
                    let cmd = self.cmd(cfg, x);
                    steps.push(Step::Cmd(x, cmd));
                }
                steps.push(self.settle_or_yield());
            }
            // everybody leaves
            self.rng.shuffle(&mut attached);
            for (i, c) in attached.iter().enumerate() {
                if i > 0 && self.rng.bool() {
                    steps.push(Step::Advance(*self.rng.pick(&[1, t / 3, t - 1, t + 1])));
                }
                self.leave(t, *c, &mut steps);
            }
            if self.rng.chance(3, 4) {
                steps.push(Step::Settle);
            }
            // lane traffic after the departure, and the gap. (Two events and a gap of the timeout or more let both tasks vote: the runtime stops and the rest of the
            // conversation talks to nobody. Most conversations should get to their final idle period
            // with the runtime running, so that combination is made rare.)
            let mut evs = *self.rng.pick(&[0, 0, 1, 2, 2, 2, 3]);
            let g = self.gap(t);
            // (the read task's timer starts with the second event, one quiet point after the first)
            if evs >= 2 && g + evs > t + 1 && !parked && self.rng.chance(7, 8) {
                evs = self.rng.below(2);
            }
            for _ in 0..evs {
                let ev = self.lane_change(cfg);
                steps.push(Step::LaneApply(ev));
                steps.push(Step::Settle);
            }
            steps.push(Step::Advance(g));
            if parked && self.rng.chance(2, 3) {
                steps.push(Step::LaneUnstallRead);
                if self.rng.bool() {
                    let g = self.gap(t);
                    steps.push(Step::Advance(g));
                }
            }
            if self.rng.chance(1, 4) {
                // traffic while (perhaps) one of the votes is outstanding, and a second short gap
                let ev = self.lane_change(cfg);
                steps.push(Step::LaneApply(ev));
                steps.push(Step::Settle);
                if self.rng.bool() {
                    steps.push(Step::Advance(*self.rng.pick(&[1, 2, 3, t / 3])));
                }
            }
        }
        steps.truncate(max_ops);
        steps
    }

    fn cmd(&mut self, cfg: &Config, c: usize) -> Cmd {
        match cfg.kind {
            LaneKind::Value => Cmd::Set(self.cons_val(c)),
            LaneKind::Map => {
                let j = self.rng.below(KEYS_PER_CONSUMER);
                let r = self.rng.below(100);
                if cfg.clearer == Some(c) && r < 8 {
                    Cmd::Clear
                } else if r < 30 {
                    Cmd::Rem(consumer_key(c, j))
                } else {
                    Cmd::Upd(consumer_key(c, j), self.cons_val(c))
                }
            }
        }
    }

    fn lane_change(&mut self, cfg: &Config) -> Ev {
        match cfg.kind {
            LaneKind::Value => Ev::Set(self.lane_val()),
            LaneKind::Map => {
                let j = self.rng.below(LANE_KEYS);
                let r = self.rng.below(100);
                if cfg.lane_bulk && r < 6 {
                    Ev::Clear
                } else if cfg.lane_bulk && r < 12 {
                    Ev::Take(self.rng.below(4))
                } else if cfg.lane_bulk && r < 18 {
                    Ev::Drop(self.rng.below(3))
                } else if r < 40 {
                    Ev::Rem(lane_key(j))
                } else {
                    Ev::Upd(lane_key(j), self.lane_val())
                }
            }
        }
    }

    /// A random conversation of at most `max_ops` steps.
    pub fn script(&mut self, cfg: &Config, max_ops: usize) -> Vec<Step> {
        let n = cfg.consumers.len();
        let len = self.rng.range(8, max_ops.max(9) as u64) as usize;
        let mut steps: Vec<Step> = vec![];
        // Attach points: consumer 0 mostly first, the others anywhere; sometimes two consumers are
        // paired around a lane frame budget so that the second joins while the first one's link /
        // sync response is part-way through.
        let mut attach_at: Vec<(usize, usize)> = (0..n)
            .map(|c| {
                let at = if c == 0 && self.rng.chance(4, 5) { 0 } else { self.rng.usize_below(len * 3 / 4 + 1) };
                (at, c)
            })
            .collect();
        attach_at.sort();
        let mut pair = if n >= 2 && self.rng.chance(1, 2) { Some(self.rng.usize_below(n - 1)) } else { None };
        let mut attached: Vec<usize> = vec![];
        let mut ai = 0;
        let mut i = 0;
        // `faults-*` parts: at most one lane-side fault per conversation (it ends the link), in about
        // three conversations of eight, not before the first third.
        let mut lane_fault: Option<(usize, u64)> =
            if cfg.faults && self.rng.chance(3, 8) { Some((self.rng.range(len as u64 / 3, len as u64) as usize, self.rng.below(8))) } else { None };
        // `badframe-*` parts: where the lane emits its bad frames (one; up to three event bodies when
        // the strategy ignores them - the first may then not be an envelope fault, which ends the link).
        let mut bad_at: Vec<usize> = vec![];
        if cfg.badframes {
            let k = if cfg.kind == LaneKind::Map && !cfg.strategy.aborts() { self.rng.range(1, 4) } else { 1 };
            for _ in 0..k {
                bad_at.push(self.rng.range(len as u64 / 5, len as u64) as usize);
            }
            bad_at.sort();
            bad_at.reverse();
        }
        while i < len {
            while ai < attach_at.len() && attach_at[ai].0 <= i {
                let c = attach_at[ai].1;
                if pair == Some(ai) {
                    let d = attach_at[ai + 1].1;
                    let snapshot = cfg.init.snapshot().len() as u64;
                    steps.push(Step::LaneBudget(Some(self.rng.below(snapshot + 4) as u32)));
                    steps.push(Step::Attach(c));
                    steps.push(if self.rng.chance(3, 4) { Step::Settle } else { Step::Yield(self.rng.range(1, 6) as u32) });
                    steps.push(Step::Attach(d));
                    steps.push(if self.rng.chance(3, 4) { Step::Settle } else { Step::Yield(self.rng.range(1, 6) as u32) });
                    steps.push(Step::LaneBudget(None));
                    attached.push(c);
                    attached.push(d);
                    ai += 2;
                    i += 6;
                } else {
                    steps.push(Step::Attach(c));
                    attached.push(c);
                    ai += 1;
                    i += 1;
                }
            }
            // Directed patterns for hand-overs that random interleavings rarely produce.
            if ai < attach_at.len() && !attached.is_empty() && pair != Some(ai) && self.rng.chance(1, 12) {
                let x = *self.rng.pick(&attached);
                let y = attach_at[ai].1;
                if pair == Some(ai.wrapping_sub(1)) {
                    pair = None;
                }
                if self.rng.chance(2, 3) {
                    // The read task lags behind a stalled consumer while another one joins: its
                    // registration and the lane's answers pile up and are taken in either order.
                    steps.push(Step::Stall(x));
                    for _ in 0..self.rng.range(2, 5) {
                        let ev = self.lane_change(cfg);
                        steps.push(Step::LaneApply(ev));
                    }
                    steps.push(if self.rng.bool() { Step::Settle } else { Step::Yield(self.rng.range(1, 6) as u32) });
                    steps.push(Step::Attach(y));
                    steps.push(if self.rng.chance(3, 4) { Step::Settle } else { Step::Yield(self.rng.range(1, 6) as u32) });
                    if self.rng.bool() {
                        let ev = self.lane_change(cfg);
                        steps.push(Step::LaneApply(ev));
                        steps.push(Step::Settle);
                    }
                    steps.push(Step::Unstall(x));
                    i += 8;
                } else {
                    // A consumer joins while a write to a lane that is not reading is pending, then
                    // the command channels close.
                    steps.push(Step::LaneStallRead);
                    for _ in 0..self.rng.range(1, 3) {
                        let cmd = self.cmd(cfg, x);
                        steps.push(Step::Cmd(x, cmd));
                    }
                    steps.push(Step::Yield(self.rng.range(1, 6) as u32));
                    steps.push(Step::Attach(y));
                    steps.push(Step::Yield(self.rng.range(1, 4) as u32));
                    if self.rng.chance(2, 3) {
                        steps.push(if self.rng.bool() { Step::CloseWriter(x) } else { Step::DropWriter(x) });
                        if self.rng.bool() {
                            steps.push(Step::CloseWriter(y));
                        }
                    }
                    steps.push(Step::Settle);
                    steps.push(Step::LaneUnstallRead);
                    i += 9;
                }
                attached.push(y);
                ai += 1;
                continue;
            }
            if bad_at.last().map_or(false, |at| i >= *at) && !attached.is_empty() {
                bad_at.pop();
                // (an envelope fault ends everything: only as the last one)
                let step = self.bad_frame_step(cfg, bad_at.is_empty());
                steps.push(step);
                if self.rng.bool() {
                    steps.push(self.settle_or_yield());
                }
                i += 1;
                continue;
            }
            if cfg.bursts && attached.len() >= 2 && self.rng.chance(1, 14) {
                // a consumer stops listening (now and then), then a burst of padded events with
                // nothing in between: the read task finds them back to back and flushes nobody
                if self.rng.chance(2, 3) {
                    let x = *self.rng.pick(&attached);
                    steps.push(if self.rng.chance(2, 3) { Step::DropReader(x) } else { Step::DropBoth(x) });
                    if self.rng.chance(1, 4) {
                        steps.push(Step::Yield(self.rng.range(1, 4) as u32));
                    }
                }
                let pad = *self.rng.pick(&[1500usize, 2800, 3000, 3000, 4200, 4200, 9000]);
                for _ in 0..self.rng.range(2, 7) {
                    let ev = self.lane_change(cfg);
                    steps.push(Step::LaneApplyPadded(ev, pad));
                }
                steps.push(self.settle_or_yield());
                i += 6;
                continue;
            }
            if cfg.faults {
                if ai < attach_at.len() && !attached.is_empty() && pair != Some(ai) && self.rng.chance(1, 8) {
                    let y = attach_at[ai].1;
                    if pair == Some(ai.wrapping_sub(1)) {
                        pair = None;
                    }
                    let before = steps.len();
                    self.idle_period_pattern(cfg, &attached, y, &mut steps);
                    i += steps.len() - before;
                    attached.push(y);
                    ai += 1;
                    continue;
                }
                if let Some((at, what)) = lane_fault {
                    if i >= at && !attached.is_empty() {
                        lane_fault = None;
                        let before = steps.len();
                        match what {
                            0..=4 => self.output_failure_pattern(cfg, &attached, &mut steps),
                            5 => steps.push(Step::LaneDropReader),
                            _ => steps.push(Step::LaneCloseWriter),
                        }
                        i += steps.len() - before;
                        continue;
                    }
                }
                if self.rng.chance(1, 12) {
                    let adv = self.advance(cfg);
                    steps.push(adv);
                    i += 1;
                    continue;
                }
            }
            let c = self.rng.usize_below(n);
            let r = self.rng.below(100);
            match r {
                0..=29 => {
                    let burst = if self.rng.chance(1, 3) { self.rng.range(2, 6) } else { 1 };
                    for _ in 0..burst {
                        let cmd = self.cmd(cfg, c);
                        steps.push(Step::Cmd(c, cmd));
                        i += 1;
                    }
                    continue;
                }
                30..=44 => {
                    let burst = if self.rng.chance(1, 3) { self.rng.range(2, 4) } else { 1 };
                    for _ in 0..burst {
                        let ev = self.lane_change(cfg);
                        steps.push(Step::LaneApply(ev));
                        i += 1;
                    }
                    continue;
                }
                45..=50 => steps.push(Step::Stall(c)),
                51..=57 => steps.push(Step::Unstall(c)),
                58..=60 => steps.push(Step::SetPace(c, pace(self.rng))),
                61..=65 => steps.push(Step::LaneStallRead),
                66..=71 => steps.push(Step::LaneUnstallRead),
                72..=75 => steps.push(Step::LaneBudget(Some(self.rng.below(4) as u32))),
                76..=80 => steps.push(Step::LaneBudget(None)),
                81..=86 => steps.push(Step::Yield(self.rng.range(1, 8) as u32)),
                87..=94 => steps.push(Step::Settle),
                95 => steps.push(Step::DropReader(c)),
                96 => steps.push(if self.rng.bool() { Step::DropWriter(c) } else { Step::CloseWriter(c) }),
                97..=98 => steps.push(Step::DropBoth(c)),
                _ => {
                    let cmd = self.cmd(cfg, c);
                    steps.push(Step::DropMidFrame(c, cmd, self.rng.range(1, 999)));
                }
            }
            i += 1;
        }
        steps.truncate(max_ops);
        steps
    }
}

// ------------------------------------------------------------------------------------------------
// The join-phase grid: two consumers, every combination of their options, the second one attaching
// at each phase of the first one's session, on both lane kinds, with roomy or tiny channels, with or
// without lane events in between.

/// When the second consumer attaches, relative to what the lane has answered to the first.
#[derive(Clone, Copy, Debug, PartialEq, Eq)]
pub enum JoinPhase {
    /// Both attach before the lane answered the link request.
    BeforeLinked,
    /// `linked` went out; nothing of a sync response yet.
    AfterLinked,
    /// `linked` and the first frame of the (first) sync response went out, `synced` did not.
    MidSync,
    /// The first consumer's session is established and quiet.
    Established,
    /// As `Established`, after further lane events.
    AfterEvents,
}

pub const PHASES: [JoinPhase; 5] =
    [JoinPhase::BeforeLinked, JoinPhase::AfterLinked, JoinPhase::MidSync, JoinPhase::Established, JoinPhase::AfterEvents];

pub const GRID_CASES: u64 = 2 * 4 * 4 * 5 * 2 * 2;

pub fn grid_case(idx: u64) -> (Config, Vec<Step>, JoinPhase) {
    let mut i = idx;
    let mut take = |n: u64| {
        let r = i % n;
        i /= n;
        r
    };
    let kind = if take(2) == 0 { LaneKind::Value } else { LaneKind::Map };
    let oa = take(4);
    let ob = take(4);
    let phase = PHASES[take(5) as usize];
    let tiny = take(2) == 1;
    let events_between = take(2) == 1;
    let cap = if tiny { 8 } else { 4096 };
    let cons = |o: u64| ConsCfg { sync: o & 1 == 1, keep: o & 2 == 2, cap_note: cap, cap_cmd: cap, pace: FAST };
    let init = match kind {
        LaneKind::Value => St::V(0),
        LaneKind::Map => St::M((0..3).map(|j| (lane_key(j), 1000 + j)).collect()),
    };
    let cfg = Config {
        kind,
        consumers: vec![cons(oa), cons(ob)],
        cap_sock_out: cap,
        cap_sock_in: cap,
        lane_pace: FAST,
        att_queue: 8,
        jitter: 0,
        init,
        end: EndKind::LaneUnlinked,
        clearer: None,
        lane_bulk: false,
        timeout_ms: LONG_TIMEOUT_MS,
        faults: false,
        inactivity: false,
        strategy: Strategy::Abort,
        badframes: false,
        bursts: false,
        passthrough: false,
    };
    let mut lane_n = 1u64;
    let mut change = |steps: &mut Vec<Step>| {
        let ev = match kind {
            LaneKind::Value => Ev::Set(lane_n),
            LaneKind::Map => Ev::Upd(lane_key(3 + lane_n % 2), lane_n),
        };
        lane_n += 1;
        steps.push(Step::LaneApply(ev));
    };
    let mut s = vec![];
    match phase {
        JoinPhase::BeforeLinked => {
            s.push(Step::LaneBudget(Some(0)));
            s.push(Step::Attach(0));
            s.push(Step::Settle);
            s.push(Step::Attach(1));
            s.push(Step::Settle);
        }
        JoinPhase::AfterLinked => {
            s.push(Step::LaneBudget(Some(1)));
            s.push(Step::Attach(0));
            s.push(Step::Settle);
            s.push(Step::Attach(1));
            s.push(Step::Settle);
        }
        JoinPhase::MidSync => {
            s.push(Step::LaneBudget(Some(2)));
            s.push(Step::Attach(0));
            s.push(Step::Settle);
            s.push(Step::Attach(1));
            s.push(Step::Settle);
        }
        JoinPhase::Established | JoinPhase::AfterEvents => {
            s.push(Step::Attach(0));
            s.push(Step::Settle);
            if phase == JoinPhase::AfterEvents {
                change(&mut s);
                change(&mut s);
                s.push(Step::Settle);
            }
            s.push(Step::Attach(1));
            s.push(Step::Settle);
        }
    }
    if events_between {
        // lane changes while the second consumer's session is being established
        s.push(Step::LaneBudget(None));
        change(&mut s);
        s.push(Step::Settle);
    }
    s.push(Step::LaneBudget(None));
    s.push(Step::Settle);
    change(&mut s);
    change(&mut s);
    s.push(Step::Settle);
    (cfg, s, phase)
}

// ------------------------------------------------------------------------------------------------
// Directed scenarios: short scripts for two hand-overs between the runtime's tasks that random
// conversations reach only now and then. Each is run on both lane kinds, many times (the outcome of
// the first depends on the unbiased choice the read task makes between its two inputs).

pub const DIRECTED_SCENARIOS: [&str; 2] = ["join-while-reader-lags", "join-while-writing-then-writers-close"];
pub const DIRECTED_REPEATS: u64 = 48;
pub const DIRECTED_CASES: u64 = 2 * 2 * DIRECTED_REPEATS;

pub fn directed_case(idx: u64) -> (Config, Vec<Step>, &'static str) {
    let kind = if idx % 2 == 0 { LaneKind::Value } else { LaneKind::Map };
    let scenario = ((idx / 2) % 2) as usize;
    let init = match kind {
        LaneKind::Value => St::V(0),
        LaneKind::Map => St::M((0..2).map(|j| (lane_key(j), 1000 + j)).collect()),
    };
    let mut lane_n = 1u64;
    let mut change = |steps: &mut Vec<Step>| {
        let ev = match kind {
            LaneKind::Value => Ev::Set(lane_n),
            LaneKind::Map => Ev::Upd(lane_key(3), lane_n),
        };
        lane_n += 1;
        steps.push(Step::LaneApply(ev));
    };
    let cmd = |c: usize, n: u64| {
        let v = ((c as u64 + 1) << 32) | n;
        match kind {
            LaneKind::Value => Cmd::Set(v),
            LaneKind::Map => Cmd::Upd(consumer_key(c, n % 2), v),
        }
    };
    let cons = |sync: bool, cap_note: usize| ConsCfg { sync, keep: true, cap_note, cap_cmd: 4096, pace: FAST };
    let mut s = vec![];
    let (consumers, cap_sock_out) = match scenario {
        0 => {
            // A is synced, then stops reading (4-byte channel): the read task blocks flushing to A
            // with one further envelope already taken. B attaches with SYNC; its registration and
            // the lane's answer to its sync request both wait for the read task. A resumes.
            s.push(Step::Attach(0));
            s.push(Step::Settle);
            s.push(Step::Stall(0));
            change(&mut s);
            s.push(Step::Settle);
            change(&mut s);
            s.push(Step::Settle);
            s.push(Step::Attach(1));
            s.push(Step::Settle);
            s.push(Step::Unstall(0));
            s.push(Step::Settle);
            change(&mut s);
            s.push(Step::Settle);
            (vec![cons(true, 4), cons(true, 4096)], 4096)
        }
        _ => {
            // A's commands are stuck in a socket the lane does not read (4-byte channel); B attaches
            // with SYNC while that write is pending; then both command channels close (the
            // consumers keep listening). The lane resumes.
            s.push(Step::Attach(0));
            s.push(Step::Settle);
            s.push(Step::LaneStallRead);
            s.push(Step::Cmd(0, cmd(0, 0)));
            s.push(Step::Cmd(0, cmd(0, 1)));
            s.push(Step::Settle);
            s.push(Step::Attach(1));
            s.push(Step::Settle);
            s.push(Step::CloseWriter(0));
            s.push(Step::CloseWriter(1));
            s.push(Step::Settle);
            s.push(Step::LaneUnstallRead);
            s.push(Step::Settle);
            change(&mut s);
            s.push(Step::Settle);
            (vec![cons(false, 4096), cons(true, 4096)], 4)
        }
    };
    let cfg = Config {
        kind,
        consumers,
        cap_sock_out,
        cap_sock_in: 4096,
        lane_pace: FAST,
        att_queue: 8,
        jitter: 0,
        init,
        end: EndKind::LaneUnlinked,
        clearer: None,
        lane_bulk: false,
        timeout_ms: LONG_TIMEOUT_MS,
        faults: false,
        inactivity: false,
        strategy: Strategy::Abort,
        badframes: false,
        bursts: false,
        passthrough: false,
    };
    (cfg, s, DIRECTED_SCENARIOS[scenario])
}

// ------------------------------------------------------------------------------------------------
// Directed fault scenarios: one half of the link fails alone, and inactivity periods longer than the
// runtime's `empty_timeout` while its write task is parked on a pending write.

pub const FAULT_SCENARIOS: [&str; 6] = [
    "output-fails-then-commands",
    "input-closes-output-open",
    "late-consumer-after-idle-period-write-pending",
    "late-consumer-after-idle-period-sync-answered-at-once",
    "late-consumer-after-idle-period-then-its-writer-closes",
    "everybody-leaves-runtime-times-out",
];
pub const FAULT_REPEATS: u64 = 3;
pub const FAULT_CASES: u64 = 2 * 6 * 4 * 4 * FAULT_REPEATS;

pub fn fault_case(idx: u64) -> (Config, Vec<Step>, &'static str) {
    let mut i = idx;
    let mut take = |n: u64| {
        let r = i % n;
        i /= n;
        r
    };
    let kind = if take(2) == 0 { LaneKind::Value } else { LaneKind::Map };
    let scenario = take(6) as usize;
    let oa = take(4);
    let ob = take(4);
    let rep = take(FAULT_REPEATS);
    let t: u64 = 100;
    let init = match kind {
        LaneKind::Value => St::V(0),
        LaneKind::Map => St::M((0..2).map(|j| (lane_key(j), 1000 + j)).collect()),
    };
    let mut lane_n = 1u64;
    let mut change = |steps: &mut Vec<Step>| {
        let ev = match kind {
            LaneKind::Value => Ev::Set(lane_n),
            LaneKind::Map => Ev::Upd(lane_key(3 + lane_n % 2), lane_n),
        };
        lane_n += 1;
        steps.push(Step::LaneApply(ev));
    };
    let mut cmd_n = [0u64; 2];
    let mut cmd = |c: usize| {
        let n = cmd_n[c];
        cmd_n[c] += 1;
        let v = ((c as u64 + 1) << 32) | n;
        match kind {
            LaneKind::Value => Cmd::Set(v),
            LaneKind::Map => Cmd::Upd(consumer_key(c, n % 2), v),
        }
    };
    let cons = |o: u64| ConsCfg { sync: o & 1 == 1, keep: o & 2 == 2, cap_note: 4096, cap_cmd: 4096, pace: FAST };
    let mut s = vec![];
    // (a socket of 4 bytes: a single request frame does not fit, a write to a lane that is not reading
    // stays pending)
    let mut cap_sock_out = 4;
    match scenario {
        0 => {
            cap_sock_out = 4096;
            s.push(Step::Attach(0));
            s.push(Step::Attach(1));
            s.push(Step::Settle);
            if rep >= 1 {
                change(&mut s);
                s.push(Step::Settle);
            }
            s.push(Step::LaneDropReader);
            s.push(Step::Settle);
            // the input half stays healthy: events keep flowing
            change(&mut s);
            s.push(Step::Settle);
            s.push(Step::Cmd(0, cmd(0)));
            s.push(Step::Settle);
            s.push(Step::Cmd(if rep == 2 { 1 } else { 0 }, cmd(if rep == 2 { 1 } else { 0 })));
            s.push(Step::Settle);
            change(&mut s);
            s.push(Step::Settle);
        }
        1 => {
            cap_sock_out = 4096;
            s.push(Step::Attach(0));
            s.push(Step::Attach(1));
            s.push(Step::Settle);
            change(&mut s);
            s.push(Step::Settle);
            if rep == 1 {
                s.push(Step::LaneStallRead);
            }
            s.push(Step::Cmd(0, cmd(0)));
            s.push(Step::LaneCloseWriter);
            s.push(Step::Settle);
            if rep == 2 {
                s.push(Step::Cmd(1, cmd(1)));
                s.push(Step::Settle);
            }
        }
        2 | 3 | 4 => {
            s.push(Step::Attach(0));
            s.push(Step::Settle);
            s.push(Step::LaneStallRead);
            s.push(Step::Cmd(0, cmd(0)));
            if rep >= 1 {
                s.push(Step::Cmd(0, cmd(0)));
            }
            s.push(Step::Settle);
            s.push(Step::DropBoth(0));
            s.push(Step::Settle);
            // the first event makes the read task notice that the consumer has gone, the second
            // completes its flush-with-next-event wait: the empty timeout starts
            change(&mut s);
            s.push(Step::Settle);
            change(&mut s);
            s.push(Step::Settle);
            // the read task votes to stop; the write task is parked on its pending write
            s.push(Step::Advance(t + 10));
            // a notification while the vote is cast
            change(&mut s);
            s.push(Step::Settle);
            s.push(Step::Attach(1));
            s.push(Step::Settle);
            if scenario == 3 {
                // the lane reads again: the new consumer's sync request is answered at once
                s.push(Step::LaneUnstallRead);
                s.push(Step::Settle);
            }
            for _ in 0..3 {
                change(&mut s);
                s.push(Step::Advance(t / 4));
            }
            if scenario == 4 {
                // the new consumer only listens from now on; the lane reads again: the write task
                // completes its write and finds nobody writing
                s.push(Step::CloseWriter(1));
                s.push(Step::LaneUnstallRead);
                s.push(Step::Settle);
            }
            s.push(Step::Advance(2 * t));
            change(&mut s);
            s.push(Step::Settle);
            if rep == 2 {
                s.push(Step::Advance(2 * t));
                change(&mut s);
                s.push(Step::Settle);
            }
        }
        _ => {
            cap_sock_out = 4096;
            s.push(Step::Attach(0));
            s.push(Step::Settle);
            change(&mut s);
            s.push(Step::Settle);
            s.push(Step::DropBoth(0));
            s.push(Step::Settle);
            change(&mut s);
            s.push(Step::Settle);
            change(&mut s);
            s.push(Step::Settle);
            s.push(Step::Advance(if rep == 0 { t / 2 } else { 3 * t }));
            s.push(Step::Attach(1));
            s.push(Step::Settle);
            change(&mut s);
            s.push(Step::Settle);
        }
    }
    let cfg = Config {
        kind,
        consumers: vec![cons(oa), cons(ob)],
        cap_sock_out,
        cap_sock_in: 4096,
        lane_pace: FAST,
        att_queue: 8,
        jitter: 0,
        init,
        end: if rep == 1 { EndKind::LaneUnlinked } else { EndKind::Nothing },
        clearer: None,
        lane_bulk: false,
        timeout_ms: t,
        faults: true,
        inactivity: false,
        strategy: Strategy::Abort,
        badframes: false,
        bursts: false,
        passthrough: false,
    };
    (cfg, s, FAULT_SCENARIOS[scenario])
}

// ------------------------------------------------------------------------------------------------
// Directed inactivity scenarios (C17): consumers come and go around the `empty_timeout`; every
// conversation ends with the final idle period. Instants in the comments: A leaves at T0, every
// `Settle` is 1 ms of virtual time, t is the timeout.

pub const INACTIVITY_SCENARIOS: [&str; 7] = [
    "come-and-go-silent-lane",
    "come-and-go-between-the-two-votes",
    "come-and-go-gap-below-the-timeout",
    "reader-leaves-first-writer-later",
    "writer-closes-reader-keeps-listening",
    "nobody-ever-attaches",
    "come-and-go-twice",
];
pub const INACTIVITY_VARIANTS: u64 = 5;
pub const INACTIVITY_CASES: u64 = 2 * 7 * 4 * 4 * 2 * INACTIVITY_VARIANTS;

pub fn inactivity_case(idx: u64) -> (Config, Vec<Step>, &'static str) {
    let mut i = idx;
    let mut take = |n: u64| {
        let r = i % n;
        i /= n;
        r
    };
    let kind = if take(2) == 0 { LaneKind::Value } else { LaneKind::Map };
    let scenario = take(7) as usize;
    let oa = take(4);
    let ob = take(4);
    let t: u64 = if take(2) == 0 { 20 } else { 60 };
    let var = take(INACTIVITY_VARIANTS);
    let init = match kind {
        LaneKind::Value => St::V(0),
        LaneKind::Map => St::M((0..2).map(|j| (lane_key(j), 1000 + j)).collect()),
    };
    let mut lane_n = 1u64;
    let mut change = |steps: &mut Vec<Step>| {
        let ev = match kind {
            LaneKind::Value => Ev::Set(lane_n),
            LaneKind::Map => Ev::Upd(lane_key(3 + lane_n % 2), lane_n),
        };
        lane_n += 1;
        steps.push(Step::LaneApply(ev));
        steps.push(Step::Settle);
    };
    let cmd = |c: usize, n: u64| {
        let v = ((c as u64 + 1) << 32) | n;
        match kind {
            LaneKind::Value => Cmd::Set(v),
            LaneKind::Map => Cmd::Upd(consumer_key(c, n % 2), v),
        }
    };
    let cons = |o: u64| ConsCfg { sync: o & 1 == 1, keep: o & 2 == 2, cap_note: 4096, cap_cmd: 4096, pace: FAST };
    let mut s = vec![];
    // A's session
    let session = |s: &mut Vec<Step>, c: usize, change: &mut dyn FnMut(&mut Vec<Step>)| {
        s.push(Step::Attach(c));
        s.push(Step::Settle);
        s.push(Step::Cmd(c, cmd(c, 0)));
        s.push(Step::Settle);
        change(s);
    };
    match scenario {
        0 => {
            // The lane is silent after A left: the read task does not know, only the write task votes
            // (at T0 + t). B's arrival makes it withdraw a vote that is outstanding alone.
            session(&mut s, 0, &mut change);
            s.push(Step::DropBoth(0));
            s.push(Step::Advance([t + 1, t + 2, t + 5, 2 * t + 1, 3 * t][var as usize]));
            s.push(Step::Attach(1));
            s.push(Step::Settle);
            change(&mut s);
            s.push(Step::DropBoth(1));
            s.push(Step::Settle);
        }
        1 => {
            // Two events tell the read task: its timer starts at T0 + 2, the write task's at T0. B
            // arrives at T0 + t + var - 1: before both votes / at the write task's vote / between the
            // two / at the read task's vote / after the stop.
            session(&mut s, 0, &mut change);
            s.push(Step::DropBoth(0));
            s.push(Step::Settle);
            change(&mut s);
            change(&mut s);
            s.push(Step::Advance(t - 4 + var));
            s.push(Step::Attach(1));
            s.push(Step::Settle);
            change(&mut s);
            s.push(Step::DropBoth(1));
            s.push(Step::Settle);
        }
        2 => {
            session(&mut s, 0, &mut change);
            s.push(Step::DropBoth(0));
            if var >= 3 {
                s.push(Step::Settle);
                change(&mut s);
                change(&mut s);
            }
            s.push(Step::Advance([t / 3, t - 2, t - 1, t / 2, t - 5][var as usize]));
            s.push(Step::Attach(1));
            s.push(Step::Settle);
            change(&mut s);
            s.push(Step::DropBoth(1));
            s.push(Step::Settle);
        }
        3 => {
            session(&mut s, 0, &mut change);
            s.push(Step::DropReader(0));
            s.push(Step::Settle);
            change(&mut s);
            change(&mut s);
            // the read task votes alone, A's command channel is still open
            s.push(Step::Advance(t + 1 + var));
            s.push(if var % 2 == 0 { Step::DropWriter(0) } else { Step::CloseWriter(0) });
            s.push(Step::Advance(t - 1));
            s.push(Step::Attach(1));
            s.push(Step::Settle);
            change(&mut s);
            s.push(Step::DropBoth(1));
            s.push(Step::Settle);
        }
        4 => {
            session(&mut s, 0, &mut change);
            s.push(Step::CloseWriter(0));
            // the write task votes alone, A keeps listening
            s.push(Step::Advance(t + 1 + var));
            change(&mut s);
            s.push(Step::Advance(t + 1));
            change(&mut s);
            if var >= 2 {
                s.push(Step::Attach(1));
                s.push(Step::Settle);
                change(&mut s);
                s.push(Step::DropBoth(1));
                s.push(Step::Settle);
            }
            s.push(Step::DropReader(0));
            s.push(Step::Settle);
        }
        5 => {
            if var >= 1 {
                s.push(Step::Advance([0, t / 2, t - 1, t, t + 1][var as usize]));
            }
            if var == 2 {
                s.push(Step::Attach(0));
                s.push(Step::Settle);
                s.push(Step::DropBoth(0));
                s.push(Step::Settle);
            }
        }
        _ => {
            // A leaves, B arrives while only the write task's vote is outstanding, B leaves, C arrives
            // likewise, C leaves.
            session(&mut s, 0, &mut change);
            s.push(Step::DropBoth(0));
            s.push(Step::Advance(t + 1 + var));
            session(&mut s, 1, &mut change);
            s.push(Step::DropBoth(1));
            if var >= 3 {
                s.push(Step::Settle);
                change(&mut s);
            }
            s.push(Step::Advance(t + 1));
            session(&mut s, 2, &mut change);
            s.push(Step::DropBoth(2));
            s.push(Step::Settle);
        }
    }
    let cfg = Config {
        kind,
        consumers: vec![cons(oa), cons(ob), cons(oa ^ 1)],
        cap_sock_out: 4096,
        cap_sock_in: 4096,
        lane_pace: FAST,
        att_queue: 8,
        jitter: 0,
        init,
        end: EndKind::FinalIdle,
        clearer: None,
        lane_bulk: false,
        timeout_ms: t,
        faults: true,
        inactivity: true,
        strategy: Strategy::Abort,
        badframes: false,
        bursts: false,
        passthrough: false,
    };
    (cfg, s, INACTIVITY_SCENARIOS[scenario])
}

// ------------------------------------------------------------------------------------------------
// Minimal witness (run with `--witness 1` only) of the C17 finding
// `downlink/idle-runtime-never-stopped/value/departed-consumer-never-synced`: A is synced and stops
// reading (4-byte channel), two lane events block the read task on A; B attaches with SYNC: its
// registration and the lane's answer to its sync request both wait for the read task, which takes
// them in either order when A resumes (unbiased select). When the answer goes first B is told
// `linked` and never `synced` (known C07 finding). B leaves, A leaves, the lane keeps sending events,
// nothing else happens: on a value lane the read task never notices that B has gone and never votes.

pub const WITNESS_REPEATS: u64 = 64;
pub const WITNESS_CASES: u64 = 2 * WITNESS_REPEATS;

pub fn inactivity_witness_case(idx: u64) -> (Config, Vec<Step>) {
    let kind = if idx % 2 == 0 { LaneKind::Value } else { LaneKind::Map };
    let (mut cfg, mut s, _) = directed_case(idx % 2);
    debug_assert!(cfg.kind == kind);
    s.push(Step::DropBoth(1));
    s.push(Step::Settle);
    s.push(Step::DropBoth(0));
    s.push(Step::Settle);
    cfg.timeout_ms = 20;
    cfg.faults = true;
    cfg.inactivity = true;
    cfg.end = EndKind::FinalIdle;
    (cfg, s)
}

// ------------------------------------------------------------------------------------------------
// Directed bad-frame scenarios (C07): the lane emits one frame that is not what a lane emits - an
// `event` whose body is not a map message (map lanes: decided by the runtime's `BadFrameStrategy`),
// or bytes that are not an envelope (both lane kinds) - at five points of a conversation of two
// consumers, under each strategy.

pub const BADFRAME_POSITIONS: [&str; 5] =
    ["established", "behind-the-link-answer-while-a-consumer-joins", "nobody-attached", "before-a-late-joiner", "back-to-back-with-events-consumer-stalled"];
/// 12 bodies + 4 envelope faults on the map lane under 5 strategies, 4 envelope faults on the value lane.
pub const BADFRAME_FAULTS_MAP: u64 = 16;
pub const BADFRAME_FAULTS_VALUE: u64 = 4;
const BADFRAME_OPTIONS: u64 = 8;
pub const BADFRAME_MAP_CASES: u64 = BADFRAME_FAULTS_MAP * 5 * 5 * BADFRAME_OPTIONS;
pub const BADFRAME_CASES: u64 = BADFRAME_MAP_CASES + BADFRAME_FAULTS_VALUE * 5 * BADFRAME_OPTIONS;

pub fn badframe_case(idx: u64) -> (Config, Vec<Step>, &'static str) {
    let (kind, mut i) = if idx < BADFRAME_MAP_CASES { (LaneKind::Map, idx) } else { (LaneKind::Value, idx - BADFRAME_MAP_CASES) };
    let mut take = |n: u64| {
        let r = i % n;
        i /= n;
        r
    };
    let pos = take(5) as usize;
    let fault = take(if kind == LaneKind::Map { BADFRAME_FAULTS_MAP } else { BADFRAME_FAULTS_VALUE });
    let strategy = if kind == LaneKind::Map { STRATEGIES[take(5) as usize] } else { Strategy::Abort };
    let o = take(BADFRAME_OPTIONS);
    let (oa, ob) = (o & 3, ((o >> 2) & 1) | ((o & 1) << 1));
    let envs = [BadEnv::RequestTag, BadEnv::LinkedWithBody, BadEnv::NonUtf8Node, BadEnv::Truncated(100 + 97 * o)];
    let envelope = kind == LaneKind::Value || fault >= 12;
    let bad = || {
        if kind == LaneKind::Value {
            Step::LaneBadEnvelope(envs[fault as usize])
        } else if fault >= 12 {
            Step::LaneBadEnvelope(envs[fault as usize - 12])
        } else {
            Step::LaneBadEvent(BAD_MAP_BODIES[fault as usize].to_vec())
        }
    };
    let init = match kind {
        LaneKind::Value => St::V(0),
        LaneKind::Map => St::M((0..2).map(|j| (lane_key(j), 1000 + j)).collect()),
    };
    let mut lane_n = 1u64;
    let mut change = |steps: &mut Vec<Step>| {
        let ev = match kind {
            LaneKind::Value => Ev::Set(lane_n),
            LaneKind::Map => Ev::Upd(lane_key(2 + lane_n % 3), lane_n),
        };
        lane_n += 1;
        steps.push(Step::LaneApply(ev));
    };
    let cmd = |c: usize, n: u64| {
        let v = ((c as u64 + 1) << 32) | n;
        match kind {
            LaneKind::Value => Cmd::Set(v),
            LaneKind::Map => Cmd::Upd(consumer_key(c, n % 2), v),
        }
    };
    let cons = |o: u64| ConsCfg { sync: o & 1 == 1, keep: o & 2 == 2, cap_note: 4096, cap_cmd: 4096, pace: FAST };
    let mut s = vec![];
    match pos {
        0 => {
            s.push(Step::Attach(0));
            s.push(Step::Attach(1));
            s.push(Step::Settle);
            change(&mut s);
            s.push(Step::Settle);
            s.push(bad());
            s.push(Step::Settle);
            change(&mut s);
            change(&mut s);
            s.push(Step::Settle);
            s.push(Step::Cmd(0, cmd(0, 0)));
            s.push(Step::Settle);
        }
        1 => {
            // the lane may say `linked` and nothing else; the bad frame waits behind the answers owed
            s.push(Step::LaneBudget(Some(1)));
            s.push(Step::Attach(0));
            s.push(Step::Settle);
            s.push(bad());
            s.push(Step::Attach(1));
            s.push(Step::Settle);
            s.push(Step::LaneBudget(None));
            s.push(Step::Settle);
            change(&mut s);
            change(&mut s);
            s.push(Step::Settle);
        }
        2 => {
            s.push(Step::Attach(0));
            s.push(Step::Settle);
            change(&mut s);
            s.push(Step::Settle);
            s.push(Step::DropBoth(0));
            s.push(Step::Settle);
            change(&mut s);
            s.push(Step::Settle);
            change(&mut s);
            s.push(Step::Settle);
            s.push(bad());
            s.push(Step::Settle);
            s.push(Step::Attach(1));
            s.push(Step::Settle);
            change(&mut s);
            s.push(Step::Settle);
        }
        3 => {
            s.push(Step::Attach(0));
            s.push(Step::Settle);
            change(&mut s);
            s.push(bad());
            s.push(Step::Settle);
            s.push(Step::Attach(1));
            s.push(Step::Settle);
            change(&mut s);
            s.push(Step::Settle);
            s.push(Step::Cmd(1, cmd(1, 0)));
            s.push(Step::Settle);
            change(&mut s);
            s.push(Step::Settle);
        }
        _ => {
            s.push(Step::Attach(0));
            s.push(Step::Attach(1));
            s.push(Step::Settle);
            s.push(Step::Stall(0));
            change(&mut s);
            s.push(bad());
            change(&mut s);
            if !envelope {
                s.push(bad());
            }
            change(&mut s);
            s.push(Step::Settle);
            s.push(Step::Unstall(0));
            s.push(Step::Settle);
        }
    }
    // (after an envelope fault the lane cannot say `unlinked` any more)
    let end = match (envelope, pos % 2) {
        (false, 0) => EndKind::LaneUnlinked,
        (true, 0) => EndKind::StopTrigger,
        _ => EndKind::Nothing,
    };
    let cfg = Config {
        kind,
        consumers: vec![cons(oa), cons(ob)],
        cap_sock_out: 4096,
        cap_sock_in: 4096,
        lane_pace: FAST,
        att_queue: 8,
        jitter: 0,
        init,
        end,
        clearer: None,
        lane_bulk: false,
        timeout_ms: LONG_TIMEOUT_MS,
        faults: false,
        inactivity: false,
        strategy,
        badframes: true,
        bursts: false,
        passthrough: false,
    };
    (cfg, s, BADFRAME_POSITIONS[pos])
}

// ------------------------------------------------------------------------------------------------
// Directed feed-failure scenarios (C07): three or four consumers are established; one of them (the
// first, a middle one or the last to have attached) stops listening without a word, and the lane
// sends a burst of events with 3000 bytes of trailing white space each, which the read task finds
// back to back: it buffers them for every consumer without flushing anybody, until a consumer's
// buffer has reached 8 KiB and the next event has to be flushed first - for the one that has gone
// that fails *while the event is fed* (`send_current`), and the consumer is removed by its index in
// the list. Everybody else must get every event of the burst and everything after it, in order.

pub const FEED_FAILURE_VARIANTS: [&str; 4] =
    ["leaves-then-burst", "leaves-in-the-middle-of-a-burst", "two-leave-one-burst-each", "leaves-while-the-read-task-waits-for-a-stalled-consumer"];
pub const FEED_FAILURE_CASES: u64 = 2 * 2 * 3 * 4 * 4;
pub const PAD: usize = 3000;

pub fn feed_failure_case(idx: u64) -> (Config, Vec<Step>, &'static str) {
    let mut i = idx;
    let mut take = |n: u64| {
        let r = i % n;
        i /= n;
        r
    };
    let kind = if take(2) == 0 { LaneKind::Value } else { LaneKind::Map };
    let n = 3 + take(2) as usize;
    let victim = [0, 1, n - 1][take(3) as usize];
    let opts = take(4);
    let var = take(4) as usize;
    let init = match kind {
        LaneKind::Value => St::V(0),
        LaneKind::Map => St::M((0..2).map(|j| (lane_key(j), 1000 + j)).collect()),
    };
    let mut lane_n = 1u64;
    let mut ev = || {
        let e = match kind {
            LaneKind::Value => Ev::Set(lane_n),
            LaneKind::Map => Ev::Upd(lane_key(2 + lane_n % 3), lane_n),
        };
        lane_n += 1;
        e
    };
    let sync = |c: usize| match opts {
        0 => false,
        1 => true,
        2 => c % 2 == 0,
        _ => c % 2 == 1,
    };
    // (a notification channel smaller than one padded event in half of the cases)
    let cap_note = if n == 3 { 1 << 16 } else { 2048 };
    let consumers: Vec<ConsCfg> = (0..n).map(|c| ConsCfg { sync: sync(c), keep: c % 2 == 0, cap_note, cap_cmd: 4096, pace: FAST }).collect();
    let mut s = vec![];
    for c in 0..n {
        s.push(Step::Attach(c));
        s.push(Step::Settle);
    }
    s.push(Step::LaneApply(ev()));
    s.push(Step::Settle);
    let burst = |s: &mut Vec<Step>, k: usize, ev: &mut dyn FnMut() -> Ev| {
        for _ in 0..k {
            s.push(Step::LaneApplyPadded(ev(), PAD));
        }
    };
    match var {
        0 => {
            s.push(Step::DropReader(victim));
            s.push(Step::Settle);
            burst(&mut s, 5, &mut ev);
            s.push(Step::Settle);
        }
        1 => {
            burst(&mut s, 2, &mut ev);
            s.push(Step::DropReader(victim));
            burst(&mut s, 4, &mut ev);
            s.push(Step::Settle);
        }
        2 => {
            s.push(Step::DropBoth(victim));
            burst(&mut s, 5, &mut ev);
            s.push(Step::Settle);
            let second = (victim + 1) % n;
            s.push(Step::DropReader(second));
            burst(&mut s, 6, &mut ev);
            s.push(Step::Settle);
        }
        _ => {
            // the read task waits for a consumer that does not read; behind it in the socket the
            // burst grows; the victim leaves; the slow consumer reads again
            let slow = (victim + 1) % n;
            s.push(Step::Stall(slow));
            burst(&mut s, 3, &mut ev);
            s.push(Step::Settle);
            s.push(Step::DropReader(victim));
            burst(&mut s, 5, &mut ev);
            s.push(Step::Settle);
            s.push(Step::Unstall(slow));
            s.push(Step::Settle);
        }
    }
    s.push(Step::LaneApply(ev()));
    s.push(Step::LaneApply(ev()));
    s.push(Step::Settle);
    let cfg = Config {
        kind,
        consumers,
        cap_sock_out: 4096,
        cap_sock_in: 1 << 16,
        lane_pace: FAST,
        att_queue: 8,
        jitter: 0,
        init,
        end: if var % 2 == 0 { EndKind::LaneUnlinked } else { EndKind::Nothing },
        clearer: None,
        lane_bulk: false,
        timeout_ms: LONG_TIMEOUT_MS,
        faults: false,
        inactivity: false,
        strategy: Strategy::Abort,
        badframes: false,
        bursts: true,
        passthrough: false,
    };
    (cfg, s, FEED_FAILURE_VARIANTS[var])
}

// ------------------------------------------------------------------------------------------------
// Directed inactivity scenarios around the code reached by `feed-failure-*` and `badframe-*` (C17):
// the read task learns that its last consumers have gone *while it feeds them an event* (its lists
// empty and its timer starts in that very turn); a consumer is found dead that way while others stay;
// bad frames arrive while nobody is attached. Every conversation ends with the final idle period.

pub const INACTIVITY_EXTRA_SCENARIOS: [&str; 5] = [
    "everybody-found-gone-while-fed-a-burst",
    "one-of-three-found-gone-while-fed-the-others-stay-for-two-timeouts",
    "bad-event-body-ignored-while-nobody-is-attached",
    "bad-event-body-aborts",
    "bad-envelope",
];
pub const INACTIVITY_EXTRA_CASES: u64 = 2 * 5 * 2 * 5;

pub fn inactivity_extra_case(idx: u64) -> (Config, Vec<Step>, &'static str) {
    let mut i = idx;
    let mut take = |n: u64| {
        let r = i % n;
        i /= n;
        r
    };
    let kind = if take(2) == 0 { LaneKind::Value } else { LaneKind::Map };
    let mut scenario = take(5) as usize;
    let t: u64 = if take(2) == 0 { 20 } else { 60 };
    let var = take(5);
    // (the value runtime interprets no bodies)
    if kind == LaneKind::Value && (scenario == 2 || scenario == 3) {
        scenario = 4;
    }
    let init = match kind {
        LaneKind::Value => St::V(0),
        LaneKind::Map => St::M((0..2).map(|j| (lane_key(j), 1000 + j)).collect()),
    };
    let mut lane_n = 1u64;
    let mut ev = || {
        let e = match kind {
            LaneKind::Value => Ev::Set(lane_n),
            LaneKind::Map => Ev::Upd(lane_key(2 + lane_n % 3), lane_n),
        };
        lane_n += 1;
        e
    };
    let gap = [t - 2, t - 1, t, t + 1, 2 * t + 1][var as usize];
    let mut s = vec![];
    let mut strategy = Strategy::Abort;
    let session = |s: &mut Vec<Step>, c: usize, ev: &mut dyn FnMut() -> Ev| {
        s.push(Step::Attach(c));
        s.push(Step::Settle);
        s.push(Step::LaneApply(ev()));
        s.push(Step::Settle);
    };
    match scenario {
        0 => {
            session(&mut s, 0, &mut ev);
            session(&mut s, 1, &mut ev);
            s.push(Step::DropBoth(0));
            s.push(Step::DropBoth(1));
            // five events of 3 KB back to back: while the fourth is fed both are found gone
            for _ in 0..5 {
                s.push(Step::LaneApplyPadded(ev(), PAD));
            }
            s.push(Step::Advance(gap));
            session(&mut s, 2, &mut ev);
            s.push(Step::DropBoth(2));
            s.push(Step::Settle);
        }
        1 => {
            session(&mut s, 0, &mut ev);
            session(&mut s, 1, &mut ev);
            session(&mut s, 2, &mut ev);
            s.push(Step::DropBoth((var % 3) as usize));
            for _ in 0..5 {
                s.push(Step::LaneApplyPadded(ev(), PAD));
            }
            s.push(Step::Settle);
            // the two that stay only listen; they must be served for as long as they do
            s.push(Step::Advance(t + 1));
            s.push(Step::LaneApply(ev()));
            s.push(Step::Advance(t + 1));
            s.push(Step::LaneApply(ev()));
            s.push(Step::Settle);
        }
        2 | 3 => {
            strategy = if scenario == 3 {
                [Strategy::Abort, Strategy::ReportAbort, Strategy::BoxedReportAbort][(var % 3) as usize]
            } else if var % 2 == 0 {
                Strategy::Ignore
            } else {
                Strategy::BoxedReportIgnore
            };
            session(&mut s, 0, &mut ev);
            s.push(Step::DropBoth(0));
            s.push(Step::Settle);
            s.push(Step::LaneApply(ev()));
            s.push(Step::Settle);
            s.push(Step::LaneApply(ev()));
            s.push(Step::Settle);
            // (A left at T0; the write task votes at T0 + t, the read task - told by the second event -
            // at T0 + 2 + t.) The bad frame arrives at T0 + 2 + gap and B at T0 + 4 + gap: while both
            // timers run (three gaps), between the two votes, after the stop.
            s.push(Step::Advance([t / 3, t / 2, t - 6, t - 3, t + 1][var as usize]));
            s.push(Step::LaneBadEvent(BAD_MAP_BODIES[(idx % 12) as usize].to_vec()));
            s.push(Step::Settle);
            s.push(Step::LaneApply(ev()));
            s.push(Step::Settle);
            session(&mut s, 1, &mut ev);
            s.push(Step::DropBoth(1));
            s.push(Step::Settle);
        }
        _ => {
            session(&mut s, 0, &mut ev);
            if var % 2 == 0 {
                s.push(Step::DropBoth(0));
                s.push(Step::Settle);
            }
            s.push(Step::Advance(t / 2));
            s.push(Step::LaneBadEnvelope([BadEnv::RequestTag, BadEnv::LinkedWithBody, BadEnv::NonUtf8Node, BadEnv::Truncated(500), BadEnv::Truncated(20)][var as usize]));
            s.push(Step::Settle);
            s.push(Step::Advance(t / 2));
            session(&mut s, 1, &mut ev);
        }
    }
    let cons = |o: u64| ConsCfg { sync: o & 1 == 1, keep: o & 2 == 2, cap_note: 1 << 16, cap_cmd: 4096, pace: FAST };
    let cfg = Config {
        kind,
        consumers: vec![cons(var), cons(var + 1), cons(var + 2)],
        cap_sock_out: 4096,
        cap_sock_in: 1 << 16,
        lane_pace: FAST,
        att_queue: 8,
        jitter: 0,
        init,
        end: EndKind::FinalIdle,
        clearer: None,
        lane_bulk: false,
        timeout_ms: t,
        faults: true,
        inactivity: true,
        strategy,
        badframes: scenario >= 2,
        bursts: scenario < 2,
        passthrough: false,
    };
    (cfg, s, INACTIVITY_EXTRA_SCENARIOS[scenario])
}

// ------------------------------------------------------------------------------------------------
// The join-phase grid once more, map lane only, through the pass-through variant of the map runtime
// (`NoInterpretation`), and - `more` - with a lane that holds five entries and a third consumer that
// joins late with SYNC after further changes and removals.

pub const PASSTHROUGH_GRID_CASES: u64 = GRID_CASES / 2 * 2;

pub fn passthrough_grid_case(idx: u64) -> (Config, Vec<Step>, JoinPhase) {
    let more = idx >= GRID_CASES / 2;
    let (mut cfg, mut s, phase) = grid_case((idx % (GRID_CASES / 2)) * 2 + 1);
    debug_assert!(cfg.kind == LaneKind::Map);
    cfg.passthrough = true;
    if more {
        let again = cfg.consumers[1].clone();
        cfg.consumers.push(ConsCfg { sync: true, ..again });
        s.push(Step::LaneApply(Ev::Rem(lane_key(0))));
        s.push(Step::LaneApply(Ev::Upd(lane_key(1), 77)));
        s.push(Step::Settle);
        s.push(Step::Attach(2));
        s.push(Step::Settle);
        s.push(Step::LaneApply(Ev::Upd(lane_key(0), 78)));
        s.push(Step::Settle);
    }
    (cfg, s, phase)
}
