//! Simulated peers of a downlink runtime, at the byte-channel boundary:
//!
//!  * the *lane* on the socket side: a small well-behaved remote lane model (`linked` on link,
//!    current state then `synced` on sync, state change + `event` on command, scripted spontaneous
//!    changes, optional `unlinked`). Its reader is paced / stallable and its frame output is gated by
//!    a frame budget, so that the script decides exactly how far a sync response has got;
//!  * *consumers*: a paced / stallable / droppable reader of `DownlinkNotification` frames and a
//!    writer task of `DownlinkOperation` / `MapOperation` frames (may stop in the middle of a frame).
//!
//! Everything that is observed gets a ticket of the global clock.

use std::collections::BTreeMap;
use std::pin::Pin;
use std::sync::Arc;
use std::task::{Context, Poll, Waker};

use bytes::{Buf, BytesMut};
use common::{ticket, Rng};
use futures::StreamExt;
use parking_lot::Mutex;
use swimos_agent_protocol::encoding::downlink::DownlinkOperationEncoder;
use swimos_agent_protocol::encoding::map::{MapOperationEncoder, RawMapMessageDecoder};
use swimos_agent_protocol::{DownlinkOperation, MapMessage, MapOperation};
use swimos_api::address::RelativeAddress;
use swimos_messages::protocol::{Operation, RawRequestMessageDecoder, RawResponseMessageEncoder, ResponseMessage};
use swimos_utilities::byte_channel::{ByteReader, ByteWriter};
use tokio::io::{AsyncRead, AsyncWriteExt, ReadBuf};
use tokio::sync::{mpsc, Notify};
use tokio_util::codec::{Decoder, Encoder, FramedRead};
use uuid::Uuid;

pub const NODE: &str = "/node";
pub const LANE: &str = "lane";

#[derive(Clone, Copy, Debug, PartialEq, Eq, Hash)]
pub enum LaneKind {
    Value,
    Map,
}

impl LaneKind {
    pub fn name(self) -> &'static str {
        match self {
            LaneKind::Value => "value",
            LaneKind::Map => "map",
        }
    }
}

pub type Key = i32;

/// Body of an `event` envelope / notification.
#[derive(Clone, Debug, PartialEq, Eq, Hash)]
pub enum Ev {
    Set(u64),
    Upd(Key, u64),
    Rem(Key),
    Clear,
    Take(u64),
    Drop(u64),
}

impl Ev {
    pub fn text(&self) -> String {
        match self {
            Ev::Set(v) => v.to_string(),
            Ev::Upd(k, v) => format!("@update(key:{k}) {v}"),
            Ev::Rem(k) => format!("@remove(key:{k})"),
            Ev::Clear => "@clear".to_string(),
            Ev::Take(n) => format!("@take({n})"),
            Ev::Drop(n) => format!("@drop({n})"),
        }
    }

}

/// A command a consumer writes.
#[derive(Clone, Debug, PartialEq, Eq, Hash)]
pub enum Cmd {
    Set(u64),
    Upd(Key, u64),
    Rem(Key),
    Clear,
}

impl Cmd {
    pub fn as_ev(&self) -> Ev {
        match self {
            Cmd::Set(v) => Ev::Set(*v),
            Cmd::Upd(k, v) => Ev::Upd(*k, *v),
            Cmd::Rem(k) => Ev::Rem(*k),
            Cmd::Clear => Ev::Clear,
        }
    }

    pub fn key(&self) -> Option<Key> {
        match self {
            Cmd::Upd(k, _) | Cmd::Rem(k) => Some(*k),
            _ => None,
        }
    }
}

/// State of the lane model / of a consumer's replica.
#[derive(Clone, Debug, PartialEq, Eq)]
pub enum St {
    V(u64),
    M(BTreeMap<Key, u64>),
}

impl St {
    pub fn apply(&mut self, ev: &Ev) {
        match (self, ev) {
            (St::V(x), Ev::Set(v)) => *x = *v,
            (St::M(m), Ev::Upd(k, v)) => {
                m.insert(*k, *v);
            }
            (St::M(m), Ev::Rem(k)) => {
                m.remove(k);
            }
            (St::M(m), Ev::Clear) => m.clear(),
            (St::M(m), Ev::Take(n)) => {
                let keep: Vec<Key> = m.keys().take(*n as usize).copied().collect();
                m.retain(|k, _| keep.contains(k));
            }
            (St::M(m), Ev::Drop(n)) => {
                let gone: Vec<Key> = m.keys().take(*n as usize).copied().collect();
                for k in gone {
                    m.remove(&k);
                }
            }
            _ => {}
        }
    }

    /// The events a sync of this state consists of.
    pub fn snapshot(&self) -> Vec<Ev> {
        match self {
            St::V(v) => vec![Ev::Set(*v)],
            St::M(m) => m.iter().map(|(k, v)| Ev::Upd(*k, *v)).collect(),
        }
    }

    pub fn show(&self) -> String {
        match self {
            St::V(v) => show_val(*v),
            St::M(m) => format!("{{{}}}", m.iter().map(|(k, v)| format!("{k}:{}", show_val(*v))).collect::<Vec<_>>().join(", ")),
        }
    }
}

/// Values are `source << 32 | n` (source 0 = the lane itself, c + 1 = consumer c).
pub fn show_val(v: u64) -> String {
    let src = v >> 32;
    let n = v & 0xffff_ffff;
    if src == 0 {
        format!("L.{n}")
    } else {
        format!("c{}.{n}", src - 1)
    }
}

// ------------------------------------------------------------------------------------------------
// Paced reader (as in the `agent` engine).

#[derive(Clone, Copy, Debug)]
pub struct Pace {
    /// Maximum bytes returned per successful read.
    pub chunk: usize,
    /// Upper bound on the number of self-waking `Pending`s inserted after each successful read.
    pub yields: u32,
}

pub const FAST: Pace = Pace { chunk: 4096, yields: 0 };

pub struct ReaderCtl {
    pub stalled: bool,
    pub pace: Pace,
    waker: Option<Waker>,
}

pub type SharedCtl = Arc<Mutex<ReaderCtl>>;

pub fn new_ctl(pace: Pace) -> SharedCtl {
    Arc::new(Mutex::new(ReaderCtl { stalled: false, pace, waker: None }))
}

pub fn set_stalled(ctl: &SharedCtl, stalled: bool) {
    let mut g = ctl.lock();
    g.stalled = stalled;
    if !stalled {
        if let Some(w) = g.waker.take() {
            w.wake();
        }
    }
}

pub struct PacedReader {
    inner: ByteReader,
    ctl: SharedCtl,
    yield_left: u32,
    rng: Rng,
}

impl PacedReader {
    pub fn new(inner: ByteReader, ctl: SharedCtl, rng: Rng) -> Self {
        PacedReader { inner, ctl, yield_left: 0, rng }
    }
}

impl AsyncRead for PacedReader {
    fn poll_read(self: Pin<&mut Self>, cx: &mut Context<'_>, buf: &mut ReadBuf<'_>) -> Poll<std::io::Result<()>> {
        let this = self.get_mut();
        let (chunk, yields) = {
            let mut g = this.ctl.lock();
            if g.stalled {
                g.waker = Some(cx.waker().clone());
                return Poll::Pending;
            }
            (g.pace.chunk.max(1), g.pace.yields)
        };
        if this.yield_left > 0 {
            this.yield_left -= 1;
            cx.waker().wake_by_ref();
            return Poll::Pending;
        }
        let mut tmp = [0u8; 4096];
        let n = chunk.min(buf.remaining()).min(tmp.len());
        let mut rb = ReadBuf::new(&mut tmp[..n]);
        match Pin::new(&mut this.inner).poll_read(cx, &mut rb) {
            Poll::Ready(Ok(())) => {
                let filled = rb.filled();
                buf.put_slice(filled);
                if yields > 0 {
                    this.yield_left = this.rng.below(yields as u64 + 1) as u32;
                }
                Poll::Ready(Ok(()))
            }
            other => other,
        }
    }
}

// ------------------------------------------------------------------------------------------------
// Frame budget of the lane: the script decides how many frames the lane may still emit.

pub struct Gate {
    /// `None` = unlimited.
    budget: Mutex<Option<u32>>,
    notify: Notify,
}

impl Gate {
    pub fn new() -> Arc<Gate> {
        Arc::new(Gate { budget: Mutex::new(None), notify: Notify::new() })
    }

    pub fn set(&self, b: Option<u32>) {
        *self.budget.lock() = b;
        self.notify.notify_one();
    }

    async fn acquire(&self) {
        loop {
            {
                let mut g = self.budget.lock();
                match *g {
                    None => return,
                    Some(n) if n > 0 => {
                        *g = Some(n - 1);
                        return;
                    }
                    _ => {}
                }
            }
            self.notify.notified().await;
        }
    }
}

// ------------------------------------------------------------------------------------------------
// The lane.

#[derive(Clone, Debug, PartialEq, Eq)]
pub enum Req {
    Link,
    Sync,
    Unlink,
    Cmd(Cmd),
    /// A command whose body the lane could not understand.
    Bad(String),
}

#[derive(Clone, Debug, PartialEq, Eq)]
pub enum SentKind {
    Linked,
    Synced,
    Unlinked,
    Event(Ev),
    /// A well-formed `event` envelope whose body is not an event of a lane of this kind (shown lossily).
    BadEvent(String),
    /// Bytes that are not a response envelope (an undecodable frame, or a strict prefix of a frame
    /// after which the lane closes its writer).
    BadEnvelope(BadEnv),
}

/// The ways in which the lane model corrupts its output at the level of envelopes.
#[derive(Clone, Copy, Debug, PartialEq, Eq, Hash)]
pub enum BadEnv {
    /// A frame whose tag is one of the request tags (`command`).
    RequestTag,
    /// A `linked` frame that announces a body.
    LinkedWithBody,
    /// An `event` frame whose node name is not UTF-8.
    NonUtf8Node,
    /// The first `per mille` of an `event` frame (at least one byte, never the whole frame), then the
    /// lane closes its writer.
    Truncated(u64),
}

impl BadEnv {
    pub fn name(self) -> &'static str {
        match self {
            BadEnv::RequestTag => "request-tag",
            BadEnv::LinkedWithBody => "linked-with-body",
            BadEnv::NonUtf8Node => "non-utf8-node",
            BadEnv::Truncated(_) => "truncated-then-closed",
        }
    }
}

#[derive(Clone, Debug)]
pub struct Sent {
    /// Ticket drawn before the first byte of the frame is offered to the channel.
    pub t0: u64,
    /// Ticket drawn after the whole frame was accepted by the channel.
    pub t1: Option<u64>,
    pub kind: SentKind,
    /// Length of the frame on the socket.
    pub bytes: usize,
}

pub enum LaneOp {
    /// A state change of the lane that is not caused by one of our consumers.
    Apply(Ev),
    /// The same, with that many bytes of trailing white space in the body of the event (so that a few
    /// events fill the 8 KiB that a framed writer buffers before it insists on flushing).
    ApplyPadded(Ev, usize),
    /// An `event` envelope with this body, which is not an event of the lane's kind. No state change.
    BadEvent(Vec<u8>),
    /// Bytes that are not an envelope; the lane sends nothing afterwards (nothing would be understood).
    BadEnvelope(BadEnv),
    Unlinked,
    /// Drop both halves of the socket.
    Close,
    /// Fault: the lane drops ITS READER of the runtime's output (runtime -> lane) and keeps its writer:
    /// from then on every write / flush of the runtime's write task fails, the input stays healthy.
    DropReader,
    /// Fault: the lane closes its writer (lane -> runtime) and keeps reading the runtime's requests.
    CloseWriter,
}

#[derive(Clone)]
pub struct LaneLog {
    pub reqs: Vec<(u64, Req)>,
    pub sent: Vec<Sent>,
    /// (ticket at which the state was established, state); entry 0 is the initial state.
    pub hist: Vec<(u64, St)>,
    /// (ticket the sync request arrived, ticket its `synced` was completely written)
    pub syncs: Vec<(u64, Option<u64>)>,
    pub reader_end: Option<(u64, String)>,
    pub write_failed: Option<u64>,
    /// Ticket at which the lane dropped its reader of the runtime's output (fault step).
    pub reader_dropped: Option<u64>,
    /// Ticket at which the lane closed its writer (fault step).
    pub writer_closed: Option<u64>,
    /// Scripted operations handed to the lane and not yet completely handled.
    pub pending_ops: usize,
    /// The lane is in the middle of answering a request.
    pub busy: bool,
}

pub type SharedLane = Arc<Mutex<LaneLog>>;

pub fn new_lane_log(init: &St) -> SharedLane {
    Arc::new(Mutex::new(LaneLog {
        reqs: vec![],
        sent: vec![],
        hist: vec![(0, init.clone())],
        syncs: vec![],
        reader_end: None,
        write_failed: None,
        reader_dropped: None,
        writer_closed: None,
        pending_ops: 0,
        busy: false,
    }))
}

fn parse_cmd(kind: LaneKind, body: &[u8]) -> Result<Cmd, String> {
    let text = std::str::from_utf8(body).map_err(|_| format!("non-UTF8 body {body:?}"))?;
    let bad = || format!("unexpected body {text:?}");
    match kind {
        LaneKind::Value => text.trim().parse::<u64>().map(Cmd::Set).map_err(|_| bad()),
        LaneKind::Map => {
            let t = text.trim();
            if t == "@clear" {
                Ok(Cmd::Clear)
            } else if let Some(rest) = t.strip_prefix("@update(key:") {
                let (k, v) = rest.split_once(')').ok_or_else(bad)?;
                let k = k.trim().parse::<Key>().map_err(|_| bad())?;
                let v = v.trim().parse::<u64>().map_err(|_| bad())?;
                Ok(Cmd::Upd(k, v))
            } else if let Some(rest) = t.strip_prefix("@remove(key:") {
                let k = rest.strip_suffix(')').ok_or_else(bad)?;
                Ok(Cmd::Rem(k.trim().parse::<Key>().map_err(|_| bad())?))
            } else {
                Err(bad())
            }
        }
    }
}

struct LaneWriter {
    /// `None` once the lane closed its writer (fault step).
    writer: Option<ByteWriter>,
    gate: Arc<Gate>,
    log: SharedLane,
    id: Uuid,
    failed: bool,
    /// Trailing white space for the body of the next event.
    pad: usize,
    /// Body of the next `SentKind::BadEvent`.
    raw_body: Vec<u8>,
}

/// Offset of the tag / body-length word in an envelope (after the 16-byte id and the two name lengths).
const TAG_WORD: usize = 24;
const ENVELOPE_HEADER: usize = 32;

impl LaneWriter {
    async fn send(&mut self, kind: SentKind) {
        if self.failed || self.writer.is_none() {
            return;
        }
        self.gate.acquire().await;
        let Some(writer) = self.writer.as_mut() else { return };
        let path = RelativeAddress::new(NODE, LANE);
        let mut text;
        let msg: ResponseMessage<&str, &[u8], &[u8]> = match &kind {
            SentKind::Linked | SentKind::BadEnvelope(BadEnv::LinkedWithBody) => ResponseMessage::linked(self.id, path),
            SentKind::Synced => ResponseMessage::synced(self.id, path),
            SentKind::Unlinked => ResponseMessage::unlinked(self.id, path, None),
            SentKind::Event(ev) => {
                text = ev.text();
                text.extend(std::iter::repeat(' ').take(std::mem::take(&mut self.pad)));
                ResponseMessage::event(self.id, path, text.as_bytes())
            }
            SentKind::BadEvent(_) => ResponseMessage::event(self.id, path, self.raw_body.as_slice()),
            SentKind::BadEnvelope(_) => ResponseMessage::event(self.id, path, b"@update(key:900) 1".as_slice()),
        };
        let mut buf = BytesMut::new();
        if RawResponseMessageEncoder.encode(&msg, &mut buf).is_err() {
            self.failed = true;
            return;
        }
        let mut close_after = false;
        if let SentKind::BadEnvelope(how) = &kind {
            // A well-formed frame is damaged in one place (layout: swimos_messages::protocol).
            match how {
                BadEnv::RequestTag => buf[TAG_WORD] = (buf[TAG_WORD] & 0x1f) | (0b011 << 5),
                BadEnv::LinkedWithBody => buf[TAG_WORD + 7] = 5,
                BadEnv::NonUtf8Node => buf[ENVELOPE_HEADER] = 0xff,
                BadEnv::Truncated(per_mille) => {
                    let n = ((buf.len() as u64 * per_mille / 1000) as usize).clamp(1, buf.len() - 1);
                    buf.truncate(n);
                    close_after = true;
                }
            }
            // nothing the lane could send afterwards would be understood
            self.failed = true;
        }
        let idx = {
            let mut g = self.log.lock();
            g.sent.push(Sent { t0: ticket(), t1: None, kind, bytes: buf.len() });
            g.sent.len() - 1
        };
        match writer.write_all(&buf).await {
            Ok(()) => self.log.lock().sent[idx].t1 = Some(ticket()),
            Err(_) => {
                self.failed = true;
                self.log.lock().write_failed = Some(ticket());
            }
        }
        if close_after && self.writer.take().is_some() {
            self.log.lock().writer_closed = Some(ticket());
        }
    }
}

/// The lane model. Sequential: it answers one request / scripted operation at a time, so while it
/// is blocked writing (frame budget exhausted, or the runtime not reading) requests queue up in the
/// socket, which is the back-pressure the runtime's write task has to cope with.
pub async fn lane_task(
    kind: LaneKind,
    reader: PacedReader,
    writer: ByteWriter,
    mut ops: mpsc::UnboundedReceiver<LaneOp>,
    gate: Arc<Gate>,
    log: SharedLane,
    init: St,
    mut rng: Rng,
) {
    // `None` once the lane dropped its reader (fault step).
    let mut framed = Some(FramedRead::new(reader, RawRequestMessageDecoder));
    let mut w = LaneWriter { writer: Some(writer), gate, log: log.clone(), id: Uuid::from_u128(0xD1), failed: false, pad: 0, raw_body: vec![] };
    let mut state = init;
    let mut reading = true;
    // A lane only sends events down a link that exists: before the link request arrived, scripted
    // changes alter the state silently.
    let mut linked = false;
    enum Next {
        Op(Option<LaneOp>),
        Req(Option<Result<swimos_messages::protocol::BytesRequestMessage, std::io::Error>>),
    }
    loop {
        // `select!` without `biased` would consult Tokio's own RNG: keep the choice under the seed.
        let next = match framed.as_mut() {
            Some(framed) if reading => {
                if rng.bool() {
                    tokio::select! { biased; o = ops.recv() => Next::Op(o), r = framed.next() => Next::Req(r) }
                } else {
                    tokio::select! { biased; r = framed.next() => Next::Req(r), o = ops.recv() => Next::Op(o) }
                }
            }
            _ => Next::Op(ops.recv().await),
        };
        match next {
            Next::Op(None) | Next::Op(Some(LaneOp::Close)) => {
                let mut g = log.lock();
                g.pending_ops = g.pending_ops.saturating_sub(1);
                return;
            }
            Next::Op(Some(LaneOp::Apply(ev))) => {
                state.apply(&ev);
                log.lock().hist.push((ticket(), state.clone()));
                if linked {
                    w.send(SentKind::Event(ev)).await;
                }
                let mut g = log.lock();
                g.pending_ops = g.pending_ops.saturating_sub(1);
            }
            Next::Op(Some(LaneOp::ApplyPadded(ev, pad))) => {
                state.apply(&ev);
                log.lock().hist.push((ticket(), state.clone()));
                if linked {
                    w.pad = pad;
                    w.send(SentKind::Event(ev)).await;
                }
                let mut g = log.lock();
                g.pending_ops = g.pending_ops.saturating_sub(1);
            }
            Next::Op(Some(LaneOp::BadEvent(body))) => {
                if linked {
                    let shown = String::from_utf8_lossy(&body).into_owned();
                    w.raw_body = body;
                    w.send(SentKind::BadEvent(shown)).await;
                }
                let mut g = log.lock();
                g.pending_ops = g.pending_ops.saturating_sub(1);
            }
            Next::Op(Some(LaneOp::BadEnvelope(how))) => {
                if linked {
                    w.send(SentKind::BadEnvelope(how)).await;
                }
                let mut g = log.lock();
                g.pending_ops = g.pending_ops.saturating_sub(1);
            }
            Next::Op(Some(LaneOp::DropReader)) => {
                if framed.take().is_some() {
                    log.lock().reader_dropped = Some(ticket());
                }
                let mut g = log.lock();
                g.pending_ops = g.pending_ops.saturating_sub(1);
            }
            Next::Op(Some(LaneOp::CloseWriter)) => {
                if w.writer.take().is_some() {
                    log.lock().writer_closed = Some(ticket());
                }
                let mut g = log.lock();
                g.pending_ops = g.pending_ops.saturating_sub(1);
            }
            Next::Op(Some(LaneOp::Unlinked)) => {
                linked = false;
                w.send(SentKind::Unlinked).await;
                let mut g = log.lock();
                g.pending_ops = g.pending_ops.saturating_sub(1);
            }
            Next::Req(None) => {
                log.lock().reader_end = Some((ticket(), "closed".to_string()));
                reading = false;
            }
            Next::Req(Some(Err(e))) => {
                log.lock().reader_end = Some((ticket(), format!("decode error: {e}")));
                reading = false;
            }
            Next::Req(Some(Ok(msg))) => {
                let req = match msg.envelope {
                    Operation::Link => Req::Link,
                    Operation::Sync => Req::Sync,
                    Operation::Unlink => Req::Unlink,
                    Operation::Command(body) => match parse_cmd(kind, body.as_ref()) {
                        Ok(c) => Req::Cmd(c),
                        Err(e) => Req::Bad(e),
                    },
                };
                let t = ticket();
                {
                    let mut g = log.lock();
                    g.reqs.push((t, req.clone()));
                    g.busy = true;
                }
                match req {
                    Req::Link => {
                        linked = true;
                        w.send(SentKind::Linked).await
                    }
                    Req::Sync => {
                        let si = {
                            let mut g = log.lock();
                            g.syncs.push((t, None));
                            g.syncs.len() - 1
                        };
                        for ev in state.snapshot() {
                            w.send(SentKind::Event(ev)).await;
                        }
                        w.send(SentKind::Synced).await;
                        if !w.failed && w.writer.is_some() {
                            log.lock().syncs[si].1 = Some(ticket());
                        }
                    }
                    Req::Cmd(c) => {
                        let ev = c.as_ev();
                        state.apply(&ev);
                        log.lock().hist.push((ticket(), state.clone()));
                        if linked {
                            w.send(SentKind::Event(ev)).await;
                        }
                    }
                    Req::Unlink | Req::Bad(_) => {}
                }
                log.lock().busy = false;
            }
        }
    }
}

// ------------------------------------------------------------------------------------------------
// Consumers.

#[derive(Clone, Debug, PartialEq, Eq)]
pub enum Note {
    Linked,
    Synced,
    Unlinked,
    Event(Ev),
    /// An event whose body is not what a lane of this kind produces.
    BadEvent(String),
}

impl Note {
    pub fn kind_id(&self) -> u8 {
        match self {
            Note::Linked => 0,
            Note::Synced => 1,
            Note::Unlinked => 2,
            Note::Event(_) => 3,
            Note::BadEvent(_) => 4,
        }
    }
}

#[derive(Clone, Debug)]
pub enum ReaderEnd {
    /// The runtime closed the channel.
    Closed(u64),
    /// The harness dropped the reader.
    Dropped(u64),
    /// The byte stream is not a sequence of notification frames.
    DecodeError(u64, String),
}

#[derive(Default)]
pub struct ConsLog {
    pub frames: Vec<(u64, Note)>,
    pub end: Option<ReaderEnd>,
}

pub type SharedCons = Arc<Mutex<ConsLog>>;

const LINKED: u8 = 1;
const SYNCED: u8 = 2;
const EVENT: u8 = 3;
const UNLINKED: u8 = 4;

/// Decoder of the notification frames a consumer receives: tag, and for events a length and the
/// body. The body is interpreted according to the lane kind (Recon integer / raw map message).
struct NoteDecoder {
    kind: LaneKind,
    /// Map lanes behind a pass-through runtime: the body is the Recon text the lane sent.
    raw: bool,
}

/// A map event as a lane writes it (`Ev::text`), white space around it allowed.
fn parse_map_event_text(body: &[u8]) -> Option<Ev> {
    let t = std::str::from_utf8(body).ok()?.trim();
    if t == "@clear" {
        Some(Ev::Clear)
    } else if let Some(rest) = t.strip_prefix("@update(key:") {
        let (k, v) = rest.split_once(')')?;
        Some(Ev::Upd(k.trim().parse().ok()?, v.trim().parse().ok()?))
    } else if let Some(rest) = t.strip_prefix("@remove(key:") {
        Some(Ev::Rem(rest.strip_suffix(')')?.trim().parse().ok()?))
    } else if let Some(rest) = t.strip_prefix("@take(") {
        Some(Ev::Take(rest.strip_suffix(')')?.trim().parse().ok()?))
    } else if let Some(rest) = t.strip_prefix("@drop(") {
        Some(Ev::Drop(rest.strip_suffix(')')?.trim().parse().ok()?))
    } else {
        None
    }
}

fn num<T: std::str::FromStr>(b: &[u8]) -> Option<T> {
    std::str::from_utf8(b).ok()?.trim().parse().ok()
}

impl NoteDecoder {
    fn body(&self, mut body: BytesMut) -> Note {
        let shown = format!("{:?}", bytes::Bytes::copy_from_slice(&body));
        match self.kind {
            LaneKind::Value => match num::<u64>(&body) {
                Some(v) => Note::Event(Ev::Set(v)),
                None => Note::BadEvent(shown),
            },
            LaneKind::Map if self.raw => parse_map_event_text(&body).map(Note::Event).unwrap_or(Note::BadEvent(shown)),
            LaneKind::Map => {
                let mut dec = RawMapMessageDecoder::default();
                match dec.decode(&mut body) {
                    Ok(Some(m)) if body.is_empty() => {
                        let ev = match m {
                            MapMessage::Update { key, value } => num::<Key>(&key).zip(num::<u64>(&value)).map(|(k, v)| Ev::Upd(k, v)),
                            MapMessage::Remove { key } => num::<Key>(&key).map(Ev::Rem),
                            MapMessage::Clear => Some(Ev::Clear),
                            MapMessage::Take(n) => Some(Ev::Take(n)),
                            MapMessage::Drop(n) => Some(Ev::Drop(n)),
                        };
                        ev.map(Note::Event).unwrap_or(Note::BadEvent(shown))
                    }
                    _ => Note::BadEvent(shown),
                }
            }
        }
    }
}

impl Decoder for NoteDecoder {
    type Item = Note;
    type Error = std::io::Error;

    fn decode(&mut self, src: &mut BytesMut) -> Result<Option<Note>, std::io::Error> {
        if src.is_empty() {
            return Ok(None);
        }
        match src[0] {
            LINKED => {
                src.advance(1);
                Ok(Some(Note::Linked))
            }
            SYNCED => {
                src.advance(1);
                Ok(Some(Note::Synced))
            }
            UNLINKED => {
                src.advance(1);
                Ok(Some(Note::Unlinked))
            }
            EVENT => {
                if src.len() < 9 {
                    return Ok(None);
                }
                let len = (&src[1..9]).get_u64() as usize;
                if len > (1 << 20) {
                    return Err(std::io::Error::new(std::io::ErrorKind::InvalidData, format!("event body length {len}")));
                }
                if src.len() < 9 + len {
                    src.reserve(9 + len - src.len());
                    return Ok(None);
                }
                src.advance(9);
                let body = src.split_to(len);
                Ok(Some(self.body(body)))
            }
            t => Err(std::io::Error::new(std::io::ErrorKind::InvalidData, format!("notification tag {t}"))),
        }
    }
}

/// Reads notification frames until the channel closes or `drop_signal` fires.
pub async fn consumer_reader(kind: LaneKind, raw: bool, reader: PacedReader, log: SharedCons, drop_signal: Arc<Notify>) {
    let mut framed = FramedRead::new(reader, NoteDecoder { kind, raw });
    loop {
        tokio::select! {
            biased;
            _ = drop_signal.notified() => {
                log.lock().end = Some(ReaderEnd::Dropped(ticket()));
                return;
            }
            item = framed.next() => match item {
                Some(Ok(note)) => log.lock().frames.push((ticket(), note)),
                Some(Err(e)) => {
                    log.lock().end = Some(ReaderEnd::DecodeError(ticket(), e.to_string()));
                    return;
                }
                None => {
                    log.lock().end = Some(ReaderEnd::Closed(ticket()));
                    return;
                }
            }
        }
    }
}

#[derive(Clone, Debug)]
pub struct CmdRec {
    /// Ticket drawn when the consumer decided to send the command.
    pub t0: u64,
    /// Ticket drawn after the whole frame was accepted by the channel to the runtime: only then does
    /// the command count as *sent*.
    pub t1: Option<u64>,
    pub cmd: Cmd,
}

#[derive(Default)]
pub struct WriterLog {
    pub cmds: Vec<CmdRec>,
    /// (ticket, how) once the writer half is gone.
    pub end: Option<(u64, &'static str)>,
}

pub type SharedWriter = Arc<Mutex<WriterLog>>;

pub enum WOp {
    /// Write command `cmds[i]` completely.
    Send(usize),
    /// Write a strict prefix of the frame of `cmd` (per mille of its length) and drop the writer.
    Partial(Cmd, u64),
    /// Drop the writer after everything queued before was written.
    Close,
}

fn encode_cmd(cmd: &Cmd) -> BytesMut {
    let mut buf = BytesMut::new();
    // The real encoders a downlink implementation uses; encoding into memory cannot fail.
    let _ = match cmd {
        Cmd::Set(v) => DownlinkOperationEncoder::default().encode(DownlinkOperation::new(*v), &mut buf),
        Cmd::Upd(k, v) => MapOperationEncoder.encode(MapOperation::Update { key: *k, value: *v }, &mut buf),
        Cmd::Rem(k) => MapOperationEncoder.encode(MapOperation::<Key, u64>::Remove { key: *k }, &mut buf),
        Cmd::Clear => MapOperationEncoder.encode(MapOperation::<Key, u64>::Clear, &mut buf),
    };
    buf
}

pub async fn consumer_writer(mut writer: ByteWriter, mut ops: mpsc::UnboundedReceiver<WOp>, log: SharedWriter) {
    while let Some(op) = ops.recv().await {
        match op {
            WOp::Send(i) => {
                let cmd = log.lock().cmds[i].cmd.clone();
                let buf = encode_cmd(&cmd);
                match writer.write_all(&buf).await {
                    Ok(()) => log.lock().cmds[i].t1 = Some(ticket()),
                    Err(_) => {
                        log.lock().end = Some((ticket(), "write-failed"));
                        return;
                    }
                }
            }
            WOp::Partial(cmd, per_mille) => {
                let buf = encode_cmd(&cmd);
                let n = ((buf.len() as u64 * per_mille / 1000) as usize).clamp(1, buf.len() - 1);
                let _ = writer.write_all(&buf[..n]).await;
                log.lock().end = Some((ticket(), "mid-frame"));
                return;
            }
            WOp::Close => {
                log.lock().end = Some((ticket(), "closed"));
                return;
            }
        }
    }
}
