//! Engine `dlrt` (C07): the real `ValueDownlinkRuntime` / `MapDownlinkRuntime` between a simulated
//! remote lane (socket side) and 1-4 simulated consumers (attach with every combination of
//! SYNC / KEEP_LINKED at scripted points, write unique commands, read slowly, stall, drop).
//!
//! Parts:
//!  * `join-grid` – systematic: two consumers x all option combinations x the phase of the first
//!                  consumer's session at which the second attaches x lane kind x channel size.
//!  * `directed`  – two short scenarios for hand-overs that random conversations reach rarely.
//!  * `value`     – random conversations on a value lane.
//!  * `map`       – random conversations on a map lane.
//!  * `faults-directed` – short scenarios in which one half of the link fails alone (the lane drops
//!                  its reader of the runtime's output / closes its writer) and in which nobody is
//!                  attached for longer than a finite `empty_timeout` while the write task is parked on
//!                  a pending write, after which a consumer attaches.
//!  * `faults-value`, `faults-map` – random conversations with a finite `empty_timeout`, virtual-time
//!                  steps and the lane-side faults (alone and in the patterns above).
//!  * `badframe-directed` – the lane emits one frame that is not what a lane emits (an `event` whose body
//!                  is not a map message; bytes that are not an envelope) at five points of a
//!                  two-consumer conversation, map runtime under each of five `BadFrameStrategy`s.
//!  * `badframe-map`, `badframe-value` – random conversations with such frames.
//!  * `feed-failure-directed` – three or four consumers, one stops listening, the lane sends a burst
//!                  of padded events that the read task finds back to back (a consumer found dead while
//!                  an event is fed, removed by its index).
//!  * `feed-failure-value`, `feed-failure-map` – random conversations with such bursts.
//!
//! With `--prop C17` (inactivity shutdown at the level of the downlink runtime; the vote coordinator
//! itself is the `vote` engine's) the engine runs instead:
//!  * `inactivity-directed` – short scenarios in which consumers come and go around the timeout.
//!  * `inactivity-value`, `inactivity-map` – random conversations of that kind.
//! Every one of them ends with a final idle period: everybody has left, no traffic for five timeouts.
//! The C17 rules (`downlink/...`, see `oracle::check_inactivity`) are evaluated in the `faults-*`
//! parts as well, and the C07 oracles in the `inactivity-*` parts.

mod oracle;
mod peers;
mod run;
mod script;

use common::{json, CaseOut, Rng, Session};

use peers::{LaneKind, Req};
use script::{Config, Gen, Step};

const MAX_OPS: usize = 80;

/// Note on determinism: the code under test chooses between a new consumer and the next socket
/// message with an unbiased `tokio::select!`, whose random source is Tokio's own (it cannot be seeded
/// without the `tokio_unstable` cfg). Everything else in a case is a function of the seed; a replay
/// is re-run by the shared runner until the recorded signature shows again. Every violation carries
/// the complete observed trace, so the evidence does not depend on the replay.
fn run_script(cfg: &Config, script: &[Step], rng: &mut Rng, out: &mut CaseOut) {
    let obs = run::run_case(cfg, script, rng);
    if let Some(s) = obs.stuck.first() {
        out.inconclusive(format!("stuck: {s}"));
    }
    // Schedule signature: the global order of (observer, frame kind) receipts.
    let mut order: Vec<(u64, usize, u8)> = vec![];
    for (c, co) in obs.cons.iter().enumerate() {
        for (t, n) in &co.frames {
            order.push((*t, c, n.kind_id()));
        }
    }
    for (t, r) in &obs.lane.reqs {
        let k = match r {
            Req::Link => 10,
            Req::Sync => 11,
            Req::Unlink => 12,
            Req::Cmd(_) => 13,
            Req::Bad(_) => 14,
        };
        order.push((*t, 99, k));
    }
    order.sort();
    out.sig(&(cfg.kind, cfg.passthrough, cfg.consumers.iter().map(|c| (c.sync, c.keep)).collect::<Vec<_>>()));
    if cfg.badframes {
        out.sig(&cfg.strategy);
        for s in &obs.lane.sent {
            match &s.kind {
                peers::SentKind::BadEvent(b) => {
                    out.sig(b);
                    order.push((s.t0, 98, 15));
                }
                peers::SentKind::BadEnvelope(how) => {
                    out.sig(&how.name());
                    order.push((s.t0, 98, 16));
                }
                _ => {}
            }
        }
        order.sort();
    }
    for (_, who, k) in &order {
        out.sig(&(*who, *k));
    }
    let sum = oracle::check(cfg, script, &obs, out);
    if SELFTEST.load(std::sync::atomic::Ordering::Relaxed) && out.violations.is_empty() && out.inconclusive.is_none() {
        selftest(cfg, script, &obs, out);
    }
    out.events += sum.frames;
    out.add("frames-observed", sum.frames);
    out.add("events-delivered-to-consumers", sum.events_delivered);
    out.nontrivial = (sum.consumers_linked >= 2 || (cfg.faults && sum.consumers_linked >= 1)) && sum.events_delivered >= 1;
    if cfg.badframes {
        // a conversation of the `badframe-*` parts must have got its bad frame to a runtime that serves somebody
        let bad_written = obs.lane.sent.iter().any(|s| matches!(s.kind, peers::SentKind::BadEvent(_) | peers::SentKind::BadEnvelope(_)) && s.t1.is_some());
        out.nontrivial = sum.consumers_linked >= 1 && bad_written;
    }
    if cfg.inactivity {
        // a conversation of the C17 parts must also have come to a verdict about its final idle period
        // (or the runtime had stopped by itself before)
        out.nontrivial = sum.consumers_linked >= 1 && sum.events_delivered >= 1 && obs.final_idle.is_some() && obs.stuck.is_empty();
    }
    if out.verbose {
        eprintln!("{}", serde_json_pretty(&oracle::witness(cfg, script, &obs)));
    }
    out.set_sample(json!({
        "lane": cfg.kind.name(),
        "consumers": cfg.consumers.iter().map(|c| json!({"sync": c.sync, "keep_linked": c.keep, "cap_note": c.cap_note, "cap_cmd": c.cap_cmd})).collect::<Vec<_>>(),
        "socket_caps": [cfg.cap_sock_out, cfg.cap_sock_in],
        "empty_timeout_ms": cfg.timeout_ms,
        "bad_frame_strategy": cfg.strategy.name(),
        "pass_through_runtime": cfg.passthrough,
        "steps": script.len(),
        "end": cfg.end.name(),
        "frames": sum.frames,
    }));
}

static SELFTEST: std::sync::atomic::AtomicBool = std::sync::atomic::AtomicBool::new(false);

/// Oracle self-test (`--selftest 1`): an execution the oracles accepted is perturbed in ways that
/// break one clause of the property each, and the oracle should object with the expected rule. Counts
/// `selftest/<mutation>/detected|missed` (a miss is not necessarily a hole: some mutants are
/// equivalent, e.g. removing one of two identical trailing events, or a last arrival whose
/// predecessor is also the last command of its issuer).
fn selftest(cfg: &Config, script: &[Step], obs: &run::Obs, out: &mut CaseOut) {
    use peers::{Note, Req};
    let settled = obs.runtime_alive_at_q && obs.lane_idle_at_q;
    let mut mutations: Vec<(&str, &str, run::Obs)> = vec![];
    // consumer side: take the consumer with the most events that is still attached
    let pick = (0..obs.cons.len())
        .filter(|c| obs.cons[*c].alive_at_q && settled)
        .max_by_key(|c| obs.cons[*c].frames.iter().filter(|f| matches!(f.1, Note::Event(_))).count());
    if let Some(c) = pick {
        let evs: Vec<usize> = obs.cons[c].frames.iter().enumerate().filter(|(_, f)| matches!(f.1, Note::Event(_))).map(|(i, _)| i).collect();
        let distinct_neighbours = |i: usize, j: usize| obs.cons[c].frames[i].1 != obs.cons[c].frames[j].1;
        if evs.len() >= 3 && distinct_neighbours(evs[0], evs[1]) && distinct_neighbours(evs[1], evs[2]) && distinct_neighbours(evs[0], evs[2]) {
            let mut o = obs.clone();
            o.cons[c].frames.remove(evs[1]);
            o.cons[c].frames_at_q -= 1;
            mutations.push(("event-removed-in-the-middle", "events/", o));
            let mut o = obs.clone();
            let (a, b) = (o.cons[c].frames[evs[0]].1.clone(), o.cons[c].frames[evs[1]].1.clone());
            o.cons[c].frames[evs[0]].1 = b;
            o.cons[c].frames[evs[1]].1 = a;
            mutations.push(("events-swapped", "events/", o));
            let mut o = obs.clone();
            let dup = o.cons[c].frames[evs[1]].clone();
            o.cons[c].frames.insert(evs[1], dup);
            o.cons[c].frames_at_q += 1;
            mutations.push(("event-duplicated", "events/", o));
        }
        if let Some(last) = evs.last() {
            let after_owed = obs.cons[c].frames.iter().position(|f| f.1 == if cfg.consumers[c].sync { Note::Synced } else { Note::Linked });
            if after_owed.map_or(false, |p| p < *last) {
                let mut o = obs.clone();
                o.cons[c].frames.remove(*last);
                o.cons[c].frames_at_q -= 1;
                mutations.push(("last-event-removed", "events/", o));
            }
        }
        if let Some(i) = obs.cons[c].frames.iter().position(|f| f.1 == Note::Synced) {
            let mut o = obs.clone();
            o.cons[c].frames.remove(i);
            o.cons[c].frames_at_q -= 1;
            mutations.push(("synced-removed", "synced-missing/", o));
            if i >= 2 && cfg.kind == LaneKind::Map && matches!(obs.cons[c].frames[i - 1].1, Note::Event(peers::Ev::Upd(..))) {
                // drop one entry of the snapshot: the replica at `synced` is incomplete
                let mut o = obs.clone();
                o.cons[c].frames.remove(i - 1);
                o.cons[c].frames_at_q -= 1;
                mutations.push(("snapshot-entry-removed", "", o));
            }
        }
        if let Some(i) = obs.cons[c].frames.iter().position(|f| f.1 == Note::Linked) {
            let mut o = obs.clone();
            o.cons[c].frames.remove(i);
            o.cons[c].frames_at_q -= 1;
            mutations.push(("linked-removed", "", o));
        }
        if obs.cons[c].frames.last().map_or(false, |f| f.1 == Note::Unlinked) {
            let mut o = obs.clone();
            o.cons[c].frames.pop();
            mutations.push(("unlinked-removed", "unlinked-missing/", o));
        }
    }
    // the link closed before the end action (`faults-*` parts): a served consumer is not told
    // `unlinked`; the runtime keeps running although the link provably closed
    if !obs.runtime_alive_at_q && obs.runtime_panic.is_none() {
        let told = (0..obs.cons.len()).find(|c| {
            let co = &obs.cons[*c];
            co.attach_accepted
                && co.frames_at_q >= 2
                && co.frames_at_q == co.frames.len()
                && co.frames.last().map_or(false, |f| f.1 == Note::Unlinked)
                && matches!(co.end, Some(peers::ReaderEnd::Closed(t)) if t < obs.q)
        });
        if let Some(c) = told {
            let mut o = obs.clone();
            o.cons[c].frames.pop();
            o.cons[c].frames_at_q -= 1;
            mutations.push(("unlinked-removed-after-early-close", "unlinked-missing/", o));
        }
        if obs.lane.writer_closed.is_some() {
            let mut o = obs.clone();
            o.runtime_alive_at_q = true;
            mutations.push(("runtime-kept-running-after-input-closed", "runtime-not-stopped/", o));
        }
    }
    // bad frames: the runtime does the opposite of what its strategy says
    let bad_body_written = obs.lane.sent.iter().any(|s| matches!(s.kind, peers::SentKind::BadEvent(_)) && s.t1.map_or(false, |t| t < obs.q));
    let nothing_else = obs.lane.reader_dropped.is_none() && obs.lane.writer_closed.is_none() && !obs.lane.sent.iter().any(|s| matches!(s.kind, peers::SentKind::BadEnvelope(_)));
    if cfg.kind == LaneKind::Map && bad_body_written && nothing_else && obs.runtime_panic.is_none() && obs.ms_at_q < cfg.timeout_ms {
        if cfg.strategy.aborts() && !obs.runtime_alive_at_q {
            let mut o = obs.clone();
            o.runtime_alive_at_q = true;
            mutations.push(("runtime-kept-running-after-a-bad-frame-it-was-to-abort-on", "badframe/runtime-not-stopped/", o));
        }
        if !cfg.strategy.aborts() && obs.runtime_alive_at_q {
            let mut o = obs.clone();
            o.runtime_alive_at_q = false;
            mutations.push(("runtime-stopped-after-a-bad-frame-it-was-to-ignore", "badframe/stopped-although-ignored/", o));
        }
    }
    // the runtime closes the channel of a served consumer that listens, without `unlinked`, and keeps running
    if let Some(c) = (0..obs.cons.len()).find(|c| obs.cons[*c].alive_at_q && obs.runtime_alive_at_q && obs.cons[*c].frames_at_q >= 1 && obs.cons[*c].frames[obs.cons[*c].frames_at_q - 1].1 != Note::Unlinked) {
        let mut o = obs.clone();
        let n = o.cons[c].frames_at_q;
        o.cons[c].frames.truncate(n);
        o.cons[c].end = Some(peers::ReaderEnd::Closed(obs.q.saturating_sub(1)));
        o.cons[c].alive_at_q = false;
        mutations.push(("channel-of-a-served-consumer-closed-without-unlinked", "session-dropped-without-unlinked/", o));
    }
    // C17: the runtime is still running at the end of a final idle period that was judged
    if let Some(fi) = &obs.final_idle {
        if fi.runtime_alive_before && fi.stopped && fi.events_after_departure >= 2 && obs.stuck.is_empty() {
            let mut o = obs.clone();
            o.runtime_end = None;
            if let Some(f) = o.final_idle.as_mut() {
                f.stopped = false;
            }
            mutations.push(("runtime-kept-running-through-the-final-idle-period", "downlink/idle-runtime-never-stopped/", o));
            // ... or it stopped a little too soon after the last reader was dropped
            if let (Some((te, ms)), Some(last)) = (obs.runtime_end, obs.cons.iter().filter(|c| c.attach_accepted && !c.frames.is_empty()).filter_map(|c| c.reader_drop_ms).max()) {
                if ms >= last + cfg.timeout_ms && last + 1 >= cfg.timeout_ms {
                    let mut o = obs.clone();
                    o.runtime_end = Some((te, last + cfg.timeout_ms - 1));
                    mutations.push(("runtime-stopped-a-millisecond-early", "downlink/stopped-early/", o));
                }
            }
        }
    }
    // socket side
    let cmd_idx: Vec<usize> = obs.lane.reqs.iter().enumerate().filter(|(_, r)| matches!(r.1, Req::Cmd(_))).map(|(i, _)| i).collect();
    if settled && cfg.kind == LaneKind::Value {
        if let Some(last) = cmd_idx.last() {
            let mut o = obs.clone();
            o.lane.reqs.remove(*last);
            mutations.push(("last-arrival-removed", "socket/", o));
        }
        // two arrivals of the same issuer swapped
        'find: for (x, i) in cmd_idx.iter().enumerate() {
            for j in &cmd_idx[x + 1..] {
                if let (Req::Cmd(peers::Cmd::Set(a)), Req::Cmd(peers::Cmd::Set(b))) = (&obs.lane.reqs[*i].1, &obs.lane.reqs[*j].1) {
                    if a >> 32 == b >> 32 {
                        let mut o = obs.clone();
                        let (ra, rb) = (o.lane.reqs[*i].1.clone(), o.lane.reqs[*j].1.clone());
                        o.lane.reqs[*i].1 = rb;
                        o.lane.reqs[*j].1 = ra;
                        mutations.push(("arrivals-of-one-consumer-swapped", "socket/", o));
                        break 'find;
                    }
                }
            }
        }
        if let Some(first) = cmd_idx.first() {
            let mut o = obs.clone();
            let dup = o.lane.reqs[*first].clone();
            o.lane.reqs.insert(*first, dup);
            mutations.push(("arrival-duplicated", "socket/", o));
        }
    }
    if settled && cfg.kind == LaneKind::Map && !cfg.lane_bulk {
        // the lane "forgets" the last update that arrived: final state differs from all commands
        if let Some(i) = cmd_idx.iter().rev().find(|i| matches!(obs.lane.reqs[**i].1, Req::Cmd(peers::Cmd::Upd(..)))) {
            if let Req::Cmd(peers::Cmd::Upd(k, v)) = &obs.lane.reqs[*i].1 {
                let mut o = obs.clone();
                let last = o.lane.hist.len() - 1;
                let mut applies = false;
                if let peers::St::M(m) = &mut o.lane.hist[last].1 {
                    if m.get(k) == Some(v) {
                        m.remove(k);
                        applies = true;
                    }
                }
                let nobody_else_clears = cfg.clearer.map_or(true, |cl| script::key_owner(*k) == Some(cl) || !obs.cons[cl].cmds.iter().any(|r| r.cmd == peers::Cmd::Clear));
                let all_written = script::key_owner(*k).map_or(false, |c| c < obs.cons.len() && obs.cons[c].cmds.iter().all(|r| r.t1.is_some()));
                if applies && nobody_else_clears && all_written {
                    mutations.push(("final-state-entry-lost", "socket/map/final-state", o));
                }
            }
        }
        // an update arrives twice
        if let Some(i) = cmd_idx.iter().find(|i| matches!(obs.lane.reqs[**i].1, Req::Cmd(peers::Cmd::Upd(..)))) {
            let mut o = obs.clone();
            let dup = o.lane.reqs[*i].clone();
            o.lane.reqs.insert(*i, dup);
            mutations.push(("update-arrival-duplicated", "socket/map/duplicated", o));
        }
    }
    for (name, expect, o) in mutations {
        let mut probe = oracle::Probe::default();
        oracle::check(cfg, script, &o, &mut probe);
        if probe.signatures.iter().any(|s| s.starts_with(expect)) {
            out.count(&format!("selftest/{name}/detected"));
        } else {
            out.count(&format!("selftest/{name}/missed"));
            out.log(|| format!("oracle self-test: mutation `{name}` was not objected to (got {:?})", probe.signatures));
        }
    }
}

fn serde_json_pretty(j: &common::Json) -> String {
    // `common` re-exports the value type only; its Display with `{:#}` is the pretty form.
    format!("{j:#}")
}

fn random_part(s: &mut Session, name: &str, kind: LaneKind, cases: u64) {
    s.part(
        name,
        "seeded conversation of <= 80 steps: 1-4 consumers (all SYNC/KEEP_LINKED combinations) attach at scripted points, commands, spontaneous lane changes, stalls, pacing, drops, lane frame budget; channel capacities 4..4096; non-trivial when >= 2 consumers were linked and >= 1 event was delivered; distinct by the global order of (observer, frame kind) receipts; on a map lane every fourth conversation runs through the pass-through variant of the runtime (NoInterpretation, bodies handed on as the lane wrote them)",
        false,
        cases,
        |_i, rng, out| {
            let (cfg, script) = {
                let mut g = Gen::new(rng);
                let mut cfg = g.config(kind);
                cfg.passthrough = passthrough_share(kind, _i);
                let script = g.script(&cfg, MAX_OPS);
                (cfg, script)
            };
            run_script(&cfg, &script, rng, out);
        },
    );
}

/// Every fourth conversation of the random map parts runs through the pass-through variant of the map
/// runtime (`NoInterpretation`); decided by the case index, so that the generated conversations are
/// what they were.
fn passthrough_share(kind: LaneKind, case: u64) -> bool {
    kind == LaneKind::Map && case % 4 == 3
}

fn fault_part(s: &mut Session, name: &str, kind: LaneKind, cases: u64) {
    s.part(
        name,
        "seeded conversation of <= 120 steps as in the parts `value` / `map`, with a finite empty_timeout (20 / 60 / 300 ms of virtual time), virtual-time steps (a third of the timeout ... three timeouts), lane-side faults (the lane drops its reader of the runtime's output and keeps its writer, alone or followed by commands with quiet points; the lane closes its writer and keeps reading) and the pattern `everybody leaves while a write is pending - events - the timeout passes - events - a new consumer attaches - events spaced by less than the timeout`; a socket too small for one request frame half of the time; the link may close before the end action: then every served consumer must have been told `unlinked`, a runtime whose link provably closed must have terminated, and the runtime must not stop by inactivity while it serves a consumer; non-trivial when >= 1 consumer was linked and >= 1 event was delivered; counters `fault/*`, `inactivity/*`; distinct by the global order of (observer, frame kind) receipts; on a map lane every fourth conversation runs through the pass-through variant of the runtime (NoInterpretation, bodies handed on as the lane wrote them)",
        false,
        cases,
        |_i, rng, out| {
            let (cfg, script) = {
                let mut g = Gen::new(rng);
                let mut cfg = g.fault_config(kind);
                cfg.passthrough = passthrough_share(kind, _i);
                let script = g.script(&cfg, MAX_FAULT_OPS);
                (cfg, script)
            };
            run_script(&cfg, &script, rng, out);
        },
    );
}

const MAX_FAULT_OPS: usize = 120;

fn inactivity_part(s: &mut Session, name: &str, kind: LaneKind, cases: u64) {
    s.part(
        name,
        "seeded conversation of <= 120 steps, empty_timeout 20 / 60 ms of virtual time, no lane-side faults: three to six consumers (all SYNC/KEEP_LINKED combinations, paced and tiny channels in half of the conversations) attach one after the other, sometimes two at a time; each leaves with both halves at once or half by half (up to a timeout apart); after a departure the lane sends 0-3 events with a quiet point after each (two make the read task see the departure, the write task sees it at once) and a gap passes that is well below / 1-3 ms below / at / 1-3 ms above / well above the timeout before the next consumer attaches; now and then the write task is parked on a write to a lane that is not reading when its consumer leaves. Every conversation ends with the final idle period: every brake released, everybody leaves, three lane events with a quiet point after each, then nothing for five timeouts. Rules (C17): the runtime has terminated by itself at the end of the final idle period; it never stops for inactivity while a served consumer listens, nor less than one timeout after a served consumer was attached / its reader left / its command writer left (virtual instants, work in the very instant of the stop skipped). The C07 oracles run as well. Counters `c17/*`; non-trivial when a consumer was linked, an event delivered and the final idle period reached; distinct by the global order of (observer, frame kind) receipts; on a map lane every fourth conversation runs through the pass-through variant of the runtime (NoInterpretation, bodies handed on as the lane wrote them)",
        false,
        cases,
        |_i, rng, out| {
            let (cfg, script) = {
                let mut g = Gen::new(rng);
                let mut cfg = g.inactivity_config(kind);
                cfg.passthrough = passthrough_share(kind, _i);
                let script = g.inactivity_script(&cfg, MAX_FAULT_OPS);
                (cfg, script)
            };
            run_script(&cfg, &script, rng, out);
        },
    );
}

fn inactivity_parts(s: &mut Session) {
    s.part(
        "inactivity-directed",
        "seven short scenarios x lane kind x options of two consumers x empty_timeout 20 / 60 ms x 5 variants, each ending with the final idle period (everybody has left, three lane events, nothing for five timeouts => the runtime must have terminated by itself): (1) A leaves, the lane is silent, B arrives 1 ms .. 3 timeouts after the write task's lone vote, B leaves; (2) A leaves, two lane events tell the read task 2 ms later, B arrives 1 ms before both votes / at the first / between the two / at the second / after the stop; (3) B arrives less than a timeout after A left; (4) A's reader leaves, its command writer a timeout later; (5) A's command writer closes, A listens for two more timeouts and must be served; (6) nobody ever attaches; (7) three consumers one after the other, each arriving while only the write task's vote is outstanding; counters `c17/*`; distinct by the global order of receipts",
        false,
        // (`--scale` below 1 runs a prefix of the grid: lane kind and scenario vary fastest)
        s.args.budget(script::INACTIVITY_CASES, script::INACTIVITY_CASES).min(script::INACTIVITY_CASES),
        |i, rng, out| {
            let (cfg, script, name) = script::inactivity_case(i);
            out.count(&format!("scenario-{name}"));
            run_script(&cfg, &script, rng, out);
        },
    );
    if s.args.extra_u64("witness").unwrap_or(0) > 0 {
        s.part(
            "inactivity-witness",
            "minimal witness of `downlink/idle-runtime-never-stopped/value/departed-consumer-never-synced` (see script.rs) x lane kind x 64 repetitions (the outcome depends on the read task's unbiased choice between its inputs); only with `--witness 1`",
            false,
            script::WITNESS_CASES,
            |i, rng, out| {
                let (cfg, script) = script::inactivity_witness_case(i);
                run_script(&cfg, &script, rng, out);
            },
        );
    }
    s.part(
        "inactivity-extras-directed",
        "five short scenarios x lane kind x empty_timeout 20 / 60 ms x 5 variants, each ending with the final idle period: (1) two consumers leave and the lane sends five events of 3 KB back to back - the read task finds both gone while it feeds them the fourth, its lists empty and its timer starts in that turn - then a third consumer arrives 2 ms before ... a timeout after; (2) one of three leaves and is found gone that way, the other two only listen and must be served for two more timeouts; (3) map runtime with a strategy that ignores bad frames: an event whose body is not a map message arrives while nobody is attached (timer running / vote cast), later a consumer comes and goes; (4) the same with a strategy that aborts: the runtime stops at once, which is not a stop for inactivity; (5) bytes that are not an envelope. Rules as in `inactivity-directed`; counters `c17/*`, `badframe/*`, `feed-failure/*`",
        false,
        script::INACTIVITY_EXTRA_CASES,
        |i, rng, out| {
            let (cfg, script, name) = script::inactivity_extra_case(i);
            out.count(&format!("scenario-{name}"));
            run_script(&cfg, &script, rng, out);
        },
    );
    let cases = s.args.budget(60_000, 1_500_000);
    inactivity_part(s, "inactivity-value", LaneKind::Value, cases);
    let cases = s.args.budget(60_000, 1_500_000);
    inactivity_part(s, "inactivity-map", LaneKind::Map, cases);
}

fn main() {
    let mut s = Session::new("dlrt");
    if s.args.extra_u64("selftest").unwrap_or(0) > 0 {
        SELFTEST.store(true, std::sync::atomic::Ordering::Relaxed);
        s.note("oracle self-test enabled: accepted executions are perturbed and re-judged");
    }

    if s.prop() == "C17" {
        inactivity_parts(&mut s);
        s.finish()
    }

    s.part(
        "join-grid",
        "every (lane kind, options of A, options of B, phase of A's session at which B attaches, channel size, lane change in between): two consumers, lane frame budget pins the phase; distinct by the global order of receipts",
        true,
        script::GRID_CASES,
        |i, rng, out| {
            let (cfg, script, phase) = script::grid_case(i);
            out.count(&format!("phase-{phase:?}"));
            run_script(&cfg, &script, rng, out);
        },
    );

    s.part(
        "directed",
        "two short scenarios (a consumer joins while the read task lags behind a stalled consumer; a consumer joins while a write to a non-reading lane is pending and the command channels then close) x lane kind x 48 repetitions (the first depends on the read task's unbiased choice between its inputs); distinct by the global order of receipts",
        false,
        script::DIRECTED_CASES,
        |i, rng, out| {
            let (cfg, script, name) = script::directed_case(i);
            out.count(&format!("scenario-{name}"));
            run_script(&cfg, &script, rng, out);
        },
    );

    let cases = s.args.budget(100_000, 2_000_000);
    random_part(&mut s, "value", LaneKind::Value, cases);
    let cases = s.args.budget(100_000, 2_000_000);
    random_part(&mut s, "map", LaneKind::Map, cases);

    s.part(
        "faults-directed",
        "six short scenarios x lane kind x options of two consumers x 3 variants, empty_timeout 100 ms of virtual time: (1) the lane drops its reader of the runtime's output, its writer stays open, then two commands with a quiet point after each => the runtime must terminate and every consumer be told `unlinked`; (2) the lane closes its writer and keeps reading => the same; (3-5) the only consumer leaves while a write to a lane that is not reading is pending (socket of 4 bytes: the write task cannot time out), two events let the read task notice, the timeout passes, another event, a new consumer attaches, events follow spaced by a quarter of the timeout (3: write still pending; 4: the lane reads again and answers the newcomer's sync at once; 5: the newcomer's command channel closes and the lane reads again, two timeouts pass) => the newcomer gets every event in order / its `synced`, and the runtime does not stop while it listens; (6) everybody leaves and the runtime times out (or not quite); counters `fault/*`, `inactivity/*` say how often the branches were reached; distinct by the global order of receipts",
        false,
        script::FAULT_CASES,
        |i, rng, out| {
            let (cfg, script, name) = script::fault_case(i);
            out.count(&format!("scenario-{name}"));
            run_script(&cfg, &script, rng, out);
        },
    );
    let cases = s.args.budget(60_000, 1_500_000);
    fault_part(&mut s, "faults-value", LaneKind::Value, cases);
    let cases = s.args.budget(60_000, 1_500_000);
    fault_part(&mut s, "faults-map", LaneKind::Map, cases);

    extension_parts(&mut s);

    s.finish()
}

/// Parts added for code no other part runs (coverage measurement, ranked gaps 11 and 12).
fn extension_parts(s: &mut Session) {
    s.part(
        "join-grid-passthrough",
        "the map half of `join-grid` through `MapDownlinkRuntime::with_interpretation(.., NoInterpretation)` (event bodies reach the consumers as the lane wrote them, and are read as such), and once more with a third consumer that joins late with SYNC after a removal and two updates; the C07 oracles unchanged (`synced` with a replica - fold of the bodies received - that the lane held, every event in order, late joiners brought up to date, `unlinked` at the end); counters `passthrough/*`; distinct by the global order of receipts",
        true,
        script::PASSTHROUGH_GRID_CASES,
        |i, rng, out| {
            let (cfg, script, phase) = script::passthrough_grid_case(i);
            out.count(&format!("phase-{phase:?}"));
            run_script(&cfg, &script, rng, out);
        },
    );
    s.part(
        "badframe-directed",
        "every (lane kind; frame fault: 12 event bodies that are not map messages [map] or 4 envelope faults - a request tag, `linked` announcing a body, a node name that is not UTF-8, a strict prefix of a frame followed by the end of the stream; strategy of the map runtime: always-abort, report(always-abort), the same boxed, always-ignore, boxed report(always-ignore); point of a two-consumer conversation: established / behind the link answer while a consumer joins / nobody attached / before a late joiner / back to back with events while a consumer is stalled; 8 option combinations). Rules: `badframe/*` and the C07 oracles (abort: the runtime terminates and every served consumer is told `unlinked`, nothing after it; ignore: nobody is unlinked and the well-formed events are delivered completely and in order, `synced` states consistent; no consumer receives an event the lane did not send; envelope faults: grammar, events so far, `unlinked` if the runtime stops - whether it does is counted). Non-trivial when a consumer was linked and the bad frame completely written; distinct by the global order of receipts",
        true,
        s.args.budget(script::BADFRAME_CASES, script::BADFRAME_CASES).min(script::BADFRAME_CASES),
        |i, rng, out| {
            let (cfg, script, name) = script::badframe_case(i);
            out.count(&format!("position-{name}"));
            run_script(&cfg, &script, rng, out);
        },
    );
    for (name, kind, quick, thorough) in [("badframe-map", LaneKind::Map, 12_000, 400_000), ("badframe-value", LaneKind::Value, 4_000, 100_000)] {
        let cases = s.args.budget(quick, thorough);
        s.part(
            name,
            "seeded conversation as in the parts `value` / `map`, map runtime with one of the five strategies, in which the lane emits one frame that is not what a lane emits (map: an event body that is not a map message, three times in four, up to three of them when the strategy ignores them; otherwise an envelope fault) at a random point after a consumer attached; rules as in `badframe-directed`; non-trivial when a consumer was linked and the bad frame completely written; counters `badframe/*`",
            false,
            cases,
            |_i, rng, out| {
                let (cfg, script) = {
                    let mut g = Gen::new(rng);
                    let cfg = g.badframe_config(kind);
                    let script = g.script(&cfg, MAX_OPS);
                    (cfg, script)
                };
                run_script(&cfg, &script, rng, out);
            },
        );
    }
    s.part(
        "feed-failure-directed",
        "lane kind x 3 / 4 consumers (notification channels of 64 KiB / 2 KiB) x the one that stops listening is the first / the second / the last to have attached x 4 option patterns x 4 variants: it drops its reader (says nothing) and the lane sends a burst of 5-6 events of 3 KB each with nothing in between / it leaves in the middle of such a burst / two leave, a burst after each / it leaves while the read task waits for a stalled consumer and the burst piles up in the socket. The read task finds the events back to back, flushes nobody in between, and learns that the consumer has gone while it feeds it the event that follows the first 8 KiB (`send_current`, removal by index). The C07 oracles: everybody else receives every event of the burst and everything after it, in order, and nobody's channel is closed without `unlinked`. Counters `feed-failure/*`; distinct by the global order of receipts",
        true,
        script::FEED_FAILURE_CASES,
        |i, rng, out| {
            let (cfg, script, name) = script::feed_failure_case(i);
            out.count(&format!("variant-{name}"));
            run_script(&cfg, &script, rng, out);
        },
    );
    for (name, kind) in [("feed-failure-value", LaneKind::Value), ("feed-failure-map", LaneKind::Map)] {
        let cases = s.args.budget(1_500, 60_000);
        s.part(
            name,
            "seeded conversation as in the parts `value` / `map` with 3-4 consumers and a socket of 64 KiB, in which now and then a consumer stops listening and the lane sends a burst of 2-6 events padded to 1.5 - 9 KB with nothing in between; the C07 oracles; counters `feed-failure/*`",
            false,
            cases,
            |_i, rng, out| {
                let (cfg, script) = {
                    let mut g = Gen::new(rng);
                    let mut cfg = g.burst_config(kind);
                    cfg.passthrough = passthrough_share(kind, _i);
                    let script = g.script(&cfg, MAX_OPS);
                    (cfg, script)
                };
                run_script(&cfg, &script, rng, out);
            },
        );
    }
}
