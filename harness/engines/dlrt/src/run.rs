//! Executes one scripted conversation against the real `ValueDownlinkRuntime` / `MapDownlinkRuntime`
//! on a current-thread Tokio runtime with a paused clock and returns everything the monitors saw.
//!
//! The driver never blocks on the system under test: every step is a non-blocking hand-over to a
//! peer task (or a flag), and "quiescent" is a 1 ms virtual sleep, which only returns once no task
//! is runnable.

use std::num::NonZeroUsize;
use std::sync::Arc;
use std::time::Duration;

use common::jitter::Jitter;
use common::{ticket, Rng};
use parking_lot::Mutex;
use swimos_api::address::RelativeAddress;
use swimos_runtime::downlink::failure::{AlwaysAbortStrategy, AlwaysIgnoreStrategy, ReportStrategy};
use swimos_runtime::downlink::{
    AttachAction, DownlinkOptions, DownlinkRuntimeConfig, IdentifiedAddress, MapDownlinkRuntime, NoInterpretation, ValueDownlinkRuntime,
};
use swimos_utilities::byte_channel::byte_channel;
use swimos_utilities::trigger;
use tokio::sync::{mpsc, Notify};
use tokio::task::JoinHandle;
use uuid::Uuid;

use crate::peers::{
    consumer_reader, consumer_writer, lane_task, new_ctl, new_lane_log, set_stalled, CmdRec, ConsLog, Gate, LaneKind, LaneLog, LaneOp,
    Note, PacedReader, ReaderEnd, SharedCons, SharedCtl, SharedLane, SharedWriter, WOp, WriterLog, FAST, LANE, NODE,
};
use crate::script::{Config, EndKind, Step, Strategy};

fn nz(n: usize) -> NonZeroUsize {
    NonZeroUsize::new(n.max(1)).unwrap()
}

async fn settle() {
    // Paused clock: returns only when every other task is idle (virtual time advances only then).
    tokio::time::sleep(Duration::from_millis(1)).await;
}

fn panic_text(e: tokio::task::JoinError) -> String {
    let p = e.into_panic();
    if let Some(s) = p.downcast_ref::<&str>() {
        s.to_string()
    } else if let Some(s) = p.downcast_ref::<String>() {
        s.clone()
    } else {
        "non-string panic payload".to_string()
    }
}

/// What was observed of one consumer.
#[derive(Clone)]
pub struct ConsObs {
    /// Ticket drawn before the attach request was handed to the runtime (`None`: never attached).
    pub t_att: Option<u64>,
    /// The runtime's attachment channel accepted the request.
    pub attach_accepted: bool,
    pub frames: Vec<(u64, Note)>,
    pub end: Option<ReaderEnd>,
    pub cmds: Vec<CmdRec>,
    pub writer_end: Option<(u64, &'static str)>,
    /// The reader was attached, not dropped and not closed at the quiescent point.
    pub alive_at_q: bool,
    /// Frames received up to the quiescent point.
    pub frames_at_q: usize,
    /// If nobody was listening (in the harness' view: attached, reader not dropped) when this consumer
    /// attached: for how many virtual milliseconds that had been so.
    pub idle_ms_before_attach: Option<u64>,
    /// A `Stall` step was applied to this consumer's reader at some point (only a stalled reader
    /// leaves frames that are available unread while virtual time passes).
    pub ever_stalled: bool,
    /// Virtual milliseconds at the script step that attached the consumer / made the harness drop its
    /// reader / drop or close its command writer (the halves really go at that instant or later).
    pub att_ms: u64,
    pub reader_drop_ms: Option<u64>,
    pub writer_gone_ms: Option<u64>,
}

/// The final idle period of a conversation that ends with `EndKind::FinalIdle`.
#[derive(Clone, Debug)]
pub struct FinalIdle {
    /// The runtime task had not terminated when the last consumer was made to leave.
    pub runtime_alive_before: bool,
    /// Events the lane sent (completely) after everybody had left, each followed by a quiet point.
    pub events_after_departure: usize,
    /// Virtual milliseconds at which the period of nothing at all began / ended.
    pub from_ms: u64,
    pub until_ms: u64,
    /// Ticket at the end of the period.
    pub t_end: u64,
    /// The runtime task had terminated by itself at the end of the period.
    pub stopped: bool,
}

#[derive(Clone)]
pub struct Obs {
    pub cons: Vec<ConsObs>,
    pub lane: LaneLog,
    /// Ticket of the quiescent point: every reader unstalled and drained, before the end action.
    pub q: u64,
    pub runtime_alive_at_q: bool,
    /// The lane had handled everything handed to it at the quiescent point.
    pub lane_idle_at_q: bool,
    /// Number of requests the lane had received at the quiescent point.
    pub runtime_finished: bool,
    pub stuck: Vec<String>,
    /// Panic messages of the runtime task / of harness tasks (Tokio catches them per task).
    pub runtime_panic: Option<String>,
    pub harness_panics: Vec<String>,
    /// (ticket, virtual milliseconds since the start) after every `Settle` / `Advance` of the script.
    pub quiet: Vec<(u64, u64)>,
    /// Virtual milliseconds since the start at the quiescent point.
    pub ms_at_q: u64,
    /// (ticket, virtual milliseconds) at which the runtime's `run` future completed by itself (never set
    /// when the harness aborts the task).
    pub runtime_end: Option<(u64, u64)>,
    pub final_idle: Option<FinalIdle>,
}

struct Live {
    ctl: SharedCtl,
    log: SharedCons,
    wlog: SharedWriter,
    drop_signal: Arc<Notify>,
    reader: JoinHandle<()>,
    writer: JoinHandle<()>,
    wtx: Option<mpsc::UnboundedSender<WOp>>,
    t_att: u64,
    accepted: bool,
    idle_ms_before_attach: Option<u64>,
    /// The harness has not dropped the reader.
    listening: bool,
    ever_stalled: bool,
    att_ms: u64,
    reader_drop_ms: Option<u64>,
    writer_gone_ms: Option<u64>,
}

impl Live {
    fn drop_reader(&mut self) {
        self.drop_signal.notify_one();
    }

    fn drop_writer(&mut self) {
        if self.wlog.lock().end.is_none() {
            self.writer.abort();
            self.wlog.lock().end = Some((ticket(), "aborted"));
        }
        self.wtx = None;
    }
}

pub fn run_case(cfg: &Config, script: &[Step], rng: &mut Rng) -> Obs {
    let rt = tokio::runtime::Builder::new_current_thread().enable_time().start_paused(true).build().expect("tokio runtime");
    let mut rng = rng.fork();
    let cfg = cfg.clone();
    rt.block_on(async move {
        let kind = cfg.kind;
        let (att_tx, att_rx) = mpsc::channel::<AttachAction>(64);
        // runtime -> lane (requests) and lane -> runtime (responses)
        let (req_tx, req_rx) = byte_channel(nz(cfg.cap_sock_out));
        let (resp_tx, resp_rx) = byte_channel(nz(cfg.cap_sock_in));
        let (stop_tx, stop_rx) = trigger::trigger();
        let address = IdentifiedAddress { identity: Uuid::from_u128(0xD0), address: RelativeAddress::text(NODE, LANE) };
        let config = DownlinkRuntimeConfig {
            empty_timeout: Duration::from_millis(cfg.timeout_ms),
            attachment_queue_size: nz(cfg.att_queue),
            abort_on_bad_frames: true,
            remote_buffer_size: nz(cfg.cap_sock_out),
            downlink_buffer_size: nz(4096),
        };
        let jr = rng.fork();
        let start = tokio::time::Instant::now();
        let now_ms = move || start.elapsed().as_millis() as u64;
        // Set by the runtime's own task when `run` returns: the virtual instant at which it stopped.
        let runtime_end: Arc<Mutex<Option<(u64, u64)>>> = Arc::new(Mutex::new(None));
        let re = runtime_end.clone();
        let runtime: JoinHandle<()> = match kind {
            LaneKind::Value => {
                let r = ValueDownlinkRuntime::new(att_rx, (req_tx, resp_rx), stop_rx, address, config);
                let run = async move {
                    r.run().await;
                    *re.lock() = Some((ticket(), now_ms()));
                };
                tokio::spawn(Jitter::new(run, jr, cfg.jitter))
            }
            LaneKind::Map => {
                // (one arm runs; each builds the runtime with a `BadFrameStrategy` of a different type)
                macro_rules! spawn_map {
                    ($strategy:expr) => {{
                        let r = MapDownlinkRuntime::new(att_rx, (req_tx, resp_rx), stop_rx, address, config, $strategy);
                        let run = async move {
                            r.run().await;
                            *re.lock() = Some((ticket(), now_ms()));
                        };
                        tokio::spawn(Jitter::new(run, jr, cfg.jitter))
                    }};
                }
                // the pass-through variant (its interpretation cannot fail: the strategy is never asked)
                macro_rules! spawn_passthrough {
                    ($strategy:expr) => {{
                        let r = MapDownlinkRuntime::with_interpretation(att_rx, (req_tx, resp_rx), stop_rx, address, config, $strategy, NoInterpretation);
                        let run = async move {
                            r.run().await;
                            *re.lock() = Some((ticket(), now_ms()));
                        };
                        tokio::spawn(Jitter::new(run, jr, cfg.jitter))
                    }};
                }
                match cfg.strategy {
                    _ if cfg.passthrough && cfg.consumers.len() % 2 == 0 => spawn_passthrough!(AlwaysAbortStrategy),
                    _ if cfg.passthrough => spawn_passthrough!(AlwaysIgnoreStrategy),
                    Strategy::Abort => spawn_map!(AlwaysAbortStrategy),
                    Strategy::ReportAbort => spawn_map!(ReportStrategy::new(AlwaysAbortStrategy)),
                    Strategy::BoxedReportAbort => spawn_map!(ReportStrategy::new(AlwaysAbortStrategy).boxed()),
                    Strategy::Ignore => spawn_map!(AlwaysIgnoreStrategy),
                    Strategy::BoxedReportIgnore => spawn_map!(ReportStrategy::new(AlwaysIgnoreStrategy).boxed()),
                }
            }
        };

        let lane_log: SharedLane = new_lane_log(&cfg.init);
        let lane_ctl = new_ctl(cfg.lane_pace);
        let gate = Gate::new();
        let (lane_tx, lane_rx) = mpsc::unbounded_channel();
        let lane_reader = PacedReader::new(req_rx, lane_ctl.clone(), rng.fork());
        let lane = tokio::spawn(Jitter::new(
            lane_task(kind, lane_reader, resp_tx, lane_rx, gate.clone(), lane_log.clone(), cfg.init.clone(), rng.fork()),
            rng.fork(),
            cfg.jitter,
        ));
        let lane_op = |op: LaneOp| {
            lane_log.lock().pending_ops += 1;
            let _ = lane_tx.send(op);
        };

        let n = cfg.consumers.len();
        let mut live: Vec<Option<Live>> = (0..n).map(|_| None).collect();
        let mut stuck: Vec<String> = vec![];
        let mut quiet: Vec<(u64, u64)> = vec![];
        // Since when nobody has been listening (harness' view).
        let mut idle_since: Option<u64> = Some(0);

        for step in script {
            match step {
                Step::Attach(c) => {
                    if live[*c].is_some() {
                        continue;
                    }
                    let cc = &cfg.consumers[*c];
                    let (note_tx, note_rx) = byte_channel(nz(cc.cap_note));
                    let (cmd_tx, cmd_rx) = byte_channel(nz(cc.cap_cmd));
                    let ctl = new_ctl(cc.pace);
                    let log: SharedCons = Arc::new(Mutex::new(ConsLog::default()));
                    let wlog: SharedWriter = Arc::new(Mutex::new(WriterLog::default()));
                    let drop_signal = Arc::new(Notify::new());
                    let reader = tokio::spawn(Jitter::new(
                        consumer_reader(kind, cfg.passthrough, PacedReader::new(note_rx, ctl.clone(), rng.fork()), log.clone(), drop_signal.clone()),
                        rng.fork(),
                        cfg.jitter,
                    ));
                    let (wtx, wrx) = mpsc::unbounded_channel();
                    let writer = tokio::spawn(consumer_writer(cmd_tx, wrx, wlog.clone()));
                    let mut options = DownlinkOptions::empty();
                    if cc.sync {
                        options |= DownlinkOptions::SYNC;
                    }
                    if cc.keep {
                        options |= DownlinkOptions::KEEP_LINKED;
                    }
                    let t_att = ticket();
                    let accepted = att_tx.try_send(AttachAction::new((note_tx, cmd_rx), options)).is_ok();
                    let idle_ms_before_attach = idle_since.map(|t| now_ms().saturating_sub(t));
                    if accepted {
                        idle_since = None;
                    }
                    live[*c] = Some(Live {
                        ctl,
                        log,
                        wlog,
                        drop_signal,
                        reader,
                        writer,
                        wtx: Some(wtx),
                        t_att,
                        accepted,
                        idle_ms_before_attach,
                        listening: accepted,
                        ever_stalled: false,
                        att_ms: now_ms(),
                        reader_drop_ms: None,
                        writer_gone_ms: None,
                    });
                }
                Step::Cmd(c, cmd) => {
                    if let Some(l) = live[*c].as_mut() {
                        if let Some(wtx) = l.wtx.as_ref() {
                            let i = {
                                let mut g = l.wlog.lock();
                                g.cmds.push(CmdRec { t0: ticket(), t1: None, cmd: cmd.clone() });
                                g.cmds.len() - 1
                            };
                            let _ = wtx.send(WOp::Send(i));
                        }
                    }
                }
                Step::LaneApply(ev) => lane_op(LaneOp::Apply(ev.clone())),
                Step::LaneApplyPadded(ev, pad) => lane_op(LaneOp::ApplyPadded(ev.clone(), *pad)),
                Step::LaneBadEvent(body) => lane_op(LaneOp::BadEvent(body.clone())),
                Step::LaneBadEnvelope(how) => lane_op(LaneOp::BadEnvelope(*how)),
                Step::Stall(c) => {
                    if let Some(l) = live[*c].as_mut() {
                        set_stalled(&l.ctl, true);
                        l.ever_stalled = true;
                    }
                }
                Step::Unstall(c) => {
                    if let Some(l) = live[*c].as_ref() {
                        set_stalled(&l.ctl, false);
                    }
                }
                Step::SetPace(c, p) => {
                    if let Some(l) = live[*c].as_ref() {
                        l.ctl.lock().pace = *p;
                    }
                }
                Step::DropReader(c) => {
                    if let Some(l) = live[*c].as_mut() {
                        l.drop_reader();
                        l.reader_drop_ms.get_or_insert(now_ms());
                    }
                }
                Step::DropWriter(c) => {
                    if let Some(l) = live[*c].as_mut() {
                        l.drop_writer();
                        l.writer_gone_ms.get_or_insert(now_ms());
                    }
                }
                Step::CloseWriter(c) => {
                    if let Some(l) = live[*c].as_mut() {
                        if let Some(wtx) = l.wtx.take() {
                            let _ = wtx.send(WOp::Close);
                            l.writer_gone_ms.get_or_insert(now_ms());
                        }
                    }
                }
                Step::DropBoth(c) => {
                    if let Some(l) = live[*c].as_mut() {
                        l.drop_reader();
                        l.drop_writer();
                        l.reader_drop_ms.get_or_insert(now_ms());
                        l.writer_gone_ms.get_or_insert(now_ms());
                    }
                }
                Step::DropMidFrame(c, cmd, per_mille) => {
                    if let Some(l) = live[*c].as_mut() {
                        if let Some(wtx) = l.wtx.take() {
                            let _ = wtx.send(WOp::Partial(cmd.clone(), *per_mille));
                            l.writer_gone_ms.get_or_insert(now_ms());
                        }
                    }
                }
                Step::LaneStallRead => set_stalled(&lane_ctl, true),
                Step::LaneUnstallRead => set_stalled(&lane_ctl, false),
                Step::LaneBudget(b) => gate.set(*b),
                Step::LaneDropReader => lane_op(LaneOp::DropReader),
                Step::LaneCloseWriter => lane_op(LaneOp::CloseWriter),
                Step::Advance(ms) => {
                    tokio::time::sleep(Duration::from_millis(*ms)).await;
                    quiet.push((ticket(), now_ms()));
                }
                Step::Yield(k) => {
                    for _ in 0..*k {
                        tokio::task::yield_now().await;
                    }
                }
                Step::Settle => {
                    settle().await;
                    quiet.push((ticket(), now_ms()));
                }
            }
            if matches!(step, Step::DropReader(_) | Step::DropBoth(_)) {
                let (Step::DropReader(c) | Step::DropBoth(c)) = step else { continue };
                if let Some(l) = live[*c].as_mut() {
                    l.listening = false;
                }
                if idle_since.is_none() && live.iter().flatten().all(|l| !l.listening) {
                    idle_since = Some(now_ms());
                }
            }
        }

        // Epilogue 1: release every brake, let everything drain.
        gate.set(None);
        set_stalled(&lane_ctl, false);
        lane_ctl.lock().pace = FAST;
        for l in live.iter().flatten() {
            set_stalled(&l.ctl, false);
            l.ctl.lock().pace = FAST;
        }
        settle().await;
        settle().await;
        let q = ticket();
        let ms_at_q = now_ms();
        let runtime_alive_at_q = !runtime.is_finished();
        let lane_idle_at_q = {
            let g = lane_log.lock();
            g.pending_ops == 0 && !g.busy && g.sent.iter().all(|s| s.t1.is_some()) && g.write_failed.is_none()
        };
        let alive: Vec<(bool, usize)> = live
            .iter()
            .map(|l| match l {
                Some(l) => {
                    let g = l.log.lock();
                    (l.accepted && g.end.is_none(), g.frames.len())
                }
                None => (false, 0),
            })
            .collect();
        for (c, l) in live.iter().enumerate() {
            if let Some(l) = l {
                let g = l.wlog.lock();
                if runtime_alive_at_q && g.end.is_none() && g.cmds.iter().any(|r| r.t1.is_none()) {
                    stuck.push(format!("consumer {c} still has unwritten commands at the quiescent point"));
                }
            }
        }
        if runtime_alive_at_q && !lane_idle_at_q {
            stuck.push("the lane is still busy at the quiescent point".to_string());
        }

        // Epilogue 2: how the link ends.
        let mut runtime = Some(runtime);
        let mut runtime_finished = !runtime_alive_at_q;
        match cfg.end {
            EndKind::LaneUnlinked => lane_op(LaneOp::Unlinked),
            EndKind::SocketClosed => lane_op(LaneOp::Close),
            EndKind::StopTrigger => {
                stop_tx.trigger();
            }
            EndKind::AllLeave => {
                for l in live.iter_mut().flatten() {
                    l.drop_reader();
                    l.drop_writer();
                    l.reader_drop_ms.get_or_insert(now_ms());
                    l.writer_gone_ms.get_or_insert(now_ms());
                }
            }
            EndKind::Nothing | EndKind::FinalIdle => {}
        }
        let mut final_idle = None;
        if cfg.end == EndKind::FinalIdle {
            // Everybody leaves (both halves). The write task sees the end of every command stream at
            // once; the read task only when forwarding fails: the first event is buffered and its
            // flush fails, the second lets the read task look at that result and start its timer (a
            // third for good measure). Then nothing at all for five timeouts.
            let runtime_alive_before = runtime.as_ref().map_or(false, |h| !h.is_finished());
            for l in live.iter_mut().flatten() {
                l.drop_reader();
                l.drop_writer();
                l.reader_drop_ms.get_or_insert(now_ms());
                l.writer_gone_ms.get_or_insert(now_ms());
            }
            settle().await;
            quiet.push((ticket(), now_ms()));
            let sent_before = lane_log.lock().sent.iter().filter(|s| s.t1.is_some()).count();
            for j in 0..3u64 {
                lane_op(LaneOp::Apply(match kind {
                    LaneKind::Value => crate::peers::Ev::Set(0xffff_fff0 + j),
                    LaneKind::Map => crate::peers::Ev::Upd(999, 0xffff_fff0 + j),
                }));
                settle().await;
                quiet.push((ticket(), now_ms()));
            }
            let events_after_departure = lane_log.lock().sent.iter().filter(|s| s.t1.is_some()).count() - sent_before;
            let from_ms = now_ms();
            tokio::time::sleep(Duration::from_millis(cfg.timeout_ms * 5 + 5)).await;
            let stopped = runtime_end.lock().is_some();
            final_idle = Some(FinalIdle { runtime_alive_before, events_after_departure, from_ms, until_ms: now_ms(), t_end: ticket(), stopped });
            if let Some(h) = runtime.as_ref() {
                runtime_finished = h.is_finished();
            }
        } else if cfg.end != EndKind::Nothing {
            settle().await;
            if cfg.end == EndKind::AllLeave {
                // The read task only notices that a consumer is gone when it writes to it.
                lane_op(LaneOp::Apply(match kind {
                    LaneKind::Value => crate::peers::Ev::Set(0xffff_ffff),
                    LaneKind::Map => crate::peers::Ev::Upd(999, 0xffff_ffff),
                }));
                settle().await;
                tokio::time::sleep(Duration::from_millis(cfg.timeout_ms * 3)).await;
            }
            settle().await;
            if let Some(h) = runtime.as_ref() {
                runtime_finished = h.is_finished();
            }
            // (Whether the runtime stops once everybody left is not part of the property: counted.)
            // (a lane that has emitted bytes that are not an envelope says nothing afterwards, `unlinked` included)
            let lane_mute = lane_log.lock().sent.iter().any(|s| matches!(s.kind, crate::peers::SentKind::BadEnvelope(_)));
            if !runtime_finished && runtime_alive_at_q && cfg.end != EndKind::AllLeave && !(lane_mute && cfg.end == EndKind::LaneUnlinked) {
                stuck.push(format!("runtime still running after end action {}", cfg.end.name()));
            }
        }
        let mut runtime_panic = None;
        let mut harness_panics = vec![];
        if let Some(h) = runtime.take() {
            h.abort();
            if let Err(e) = h.await {
                if e.is_panic() {
                    runtime_panic = Some(panic_text(e));
                }
            }
        }
        lane.abort();
        if let Err(e) = lane.await {
            if e.is_panic() {
                harness_panics.push(format!("lane task: {}", panic_text(e)));
            }
        }
        let mut cons: Vec<ConsObs> = vec![];
        for (l, (alive_at_q, frames_at_q)) in live.into_iter().zip(alive) {
            let Some(l) = l else {
                cons.push(ConsObs {
                    t_att: None,
                    attach_accepted: false,
                    frames: vec![],
                    end: None,
                    cmds: vec![],
                    writer_end: None,
                    alive_at_q: false,
                    frames_at_q: 0,
                    idle_ms_before_attach: None,
                    ever_stalled: false,
                    att_ms: 0,
                    reader_drop_ms: None,
                    writer_gone_ms: None,
                });
                continue;
            };
            l.reader.abort();
            l.writer.abort();
            for (what, h) in [("consumer reader", l.reader), ("consumer writer", l.writer)] {
                if let Err(e) = h.await {
                    if e.is_panic() {
                        harness_panics.push(format!("{what}: {}", panic_text(e)));
                    }
                }
            }
            let g = l.log.lock();
            let w = l.wlog.lock();
            cons.push(ConsObs {
                t_att: Some(l.t_att),
                attach_accepted: l.accepted,
                frames: g.frames.clone(),
                end: g.end.clone(),
                cmds: w.cmds.clone(),
                writer_end: w.end,
                alive_at_q,
                frames_at_q,
                idle_ms_before_attach: l.idle_ms_before_attach,
                ever_stalled: l.ever_stalled,
                att_ms: l.att_ms,
                reader_drop_ms: l.reader_drop_ms,
                writer_gone_ms: l.writer_gone_ms,
            });
        }
        let lane = {
            let g = lane_log.lock();
            LaneLog {
                reqs: g.reqs.clone(),
                sent: g.sent.clone(),
                hist: g.hist.clone(),
                syncs: g.syncs.clone(),
                reader_end: g.reader_end.clone(),
                write_failed: g.write_failed,
                reader_dropped: g.reader_dropped,
                writer_closed: g.writer_closed,
                pending_ops: g.pending_ops,
                busy: g.busy,
            }
        };
        let runtime_end = *runtime_end.lock();
        Obs { cons, lane, q, runtime_alive_at_q, lane_idle_at_q, runtime_finished, stuck, runtime_panic, harness_panics, quiet, ms_at_q, runtime_end, final_idle }
    })
}
