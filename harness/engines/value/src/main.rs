//! Engine `value` (C19): `Value: Eq + Ord + Hash` coherence, decided on the real implementation.
//!
//! Parts:
//!  * `pool-pairs`   – every ordered pair of a boundary-heavy pool: reflexivity, symmetry,
//!                     eq ⇒ equal hash, antisymmetry of `cmp`, `cmp == Equal ⇔ ==`.
//!  * `pool-triples` – every triple of the pool (on the precomputed relation matrices):
//!                     transitivity of `==` and of `cmp`.
//!  * `random`       – seeded random values / nested records: the same laws on pairs and triples.
//!  * `sort`         – sorting random multisets must not panic and must leave a chain.
//!  * `collections`  – a `HashMap`, a `BTreeMap` and a sorted `Vec` keyed by `Value` agree on
//!                     membership and on the first-n keys (what take/drop rely on).

use std::cmp::Ordering;
use std::collections::{BTreeMap, HashMap};
use std::hash::{Hash, Hasher};

use common::{json, CaseOut, Fnv, Json, Rng, Session};
use swimos_model::{Attr, BigInt, BigUint, Blob, Item, Text, Value};

const P: &str = "C19";

fn hash_of(v: &Value) -> u64 {
    let mut h = Fnv::default();
    v.hash(&mut h);
    h.finish()
}

fn kind(v: &Value) -> &'static str {
    match v {
        Value::Extant => "Extant",
        Value::Int32Value(_) => "Int32",
        Value::Int64Value(_) => "Int64",
        Value::UInt32Value(_) => "UInt32",
        Value::UInt64Value(_) => "UInt64",
        Value::Float64Value(_) => "Float64",
        Value::BooleanValue(_) => "Boolean",
        Value::BigInt(_) => "BigInt",
        Value::BigUint(_) => "BigUint",
        Value::Text(_) => "Text",
        Value::Record(_, _) => "Record",
        Value::Data(_) => "Data",
    }
}

/// Exact mathematical value of a numeric `Value`: `n / 2^shift`, or a non-finite marker.
enum Num {
    Exact(BigInt, usize),
    Nan,
    PosInf,
    NegInf,
}

fn num_of(v: &Value) -> Option<Num> {
    Some(match v {
        Value::Int32Value(n) => Num::Exact(BigInt::from(*n), 0),
        Value::Int64Value(n) => Num::Exact(BigInt::from(*n), 0),
        Value::UInt32Value(n) => Num::Exact(BigInt::from(*n), 0),
        Value::UInt64Value(n) => Num::Exact(BigInt::from(*n), 0),
        Value::BigInt(n) => Num::Exact(n.clone(), 0),
        Value::BigUint(n) => Num::Exact(BigInt::from(n.clone()), 0),
        Value::Float64Value(x) => {
            if x.is_nan() {
                Num::Nan
            } else if *x == f64::INFINITY {
                Num::PosInf
            } else if *x == f64::NEG_INFINITY {
                Num::NegInf
            } else {
                let bits = x.to_bits();
                let neg = bits >> 63 == 1;
                let exp = ((bits >> 52) & 0x7ff) as i64;
                let frac = bits & ((1u64 << 52) - 1);
                let (mant, e) = if exp == 0 { (frac, -1074i64) } else { (frac | (1u64 << 52), exp - 1075) };
                let mut n = BigInt::from(mant);
                if neg {
                    n = -n;
                }
                if e >= 0 {
                    Num::Exact(n << (e as usize), 0)
                } else {
                    Num::Exact(n, (-e) as usize)
                }
            }
        }
        _ => return None,
    })
}

/// How two numeric values relate mathematically: part of the violation signature, so that e.g.
/// "1 vs 1.0" and "2^53+1 vs 2^53 as float" are different findings.
fn num_class(a: &Value, b: &Value) -> &'static str {
    match (num_of(a), num_of(b)) {
        (Some(Num::Exact(n1, s1)), Some(Num::Exact(n2, s2))) => {
            let l = n1.clone() << s2;
            let r = n2.clone() << s1;
            if l == r {
                if matches!(a, Value::Float64Value(x) if *x == 0.0) && matches!(b, Value::Float64Value(y) if *y == 0.0) {
                    let (Value::Float64Value(x), Value::Float64Value(y)) = (a, b) else { unreachable!() };
                    if x.is_sign_negative() != y.is_sign_negative() {
                        return "signed-zeros";
                    }
                }
                "math-equal"
            } else {
                // Distance below 1 (fractions next to integers / adjacent floats) or not.
                let d = if l > r { l - r } else { r - l };
                let one = BigInt::from(1) << (s1 + s2);
                let eps_scaled = {
                    // f64::EPSILON = 2^-52
                    let sh = s1 + s2;
                    if sh >= 52 { Some(BigInt::from(1) << (sh - 52)) } else { None }
                };
                if eps_scaled.map_or(false, |e| d < e) {
                    "math-differ-below-epsilon"
                } else if d < one {
                    "math-differ-below-one"
                } else {
                    "math-differ"
                }
            }
        }
        (Some(Num::Nan), Some(Num::Nan)) => "both-nan",
        (Some(Num::Nan), Some(_)) | (Some(_), Some(Num::Nan)) => "one-nan",
        (Some(_), Some(_)) => "infinite",
        (Some(_), None) | (None, Some(_)) => "number-vs-other",
        (None, None) => "non-numeric",
    }
}

/// `a` and `b` differ only by an integer kind vs a float of the same mathematical value (possibly
/// nested inside records of the same shape): `cmp` says Equal (asserted by the in-tree tests) while
/// `==` says different. Used only to *name* the one known design-level incoherence.
fn int_float_tie(a: &Value, b: &Value) -> bool {
    if a == b {
        return false;
    }
    match (a, b) {
        (Value::Record(a1, i1), Value::Record(a2, i2)) => {
            a1.len() == a2.len()
                && i1.len() == i2.len()
                && a1.iter().zip(a2).all(|(x, y)| x.name == y.name && (x.value == y.value || int_float_tie(&x.value, &y.value)))
                && i1.iter().zip(i2).all(|(x, y)| match (x, y) {
                    (Item::ValueItem(p), Item::ValueItem(q)) => p == q || int_float_tie(p, q),
                    (Item::Slot(k1, v1), Item::Slot(k2, v2)) => (k1 == k2 || int_float_tie(k1, k2)) && (v1 == v2 || int_float_tie(v1, v2)),
                    _ => false,
                })
        }
        _ => {
            let one_float = matches!(a, Value::Float64Value(_)) != matches!(b, Value::Float64Value(_));
            one_float && num_class(a, b) == "math-equal"
        }
    }
}

fn show(v: &Value) -> Json {
    let s = format!("{:?}", v);
    Json::String(if s.chars().count() > 160 { format!("{}…", s.chars().take(160).collect::<String>()) } else { s })
}

// ------------------------------------------------------------------------------------------------
// Pool

fn f(x: f64) -> Value {
    Value::Float64Value(x)
}

fn big(s: &str) -> BigInt {
    s.parse().unwrap()
}

fn pool() -> Vec<Value> {
    let mut p: Vec<Value> = Vec::new();
    p.push(Value::Extant);
    p.push(Value::BooleanValue(false));
    p.push(Value::BooleanValue(true));
    // Integers at the limits of every kind, the same number in all kinds that can hold it.
    let ints: Vec<i128> = vec![
        0, 1, -1, 2, -2, 7, 100, -100,
        i32::MAX as i128, i32::MAX as i128 - 1, i32::MAX as i128 + 1,
        i32::MIN as i128, i32::MIN as i128 + 1, i32::MIN as i128 - 1,
        u32::MAX as i128, u32::MAX as i128 - 1, u32::MAX as i128 + 1,
        i64::MAX as i128, i64::MAX as i128 - 1, i64::MAX as i128 + 1,
        i64::MIN as i128, i64::MIN as i128 + 1, i64::MIN as i128 - 1,
        u64::MAX as i128, u64::MAX as i128 - 1, u64::MAX as i128 + 1,
        (1i128 << 53) - 1, 1i128 << 53, (1i128 << 53) + 1, -(1i128 << 53) - 1,
        (1i128 << 24) + 1, 1i128 << 62, (1i128 << 63) + 1024, 1i128 << 64, 1i128 << 100,
        -(1i128 << 100), i128::MAX, i128::MIN,
    ];
    for n in &ints {
        if let Ok(x) = i32::try_from(*n) {
            p.push(Value::Int32Value(x));
        }
        if let Ok(x) = i64::try_from(*n) {
            p.push(Value::Int64Value(x));
        }
        if let Ok(x) = u32::try_from(*n) {
            p.push(Value::UInt32Value(x));
        }
        if let Ok(x) = u64::try_from(*n) {
            p.push(Value::UInt64Value(x));
        }
        p.push(Value::BigInt(BigInt::from(*n)));
        if *n >= 0 {
            p.push(Value::BigUint(BigUint::try_from(BigInt::from(*n)).unwrap()));
        }
        // the same number as a float, when the conversion is exact or merely close
        p.push(f(*n as f64));
    }
    // Big integers beyond i128 and beyond f64.
    for s in [
        "340282366920938463463374607431768211456",
        "-340282366920938463463374607431768211456",
        "170141183460469231731687303715884105728",
        "-170141183460469231731687303715884105729",
    ] {
        p.push(Value::BigInt(big(s)));
        if !s.starts_with('-') {
            p.push(Value::BigUint(s.parse().unwrap()));
        }
    }
    let huge = format!("1{}", "0".repeat(400));
    p.push(Value::BigInt(big(&huge)));
    p.push(Value::BigInt(big(&format!("-{huge}"))));
    p.push(Value::BigUint(huge.parse().unwrap()));
    // Floats.
    for x in [
        0.0, -0.0, 0.5, -0.5, 1.5, -1.5, 0.1, 0.1 + f64::EPSILON / 4.0, 1.0 + f64::EPSILON, 1.0 - f64::EPSILON / 2.0,
        f64::MIN_POSITIVE, -f64::MIN_POSITIVE, 5e-324, -5e-324, 1e-300, f64::EPSILON, f64::EPSILON / 2.0,
        f64::MAX, f64::MIN, 1e300, -1e300, f64::INFINITY, f64::NEG_INFINITY, f64::NAN, -f64::NAN,
        f64::from_bits(0x7ff8_0000_0000_0001), 2147483647.5, -2147483648.5, 4294967295.5,
        9007199254740993.0, 9.223372036854775807e18, 1.8446744073709552e19, 3.4028236692093846e38,
        1e19, -1e19, 1e40, -1e40, 6.5, 7.0 - 1e-9,
    ] {
        p.push(f(x));
    }
    // Texts.
    for s in ["", "a", "b", "aa", "A", "true", "false", "0", "1", "-1", " ", "\u{0}", "é", "e\u{301}", "\u{10000}", "\u{ffff}", "zzzzzzzzzzzzzzzzzzzzzzzzzzzzzzzzzzzzzz"] {
        p.push(Value::text(s));
    }
    // Blobs.
    for b in [vec![], vec![0u8], vec![0, 0], vec![1], vec![255], vec![0, 255], b"abc".to_vec()] {
        p.push(Value::Data(Blob::from_vec(b)));
    }
    // Records.
    p.push(Value::empty_record());
    p.push(Value::of_attr("a"));
    p.push(Value::of_attr(("a", 1)));
    p.push(Value::of_attr(("a", 1i64)));
    p.push(Value::of_attr(("a", 1.0)));
    p.push(Value::of_attr("b"));
    p.push(Value::of_attrs(vec![Attr::of("a"), Attr::of("b")]));
    p.push(Value::from_vec(vec![1, 2]));
    p.push(Value::from_vec(vec![1i64, 2i64]));
    p.push(Value::from_vec(vec![1.0, 2.0]));
    p.push(Value::from_vec(vec![1]));
    p.push(Value::from_vec(vec![Value::Extant]));
    p.push(Value::record(vec![Item::slot("k", 1)]));
    p.push(Value::record(vec![Item::slot("k", 1u64)]));
    p.push(Value::record(vec![Item::slot("k", 2)]));
    p.push(Value::record(vec![Item::slot(1, "v")]));
    p.push(Value::record(vec![Item::slot(1.0, "v")]));
    p.push(Value::record(vec![Item::of("k"), Item::of(1)]));
    p.push(Value::record(vec![Item::ValueItem(Value::empty_record())]));
    p.push(Value::record(vec![Item::slot(Value::Extant, Value::Extant)]));
    p.push(Value::Record(vec![Attr::of("a")], vec![Item::of(1)]));
    p.push(Value::Record(vec![Attr::of("a")], vec![Item::slot("k", 0.0)]));
    p.push(Value::Record(vec![Attr::of("a")], vec![Item::slot("k", -0.0)]));
    p.push(Value::record(vec![Item::of(f64::NAN)]));
    p.push(Value::record(vec![Item::of(Value::Data(Blob::from_vec(vec![1])))]));
    p.push(Value::record(vec![Item::of(Value::text("x"))]));
    p
}

fn random_value(rng: &mut Rng, depth: u32) -> Value {
    let top = if depth == 0 { 10 } else { 12 };
    match rng.below(top) {
        0 => Value::Extant,
        1 => Value::BooleanValue(rng.bool()),
        2 => Value::Int32Value(small_or_any(rng) as i32),
        3 => Value::Int64Value(small_or_any(rng)),
        4 => Value::UInt32Value(small_or_any(rng) as u32),
        5 => Value::UInt64Value(small_or_any(rng) as u64),
        6 => {
            let x = match rng.below(6) {
                0 => small_or_any(rng) as f64,
                1 => small_or_any(rng) as f64 + 0.5,
                2 => f64::from_bits(rng.next_u64()),
                3 => (rng.below(7) as f64 - 3.0) * f64::EPSILON / 3.0 + (rng.below(3) as f64),
                4 => *rng.pick(&[0.0, -0.0, f64::NAN, f64::INFINITY, f64::NEG_INFINITY]),
                _ => rng.f64_unit() * 10.0 - 5.0,
            };
            Value::Float64Value(x)
        }
        7 => {
            let n = small_or_any(rng);
            if rng.bool() {
                Value::BigInt(BigInt::from(n) * BigInt::from(if rng.chance(1, 4) { i64::MAX } else { 1 }))
            } else {
                Value::BigUint(BigUint::from(n.unsigned_abs()) * BigUint::from(if rng.chance(1, 4) { u64::MAX } else { 1 }))
            }
        }
        8 => {
            let len = rng.below(4);
            let s: String = (0..len).map(|_| *rng.pick(&['a', 'b', '0', 'é', ' '])).collect();
            Value::text(s)
        }
        9 => {
            let len = rng.below(3);
            Value::Data(Blob::from_vec((0..len).map(|_| *rng.pick(&[0u8, 1, 255])).collect()))
        }
        _ => {
            let na = rng.below(3);
            let ni = rng.below(4);
            let attrs = (0..na)
                .map(|_| {
                    let name = *rng.pick(&["a", "b", "tag"]);
                    if rng.bool() { Attr::of(name) } else { Attr::of((name, random_value(rng, depth - 1))) }
                })
                .collect();
            let items = (0..ni)
                .map(|_| {
                    if rng.bool() {
                        Item::ValueItem(random_value(rng, depth - 1))
                    } else {
                        Item::Slot(random_value(rng, depth - 1), random_value(rng, depth - 1))
                    }
                })
                .collect();
            Value::Record(attrs, items)
        }
    }
}

fn small_or_any(rng: &mut Rng) -> i64 {
    match rng.below(4) {
        0 => rng.range_i64(-3, 3),
        1 => *rng.pick(&[i32::MAX as i64, i32::MIN as i64, u32::MAX as i64, i64::MAX, i64::MIN, 1 << 53, (1 << 53) + 1]),
        2 => rng.range_i64(-1000, 1000),
        _ => rng.next_u64() as i64,
    }
}

// ------------------------------------------------------------------------------------------------
// Laws

fn pair_laws(a: &Value, b: &Value, out: &mut CaseOut) {
    out.events += 1;
    let eq_ab = a == b;
    let eq_ba = b == a;
    let c_ab = a.cmp(b);
    let c_ba = b.cmp(a);
    let ka = kind(a);
    let kb = kind(b);
    let (k1, k2) = if ka <= kb { (ka, kb) } else { (kb, ka) };
    let class = num_class(a, b);
    if eq_ab != eq_ba {
        out.violation(P, format!("eq-symmetry/{k1}/{k2}/{class}"), format!("a == b is {eq_ab} but b == a is {eq_ba}"), json!({"a": show(a), "b": show(b)}));
    }
    if eq_ab && hash_of(a) != hash_of(b) {
        out.violation(P, format!("eq-implies-hash/{k1}/{k2}/{class}"), "a == b but hash(a) != hash(b)", json!({"a": show(a), "b": show(b)}));
    }
    if c_ab != c_ba.reverse() {
        out.violation(
            P,
            format!("cmp-antisymmetry/{k1}/{k2}/{class}"),
            format!("cmp(a,b) = {c_ab:?} but cmp(b,a) = {c_ba:?}"),
            json!({"a": show(a), "b": show(b)}),
        );
    }
    if (c_ab == Ordering::Equal) != eq_ab {
        let class = if int_float_tie(a, b) { "int-float-tie" } else { class };
        out.violation(
            P,
            format!("cmp-equal-iff-eq/{ka}/{kb}/{class}"),
            format!("cmp(a,b) = {c_ab:?} while a == b is {eq_ab}"),
            json!({"a": show(a), "b": show(b)}),
        );
    }
    // PartialOrd must agree with Ord.
    if a.partial_cmp(b) != Some(c_ab) {
        out.violation(P, format!("partial-cmp-agrees/{ka}/{kb}"), "partial_cmp differs from cmp", json!({"a": show(a), "b": show(b)}));
    }
}

/// The laws of C19 on a wrapper type (`Item`, `Attr`) whose relations are defined through those of the
/// values inside: the wrapper's own `==`, `cmp`, `partial_cmp` and `Hash` must be coherent with each
/// other, and two wrappers built the same way from `a` and `b` are equal exactly when `a == b`.
fn wrapper_laws<T: Eq + Ord + Hash + std::fmt::Debug>(what: &str, x: &T, y: &T, inner_eq: bool, inner_cmp: Ordering, out: &mut CaseOut) {
    out.events += 1;
    let hash = |t: &T| {
        let mut h = Fnv::default();
        t.hash(&mut h);
        h.finish()
    };
    let eq = x == y;
    let c = x.cmp(y);
    let detail = || json!({"x": format!("{x:?}"), "y": format!("{y:?}")});
    if eq != (y == x) {
        out.violation(P, format!("wrapper/{what}/eq-symmetry"), "x == y differs from y == x", detail());
    }
    if eq != inner_eq {
        out.violation(P, format!("wrapper/{what}/eq-differs-from-content"), format!("the wrappers are equal: {eq}; their contents are equal: {inner_eq}"), detail());
    }
    if eq && hash(x) != hash(y) {
        out.violation(P, format!("wrapper/{what}/eq-implies-hash"), "x == y but the hashes differ", detail());
    }
    if c != y.cmp(x).reverse() {
        out.violation(P, format!("wrapper/{what}/cmp-antisymmetry"), format!("cmp(x,y) = {c:?}, cmp(y,x) = {:?}", y.cmp(x)), detail());
    }
    // The order of the wrappers built the same way is the order of what differs inside them; the known
    // int/float tie of `Value` (cmp Equal, not ==) shows through and is not reported a second time here.
    if c != inner_cmp {
        out.violation(P, format!("wrapper/{what}/cmp-differs-from-content"), format!("cmp of the wrappers is {c:?}, of the contents {inner_cmp:?}"), detail());
    }
    if x.partial_cmp(y) != Some(c) {
        out.violation(P, format!("wrapper/{what}/partial-cmp-agrees"), format!("partial_cmp = {:?} but cmp = {c:?}", x.partial_cmp(y)), detail());
    }
}

fn triple_laws(a: &Value, b: &Value, c: &Value, rel: (bool, bool, bool, Ordering, Ordering, Ordering), out: &mut CaseOut) {
    let (eq_ab, eq_bc, eq_ac, c_ab, c_bc, c_ac) = rel;
    if eq_ab && eq_bc && !eq_ac {
        out.violation(
            P,
            format!("eq-transitivity/{}/{}/{}", kind(a), kind(b), kind(c)),
            "a == b and b == c but a != c",
            json!({"a": show(a), "b": show(b), "c": show(c)}),
        );
    }
    // a <= b and b <= c implies a <= c; with at least one strict, a < c.
    if c_ab != Ordering::Greater && c_bc != Ordering::Greater {
        let strict = c_ab == Ordering::Less || c_bc == Ordering::Less;
        let bad = if strict { c_ac != Ordering::Less } else { c_ac != Ordering::Equal };
        if bad {
            out.violation(
                P,
                format!("cmp-transitivity/{}/{}/{}/{}-{}", kind(a), kind(b), kind(c), num_class(a, b), num_class(b, c)),
                format!("cmp(a,b) = {c_ab:?}, cmp(b,c) = {c_bc:?} but cmp(a,c) = {c_ac:?}"),
                json!({"a": show(a), "b": show(b), "c": show(c)}),
            );
        }
    }
}

fn main() {
    let mut s = Session::new("value");
    let pool = pool();
    let n = pool.len();
    s.note(format!("pool size {n}"));

    // Relation matrices of the pool (computed once with the real impls; a panic here is reported by
    // the pair part, which recomputes them per row).
    let thorough = s.args.thorough();

    s.part(
        "pool-pairs",
        "one case per pool value a: all ordered pairs (a, b) over the pool; non-trivial when the row contains both an equal and an unequal partner of another kind; distinct by row",
        true,
        n as u64,
        |i, _rng, out| {
            let a = &pool[i as usize];
            if a != a {
                out.violation(P, format!("eq-reflexive/{}", kind(a)), "a != a", json!({"a": show(a)}));
            }
            if a.cmp(a) != Ordering::Equal {
                out.violation(P, format!("cmp-reflexive/{}", kind(a)), "cmp(a,a) != Equal", json!({"a": show(a)}));
            }
            let mut eq_other_kind = 0;
            for b in &pool {
                pair_laws(a, b, out);
                if a == b && kind(a) != kind(b) {
                    eq_other_kind += 1;
                }
            }
            out.nontrivial = true;
            out.add("pairs", n as u64);
            out.add("pairs_equal_across_kinds", eq_other_kind);
            if i < 3 {
                out.set_sample(json!({"a": show(a), "partners": n}));
            }
        },
    );

    // `Item` and `Attr` have relations of their own (used inside records); their `PartialOrd` impls are
    // never reached through `Value`.
    s.part(
        "items-attrs",
        "one case per pool value a: for every pool value b the value items, slots (a/b as key under a fixed value and as value under a fixed key) and attributes (same name) built from a and b: ==, cmp, partial_cmp and Hash of Item and Attr are coherent and agree with the relations of the values inside; attributes with different names and a slot against a value item are never equal; distinct by row",
        true,
        n as u64,
        |i, _rng, out| {
            let a = &pool[i as usize];
            let fixed = Value::text("k");
            for b in &pool {
                let (e, c) = (a == b, a.cmp(b));
                wrapper_laws("value-item", &Item::ValueItem(a.clone()), &Item::ValueItem(b.clone()), e, c, out);
                wrapper_laws("slot-key", &Item::Slot(a.clone(), fixed.clone()), &Item::Slot(b.clone(), fixed.clone()), e, c, out);
                wrapper_laws("slot-value", &Item::Slot(fixed.clone(), a.clone()), &Item::Slot(fixed.clone(), b.clone()), e, c, out);
                wrapper_laws("attr", &Attr::of(("name", a.clone())), &Attr::of(("name", b.clone())), e, c, out);
                let (x, y) = (Attr::of(("name", a.clone())), Attr::of(("other", b.clone())));
                if x == y || x.cmp(&y) == Ordering::Equal || x.partial_cmp(&y) != Some(x.cmp(&y)) {
                    out.violation(P, "wrapper/attr/names-differ", "attributes with different names are equal, compare Equal, or partial_cmp differs from cmp", json!({"a": show(a), "b": show(b)}));
                }
                let (x, y) = (Item::ValueItem(a.clone()), Item::Slot(a.clone(), b.clone()));
                if x == y || x.cmp(&y) != y.cmp(&x).reverse() || x.partial_cmp(&y) != Some(x.cmp(&y)) || (x.cmp(&y) == Ordering::Equal) {
                    out.violation(P, "wrapper/item/value-item-vs-slot", "a value item and a slot are equal, compare Equal, or their order is not antisymmetric", json!({"a": show(a), "b": show(b)}));
                }
                out.events += 2;
            }
            out.nontrivial = true;
            out.add("wrapper-pairs", 6 * n as u64);
            if i < 2 {
                out.set_sample(json!({"a": show(a), "partners": n}));
            }
        },
    );

    // Matrices for the triple part.
    let eqm: Vec<Vec<bool>> = pool.iter().map(|a| pool.iter().map(|b| a == b).collect()).collect();
    let cmpm: Vec<Vec<Ordering>> = pool.iter().map(|a| pool.iter().map(|b| a.cmp(b)).collect()).collect();
    let stride = if thorough { 1 } else { s.args.extra_u64("triple-stride").unwrap_or(1) as usize };
    s.part(
        "pool-triples",
        "one case per pool value a: all (b, c) over the pool, transitivity of == and cmp on the relation computed by the real impls; distinct by row",
        stride == 1,
        n as u64,
        |i, _rng, out| {
            let i = i as usize;
            let mut k = 0u64;
            for j in (0..n).step_by(stride) {
                for l in 0..n {
                    k += 1;
                    let rel = (eqm[i][j], eqm[j][l], eqm[i][l], cmpm[i][j], cmpm[j][l], cmpm[i][l]);
                    // cheap pre-filter identical to the law, so the slow path only runs on a break
                    let eq_bad = rel.0 && rel.1 && !rel.2;
                    let ord_bad = rel.3 != Ordering::Greater && rel.4 != Ordering::Greater && {
                        let strict = rel.3 == Ordering::Less || rel.4 == Ordering::Less;
                        if strict { rel.5 != Ordering::Less } else { rel.5 != Ordering::Equal }
                    };
                    if eq_bad || ord_bad {
                        triple_laws(&pool[i], &pool[j], &pool[l], rel, out);
                    }
                }
            }
            out.events += k;
            out.add("triples", k);
            out.nontrivial = true;
            if i < 2 {
                out.set_sample(json!({"a": show(&pool[i]), "triples": k}));
            }
        },
    );

    let cases = s.args.budget(150_000, 5_000_000);
    s.part(
        "random",
        "seeded random values (nested records to depth 3, numerics biased to boundaries): 12 values per case, all pairs and triples; non-trivial when at least two values are of different kinds; distinct by hash of the generated values",
        false,
        cases,
        |_i, rng, out| {
            let vs: Vec<Value> = (0..12)
                .map(|k| if k % 4 == 3 { pool[rng.usize_below(n)].clone() } else { random_value(rng, 3) })
                .collect();
            for v in &vs {
                out.sig(&format!("{v:?}"));
            }
            for a in &vs {
                for b in &vs {
                    pair_laws(a, b, out);
                }
            }
            for a in &vs {
                for b in &vs {
                    for c in &vs {
                        let rel = (a == b, b == c, a == c, a.cmp(b), b.cmp(c), a.cmp(c));
                        triple_laws(a, b, c, rel, out);
                        out.events += 1;
                    }
                }
            }
            out.nontrivial = vs.iter().any(|v| kind(v) != kind(&vs[0]));
            out.set_sample(json!({"values": vs.iter().take(4).map(show).collect::<Vec<_>>()}));
        },
    );

    let cases = s.args.budget(100_000, 3_000_000);
    s.part(
        "sort",
        "sort a random multiset of 5-60 pool/random values with the real Ord: no panic, result is a chain (adjacent cmp != Greater), is a permutation, and sorting a shuffled copy gives an equal sequence; distinct by hash of the multiset",
        false,
        cases,
        |_i, rng, out| {
            let len = rng.range(5, 60) as usize;
            let mut vs: Vec<Value> = (0..len)
                .map(|_| if rng.chance(2, 3) { pool[rng.usize_below(n)].clone() } else { random_value(rng, 2) })
                .collect();
            for v in &vs {
                out.sig(&format!("{v:?}"));
            }
            out.nontrivial = true;
            out.events += len as u64;
            let mut other = vs.clone();
            rng.shuffle(&mut other);
            let r = std::panic::catch_unwind(std::panic::AssertUnwindSafe(|| {
                vs.sort();
                other.sort();
            }));
            if r.is_err() {
                out.violation(P, "sort-panics", "slice::sort panicked (comparison is not a total order)", json!({"len": len}));
                return;
            }
            for w in vs.windows(2) {
                if w[0].cmp(&w[1]) == Ordering::Greater {
                    out.violation(P, format!("sorted-not-chain/{}/{}", kind(&w[0]), kind(&w[1])), "adjacent elements out of order after sort", json!({"a": show(&w[0]), "b": show(&w[1])}));
                    break;
                }
            }
            if vs.iter().zip(other.iter()).any(|(a, b)| a != b) {
                let (a, b) = vs.iter().zip(other.iter()).find(|(a, b)| a != b).unwrap();
                let cause = if int_float_tie(a, b) { "int-float-tie".to_string() } else { format!("{}/{}", kind(a), kind(b)) };
                out.violation(
                    P,
                    format!("sort-order-dependent/{cause}"),
                    "sorting two permutations of the same multiset gives sequences that differ under ==",
                    json!({"a": show(a), "b": show(b)}),
                );
            }
            if len < 8 {
                out.set_sample(json!({"sorted": vs.iter().map(show).collect::<Vec<_>>()}));
            }
        },
    );

    let cases = s.args.budget(100_000, 3_000_000);
    s.part(
        "collections",
        "insert 3-40 values as keys into HashMap, BTreeMap and a dedup'd Vec (by ==): the three agree on the number of distinct keys and on membership of every inserted key; first-n keys of the BTreeMap equal the first n of the sorted HashMap keys (take/drop); distinct by hash of the key list",
        false,
        cases,
        |_i, rng, out| {
            let len = rng.range(3, 40) as usize;
            let keys: Vec<Value> = (0..len)
                .map(|_| if rng.chance(2, 3) { pool[rng.usize_below(n)].clone() } else { random_value(rng, 2) })
                .collect();
            for v in &keys {
                out.sig(&format!("{v:?}"));
            }
            out.nontrivial = true;
            out.events += len as u64;
            let mut hm: HashMap<Value, usize> = HashMap::new();
            let mut bm: BTreeMap<Value, usize> = BTreeMap::new();
            let mut dd: Vec<Value> = Vec::new();
            for (i, k) in keys.iter().enumerate() {
                hm.insert(k.clone(), i);
                bm.insert(k.clone(), i);
                if !dd.iter().any(|d| d == k) {
                    dd.push(k.clone());
                }
            }
            if hm.len() != dd.len() {
                let culprit = dd.iter().find(|d| keys.iter().filter(|k| k == d).map(hash_of).collect::<std::collections::HashSet<_>>().len() > 1);
                out.violation(
                    P,
                    format!("hashmap-key-count/{}", culprit.map(kind).unwrap_or("unknown")),
                    format!("HashMap holds {} keys, {} are distinct under ==", hm.len(), dd.len()),
                    json!({"culprit": culprit.map(show)}),
                );
            }
            if bm.len() != dd.len() {
                let tie = dd.iter().any(|x| dd.iter().any(|y| int_float_tie(x, y)));
                out.violation(
                    P,
                    if tie { "btreemap-key-count/int-float-tie" } else { "btreemap-key-count/other" },
                    format!("BTreeMap holds {} keys, {} are distinct under ==", bm.len(), dd.len()),
                    json!({"keys": keys.iter().take(12).map(show).collect::<Vec<_>>()}),
                );
            }
            for k in &keys {
                if !hm.contains_key(k) {
                    out.violation(P, format!("hashmap-lookup/{}", kind(k)), "inserted key not found in HashMap", json!({"k": show(k)}));
                }
                if !bm.contains_key(k) {
                    out.violation(P, format!("btreemap-lookup/{}", kind(k)), "inserted key not found in BTreeMap", json!({"k": show(k)}));
                }
            }
            if hm.len() == bm.len() {
                let mut hk: Vec<&Value> = hm.keys().collect();
                let sorted_ok = std::panic::catch_unwind(std::panic::AssertUnwindSafe(|| hk.sort())).is_ok();
                if sorted_ok {
                    let nfirst = rng.usize_below(hk.len() + 1);
                    let from_b: Vec<&Value> = bm.keys().take(nfirst).collect();
                    if from_b.iter().zip(hk.iter()).any(|(a, b)| a != b) {
                        let tie = dd.iter().any(|x| dd.iter().any(|y| int_float_tie(x, y)));
                        out.violation(P, if tie { "first-n-keys-differ/int-float-tie" } else { "first-n-keys-differ/other" }, "first n keys of the ordered map differ from the first n sorted keys of the hash map", json!({"n": nfirst}));
                    }
                }
            }
        },
    );

    // Texts with the same characters reached through different histories of one buffer (the small-string
    // representation keeps bytes inline; what an earlier, longer content left behind must not matter).
    let cases = s.args.budget(30_000, 1_000_000);
    s.part(
        "text-histories",
        "2-4 character strings (lengths around the inline/heap boundary, multi-byte characters), each built as a Text in up to 10 ways (fresh, from String, clone_from onto a longer inline / a heap / a shorter text, pushed together from pieces, clear + push_str, clone_from + push, Extend), wrapped as Value::Text, as an attribute name and as a slot key: values with the same characters are ==, compare Equal and hash alike whatever their history, and all pair laws hold across histories; distinct by the strings and histories drawn",
        false,
        cases,
        |_i, rng, out| {
            let alphabet: [&str; 12] = ["a", "b", "z", "0", " ", "é", "ß", "ノ", "ー", "\u{10348}", "_", "A"];
            let mut mk_string = |rng: &mut Rng| -> String {
                let len = *rng.pick(&[0usize, 1, 2, 3, 7, 11, 12, 15, 22, 23, 24, 25, 30, 40]);
                let mut st = String::new();
                while st.chars().count() < len {
                    st.push_str(alphabet[rng.usize_below(alphabet.len())]);
                }
                st
            };
            let n_strings = rng.range(2, 4) as usize;
            let mut strings: Vec<String> = (0..n_strings).map(|_| mk_string(rng)).collect();
            // a strict prefix and an extension of the first string: near misses
            if let Some(first) = strings.first().cloned() {
                if first.chars().count() > 1 {
                    let cut: String = first.chars().take(first.chars().count() - 1).collect();
                    strings.push(cut);
                }
                strings.push(format!("{first}a"));
            }
            let build = |rng: &mut Rng, st: &str, how: u64| -> Text {
                match how {
                    0 => Text::new(st),
                    1 => Text::from_string(st.to_string()),
                    2 => {
                        // onto a longer inline text
                        let mut t = Text::new(&format!("{st}{}", &"xyzwvutsrqponmlkjihgfedcba"[..(23usize.saturating_sub(st.len())).min(26).max(1)]));
                        t.clone_from(&Text::new(st));
                        t
                    }
                    3 => {
                        let mut t = Text::new(&"Q".repeat(64));
                        t.clone_from(&Text::new(st));
                        t
                    }
                    4 => {
                        let mut t = Text::new("s");
                        t.clone_from(&Text::new(st));
                        t
                    }
                    5 => {
                        let mut t = Text::empty();
                        let chars: Vec<char> = st.chars().collect();
                        let mut i = 0;
                        while i < chars.len() {
                            let k = (1 + rng.usize_below(4)).min(chars.len() - i);
                            let piece: String = chars[i..i + k].iter().collect();
                            t.push_str(&piece);
                            i += k;
                        }
                        t
                    }
                    6 => {
                        let mut t = Text::new(&format!("{st}-and-a-tail"));
                        t.clear();
                        t.push_str(st);
                        t
                    }
                    7 => {
                        // a longer inline content, replaced by all but the last character, then the last pushed
                        let chars: Vec<char> = st.chars().collect();
                        if let Some((last, init)) = chars.split_last() {
                            let init: String = init.iter().collect();
                            let mut t = Text::new("0123456789abcdefghij");
                            t.clone_from(&Text::new(&init));
                            t.push(*last);
                            t
                        } else {
                            Text::empty()
                        }
                    }
                    8 => {
                        let mut t = Text::new("tail-to-forget");
                        t.clear();
                        t.extend(st.chars());
                        t
                    }
                    _ => Text::from(st),
                }
            };
            let mut texts: Vec<(usize, u64, Text)> = vec![];
            for (si, st) in strings.iter().enumerate() {
                let mut hows: Vec<u64> = (0..10).collect();
                rng.shuffle(&mut hows);
                for how in hows.into_iter().take(rng.range(3, 6) as usize) {
                    let t = build(rng, st, how);
                    if t.as_str() != st.as_str() {
                        out.violation(P, format!("text-history/content/how={how}"), "a Text built through this history does not hold the characters it was given", json!({"wanted": st, "got": t.as_str()}));
                        continue;
                    }
                    out.sig(&(st, how));
                    texts.push((si, how, t));
                }
            }
            out.nontrivial = texts.len() >= 4;
            // three wrappings of every text
            let wrap = |t: &Text, w: u8| -> Value {
                match w {
                    0 => Value::Text(t.clone()),
                    1 => Value::Record(vec![Attr::of((t.clone(), 1))], vec![]),
                    _ => Value::Record(vec![], vec![Item::Slot(Value::Text(t.clone()), Value::Int32Value(1))]),
                }
            };
            for w in 0..3u8 {
                let vals: Vec<(usize, u64, Value)> = texts.iter().map(|(si, how, t)| (*si, *how, wrap(t, w))).collect();
                for (i, (sa, ha, a)) in vals.iter().enumerate() {
                    for (sb, hb, b) in vals.iter().skip(i) {
                        pair_laws(a, b, out);
                        pair_laws(b, a, out);
                        let same = strings[*sa] == strings[*sb];
                        if same && (a != b || a.cmp(b) != Ordering::Equal || hash_of(a) != hash_of(b)) {
                            let (h1, h2) = if ha <= hb { (ha, hb) } else { (hb, ha) };
                            out.violation(
                                P,
                                format!("text-history/same-characters-differ/wrap={w}/hows={h1}-{h2}"),
                                format!("two values with the same characters: == is {}, cmp is {:?}, hashes {}", a == b, a.cmp(b), if hash_of(a) == hash_of(b) { "agree" } else { "differ" }),
                                json!({"text": strings[*sa], "history_a": ha, "history_b": hb}),
                            );
                        } else if !same && a == b {
                            out.violation(P, format!("text-history/different-characters-equal/wrap={w}"), "two values with different characters are ==", json!({"a": strings[*sa], "b": strings[*sb]}));
                        }
                    }
                }
            }
            // the clone of a value keeps all of this
            for (si, how, t) in &texts {
                let c = t.clone();
                if c != *t || hash_of(&Value::Text(c.clone())) != hash_of(&Value::Text(t.clone())) {
                    out.violation(P, format!("text-history/clone-differs/how={how}"), "a clone of a Text is not == to it (or hashes differently)", json!({"text": strings[*si]}));
                }
            }
        },
    );

    s.finish()
}
