//! Engine `recon`: printers, `parse_recognize`, the incremental decoders (C09) and the text
//! comparator / hasher / `ReconKey` (C15), all driven on the real implementation.

mod c09;
mod c09_comments;
mod c15;
mod gen;
mod types;
mod util;

use common::Session;

/// `--only-part <name>` restricts a run to one part (timing / sanitizer passes).
/// `--skip-parts a,b` leaves parts out (the Miri pass skips the parts whose every case loops over all
/// cuts of a document through an async reader: under the interpreter they alone take longer than the
/// rest of the engine together).
pub fn want(s: &Session, part: &str) -> bool {
    s.args.extra.get("only-part").map_or(true, |p| p == part) && !s.args.extra.get("skip-parts").map_or(false, |l| l.split(',').any(|p| p == part))
}

fn main() {
    let mut s = Session::new("recon");
    // Debugging aid: `--probe-text '<recon>' [--probe-text2 '<recon>']` prints what the real code
    // does with the text(s) and exits.
    if let Some(t) = s.args.extra.get("probe-text").cloned() {
        let t = t.replace("\\n", "\n");
        println!("text      : {t:?}");
        let r = util::parse_value(&t);
        println!("parse     : {r:?}");
        println!("parse(#ok): {:?}", swimos_recon::parser::parse_recognize::<swimos_model::Value>(t.as_str(), true).map_err(|e| format!("{e}")));
        println!("document  : {:?}", c09::read_document_with(t.as_bytes(), &[], false));
        println!("doc(#ok)  : {:?}", c09::read_document_with(t.as_bytes(), &[], true));
        if let Ok(v) = &r {
            for p in 0..3 {
                let printed = util::print_with(p, v);
                println!("{:9} : {printed:?} -> {:?}", util::PRINTERS[p], util::parse_value(&printed));
            }
        }
        if let Some(u) = s.args.extra.get("probe-text2") {
            println!("text2     : {u:?}\nparse2    : {:?}", util::parse_value(u));
            println!("compare   : {}", swimos_recon::compare_recon_values(&t, u));
        }
        std::process::exit(0);
    }
    if cfg!(miri) || s.args.scale < 0.05 {
        util::SHRINK_BUDGET.store(30, std::sync::atomic::Ordering::Relaxed);
        gen::SMALL.store(true, std::sync::atomic::Ordering::Relaxed);
    }
    if s.args.extra_u64("depth-probe") == Some(1) {
        // 1000-deep witnesses: shrinking clones them thousands of times
        util::SHRINK_BUDGET.store(40, std::sync::atomic::Ordering::Relaxed);
    }
    if cfg!(miri) {
        // No witness shrinking under the interpreter (seconds per parse): signatures of an
        // interpreted run may therefore name several features of an unshrunk witness.
        util::SHRINK_BUDGET.store(0, std::sync::atomic::Ordering::Relaxed);
    }
    match s.prop() {
        "C09" => c09::run(&mut s),
        "C15" => c15::run(&mut s),
        other => {
            eprintln!("engine recon serves C09 and C15, not {other:?}");
            std::process::exit(2);
        }
    }
    s.finish()
}
