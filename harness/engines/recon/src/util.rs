//! Shared helpers: exact value equality, value shapes for signatures, value shrinking, printers,
//! and the drivers of the two incremental decoders.

use bytes::{BufMut, BytesMut};
use common::CaseOut;
use swimos_form::read::RecognizerReadable;
use swimos_form::write::StructuralWritable;
use swimos_model::identifier::is_identifier;
use swimos_model::{Attr, Item, Value};
use swimos_recon::parser::{parse_recognize, AsyncParseError, RecognizerDecoder};
use swimos_recon::{print_recon, print_recon_compact, print_recon_pretty, WithLenRecognizerDecoder};
use tokio_util::codec::Decoder;

/// Steps a witness shrinker may spend (lowered for scaled-down / interpreted runs, where shrinking
/// thousands of candidates would dominate the run).
pub static SHRINK_BUDGET: std::sync::atomic::AtomicI64 = std::sync::atomic::AtomicI64::new(3000);

pub fn shrink_budget() -> i64 {
    SHRINK_BUDGET.load(std::sync::atomic::Ordering::Relaxed)
}

pub const PRINTERS: [&str; 3] = ["standard", "compact", "pretty"];

pub fn print_with<T: StructuralWritable>(which: usize, v: &T) -> String {
    match which {
        0 => format!("{}", print_recon(v)),
        1 => format!("{}", print_recon_compact(v)),
        _ => format!("{}", print_recon_pretty(v)),
    }
}

pub fn parse_value(s: &str) -> Result<Value, String> {
    parse_recognize::<Value>(s, false).map_err(|e| format!("{e}"))
}

/// Exact equality: same variants, same payloads, floats by bit pattern. (`Value::eq` equates
/// numbers across kinds and +0.0 with -0.0; "recovered exactly" is stricter than that.)
pub fn strict_eq(a: &Value, b: &Value) -> bool {
    match (a, b) {
        (Value::Extant, Value::Extant) => true,
        (Value::Int32Value(x), Value::Int32Value(y)) => x == y,
        (Value::Int64Value(x), Value::Int64Value(y)) => x == y,
        (Value::UInt32Value(x), Value::UInt32Value(y)) => x == y,
        (Value::UInt64Value(x), Value::UInt64Value(y)) => x == y,
        (Value::Float64Value(x), Value::Float64Value(y)) => x.to_bits() == y.to_bits(),
        (Value::BooleanValue(x), Value::BooleanValue(y)) => x == y,
        (Value::BigInt(x), Value::BigInt(y)) => x == y,
        (Value::BigUint(x), Value::BigUint(y)) => x == y,
        (Value::Text(x), Value::Text(y)) => x.as_str() == y.as_str(),
        (Value::Data(x), Value::Data(y)) => x == y,
        (Value::Record(a1, i1), Value::Record(a2, i2)) => {
            a1.len() == a2.len()
                && i1.len() == i2.len()
                && a1.iter().zip(a2).all(|(p, q)| p.name.as_str() == q.name.as_str() && strict_eq(&p.value, &q.value))
                && i1.iter().zip(i2).all(|(p, q)| match (p, q) {
                    (Item::ValueItem(x), Item::ValueItem(y)) => strict_eq(x, y),
                    (Item::Slot(k1, v1), Item::Slot(k2, v2)) => strict_eq(k1, k2) && strict_eq(v1, v2),
                    _ => false,
                })
        }
        _ => false,
    }
}

pub fn text_class(s: &str) -> &'static str {
    if s.is_empty() {
        "empty"
    } else if s == "true" || s == "false" {
        "boolword"
    } else if is_identifier(s) {
        "ident"
    } else if s.chars().any(|c| (c as u32) < 0x20) {
        "ctrl"
    } else if s.contains('"') || s.contains('\\') {
        "quote-or-backslash"
    } else if s.chars().all(|c| c.is_ascii_digit() || c == '-' || c == '.') {
        "number-like"
    } else if s.contains(' ') {
        "has-space"
    } else {
        "other"
    }
}

/// Abstract shape of a value (kinds and text classes only) – used in signatures after shrinking.
pub fn shape(v: &Value) -> String {
    match v {
        Value::Extant => "extant".into(),
        Value::Int32Value(_) => "i32".into(),
        Value::Int64Value(_) => "i64".into(),
        Value::UInt32Value(_) => "u32".into(),
        Value::UInt64Value(_) => "u64".into(),
        Value::Float64Value(x) => {
            if *x == 0.0 && x.is_sign_negative() {
                "f64:negzero".into()
            } else if !x.is_finite() {
                "f64:nonfinite".into()
            } else {
                "f64".into()
            }
        }
        Value::BooleanValue(_) => "bool".into(),
        Value::BigInt(_) => "bigint".into(),
        Value::BigUint(_) => "biguint".into(),
        Value::Text(t) => format!("text:{}", text_class(t.as_str())),
        Value::Data(b) => if b.as_ref().is_empty() { "blob:empty".into() } else { "blob".into() },
        Value::Record(attrs, items) => {
            let mut s = String::new();
            for a in attrs {
                s.push_str(&format!("@{}", text_class(a.name.as_str())));
                if a.value != Value::Extant {
                    s.push_str(&format!("({})", shape(&a.value)));
                }
            }
            s.push('{');
            for (i, it) in items.iter().enumerate() {
                if i > 0 {
                    s.push(',');
                }
                match it {
                    Item::ValueItem(v) => s.push_str(&shape(v)),
                    Item::Slot(k, v) => s.push_str(&format!("{}:{}", shape(k), shape(v))),
                }
            }
            s.push('}');
            s
        }
    }
}

pub fn depth_of(v: &Value) -> usize {
    match v {
        Value::Record(attrs, items) => {
            1 + attrs
                .iter()
                .map(|a| depth_of(&a.value))
                .chain(items.iter().map(|i| match i {
                    Item::ValueItem(v) => depth_of(v),
                    Item::Slot(k, v) => depth_of(k).max(depth_of(v)),
                }))
                .max()
                .unwrap_or(0)
        }
        _ => 0,
    }
}

/// One-step simplifications of a value (for greedy shrinking of witnesses).
pub fn shrink_candidates(v: &Value) -> Vec<Value> {
    shrink_candidates_lim(v, shrink_budget().max(0) as usize)
}

/// At most about `limit` candidates (generation stops early: cloning large values is costly).
fn shrink_candidates_lim(v: &Value, limit: usize) -> Vec<Value> {
    let mut out = Vec::new();
    if let Value::Record(attrs, items) = v {
        // replace by a child
        for a in attrs {
            out.push(a.value.clone());
        }
        for it in items {
            match it {
                Item::ValueItem(x) => out.push(x.clone()),
                Item::Slot(k, x) => {
                    out.push(k.clone());
                    out.push(x.clone());
                }
            }
        }
        // drop one attr / item
        for i in 0..attrs.len() {
            let mut a = attrs.clone();
            a.remove(i);
            out.push(Value::Record(a, items.clone()));
        }
        for i in 0..items.len() {
            let mut it = items.clone();
            it.remove(i);
            out.push(Value::Record(attrs.clone(), it));
        }
        // simplify a child in place
        for i in 0..attrs.len() {
            if out.len() >= limit {
                break;
            }
            for c in shrink_candidates_lim(&attrs[i].value, limit.saturating_sub(out.len())) {
                let mut a = attrs.clone();
                a[i] = Attr { name: a[i].name.clone(), value: c };
                out.push(Value::Record(a, items.clone()));
            }
            let nm = attrs[i].name.as_str();
            if !is_identifier(nm) && nm.chars().count() > 1 {
                let cs: Vec<char> = nm.chars().collect();
                for d in 0..cs.len() {
                    let shorter: String = cs.iter().enumerate().filter(|(j, _)| *j != d).map(|(_, c)| *c).collect();
                    let mut a = attrs.clone();
                    a[i] = Attr { name: shorter.as_str().into(), value: a[i].value.clone() };
                    out.push(Value::Record(a, items.clone()));
                }
            }
            if attrs[i].name.as_str() != "a" {
                let mut a = attrs.clone();
                a[i] = Attr { name: "a".into(), value: a[i].value.clone() };
                out.push(Value::Record(a, items.clone()));
            }
        }
        for i in 0..items.len() {
            if out.len() >= limit {
                break;
            }
            match &items[i] {
                Item::ValueItem(x) => {
                    for c in shrink_candidates_lim(x, limit.saturating_sub(out.len())) {
                        let mut it = items.clone();
                        it[i] = Item::ValueItem(c);
                        out.push(Value::Record(attrs.clone(), it));
                    }
                }
                Item::Slot(k, x) => {
                    let mut it = items.clone();
                    it[i] = Item::ValueItem(x.clone());
                    out.push(Value::Record(attrs.clone(), it));
                    for c in shrink_candidates_lim(k, limit.saturating_sub(out.len())) {
                        let mut it = items.clone();
                        it[i] = Item::Slot(c, x.clone());
                        out.push(Value::Record(attrs.clone(), it));
                    }
                    for c in shrink_candidates_lim(x, limit.saturating_sub(out.len())) {
                        let mut it = items.clone();
                        it[i] = Item::Slot(k.clone(), c);
                        out.push(Value::Record(attrs.clone(), it));
                    }
                }
            }
        }
    } else {
        match v {
            Value::Extant => {}
            Value::Int32Value(1) => out.push(Value::Extant),
            Value::Text(t) if t.as_str().chars().count() > 1 => {
                // drop one char
                let cs: Vec<char> = t.as_str().chars().collect();
                for i in 0..cs.len() {
                    let s: String = cs.iter().enumerate().filter(|(j, _)| *j != i).map(|(_, c)| *c).collect();
                    out.push(Value::text(s));
                }
            }
            Value::Text(_) => out.push(Value::Int32Value(1)),
            _ => out.push(Value::Int32Value(1)),
        }
    }
    out
}

/// Greedy shrink: keep applying the first candidate on which `fails` still holds.
pub fn shrink_value(v: &Value, fails: &dyn Fn(&Value) -> bool) -> Value {
    let mut cur = v.clone();
    let mut budget = shrink_budget();
    'outer: loop {
        for c in shrink_candidates(&cur) {
            budget -= 1;
            if budget <= 0 {
                break 'outer;
            }
            if fails(&c) {
                cur = c;
                continue 'outer;
            }
        }
        break;
    }
    cur
}

/// A fully explicit Recon rendering of a value (every record body in braces, every attribute body
/// wrapped so that it materialises as the same value, names quoted when needed). Used only to
/// *shrink witnesses*: a candidate counts as "produced by the parser" when the real parser maps
/// this text to exactly the candidate, so nothing is concluded from this writer being right.
pub fn explicit_text(v: &Value) -> String {
    let mut out = String::new();
    explicit(v, &mut out);
    out
}

fn explicit(v: &Value, out: &mut String) {
    use crate::gen::{base64_std, Mode, Styler};
    use std::fmt::Write;
    let mut st = Styler { mode: Mode::Canonical };
    match v {
        Value::Extant => {}
        Value::Int32Value(n) => { let _ = write!(out, "{n}"); }
        Value::Int64Value(n) => { let _ = write!(out, "{n}"); }
        Value::UInt32Value(n) => { let _ = write!(out, "{n}"); }
        Value::UInt64Value(n) => { let _ = write!(out, "{n}"); }
        Value::BigInt(n) => { let _ = write!(out, "{n}"); }
        Value::BigUint(n) => { let _ = write!(out, "{n}"); }
        Value::Float64Value(x) => { let _ = write!(out, "{x:?}"); }
        Value::BooleanValue(b) => { let _ = write!(out, "{b}"); }
        Value::Text(t) => st.text_pub(t.as_str(), out),
        Value::Data(b) => {
            out.push('%');
            out.push_str(&base64_std(b.as_ref()));
        }
        Value::Record(attrs, items) => {
            for a in attrs {
                out.push('@');
                st.name_pub(a.name.as_str(), out);
                if a.value != Value::Extant {
                    out.push('(');
                    explicit(&a.value, out);
                    out.push(')');
                }
            }
            out.push('{');
            for (i, it) in items.iter().enumerate() {
                if i > 0 {
                    out.push(',');
                }
                match it {
                    Item::ValueItem(x) => explicit(x, out),
                    Item::Slot(k, x) => {
                        explicit(k, out);
                        out.push(':');
                        explicit(x, out);
                    }
                }
            }
            out.push('}');
        }
    }
}

/// Is `v` demonstrably a value the parser produces (from `explicit_text(v)`)?
pub fn parser_produces(v: &Value) -> bool {
    matches!(parse_value(&explicit_text(v)), Ok(back) if strict_eq(&back, v))
}

/// Syntactic features of a (minimal) witness that name the construct at fault in a signature.
pub fn features(v: &Value) -> Vec<&'static str> {
    fn walk(v: &Value, acc: &mut Vec<&'static str>) {
        match v {
            Value::Float64Value(x) if !x.is_finite() => acc.push("nonfinite-float"),
            Value::Record(attrs, items) => {
                for a in attrs {
                    if !is_identifier(a.name.as_str()) {
                        acc.push("attr-name-not-identifier");
                    }
                    if let Value::Record(a2, i2) = &a.value {
                        if !a2.is_empty() && i2.len() == 1 && matches!(i2[0], Item::Slot(..)) {
                            acc.push("attr-body-is-attributed-record-with-sole-slot");
                        }
                    }
                    walk(&a.value, acc);
                }
                if !attrs.is_empty() && items.len() == 1 {
                    if let Item::ValueItem(Value::Record(..)) = &items[0] {
                        acc.push("sole-item-is-record");
                    }
                }
                for it in items {
                    match it {
                        Item::ValueItem(x) => walk(x, acc),
                        Item::Slot(k, x) => {
                            if let Value::Record(a2, i2) = k {
                                if !a2.is_empty() && i2.is_empty() {
                                    acc.push("slot-key-is-attributed-record-without-items");
                                }
                            }
                            walk(k, acc);
                            walk(x, acc);
                        }
                    }
                }
            }
            _ => {}
        }
    }
    let mut acc = Vec::new();
    walk(v, &mut acc);
    acc.sort();
    acc.dedup();
    acc
}

/// Rewrite the constructs named by `features` into harmless ones (workload shaping only): used to
/// look *behind* a known misprint for a different one in the same value.
pub fn sanitize(v: &Value) -> Value {
    match v {
        Value::Float64Value(x) if !x.is_finite() => Value::Float64Value(1.5),
        Value::Record(attrs, items) => {
            let attrs: Vec<Attr> = attrs
                .iter()
                .map(|a| {
                    let mut val = sanitize(&a.value);
                    if let Value::Record(a2, i2) = &mut val {
                        if !a2.is_empty() && i2.len() == 1 && matches!(i2[0], Item::Slot(..)) {
                            i2.push(Item::ValueItem(Value::Int32Value(7)));
                        }
                    }
                    let name = if is_identifier(a.name.as_str()) { a.name.clone() } else { "q".into() };
                    Attr { name, value: val }
                })
                .collect();
            let mut items: Vec<Item> = items
                .iter()
                .map(|it| match it {
                    Item::ValueItem(x) => Item::ValueItem(sanitize(x)),
                    Item::Slot(k, x) => {
                        let mut k = sanitize(k);
                        if let Value::Record(a2, i2) = &mut k {
                            if !a2.is_empty() && i2.is_empty() {
                                i2.push(Item::ValueItem(Value::Int32Value(7)));
                                i2.push(Item::ValueItem(Value::Int32Value(8)));
                            }
                        }
                        Item::Slot(k, sanitize(x))
                    }
                })
                .collect();
            if !attrs.is_empty() && items.len() == 1 && matches!(&items[0], Item::ValueItem(Value::Record(..))) {
                items.push(Item::ValueItem(Value::Int32Value(7)));
            }
            Value::Record(attrs, items)
        }
        other => other.clone(),
    }
}

/// Signature fragment for a minimal witness: named features, or its shape when none applies.
pub fn witness_class(v: &Value) -> String {
    let f = features(v);
    if f.is_empty() {
        format!("shape={}", shape(v))
    } else {
        f.join("+")
    }
}

pub fn clip(s: &str) -> String {
    if s.chars().count() > 300 {
        format!("{}…[{} bytes]", s.chars().take(300).collect::<String>(), s.len())
    } else {
        s.to_string()
    }
}

// ------------------------------------------------------------------------------------------------
// Decoder drivers

#[derive(Debug)]
pub enum Outcome<T> {
    Value(T),
    Error(String),
    /// `decode_eof` answered `Ok(None)`: no value and no error.
    Nothing,
}

impl<T> Outcome<T> {
    pub fn class(&self) -> &'static str {
        match self {
            Outcome::Value(_) => "value",
            Outcome::Error(_) => "error",
            Outcome::Nothing => "nothing",
        }
    }
}

pub fn err_class(e: &AsyncParseError) -> String {
    match e {
        AsyncParseError::Io(_) => "io".into(),
        AsyncParseError::BadUtf8(_) => "bad-utf8".into(),
        AsyncParseError::Parser(_) => "parser".into(),
        AsyncParseError::UnconsumedInput => "unconsumed".into(),
    }
}

/// Split `bytes` at the (sorted) cut positions.
pub fn chunks_of<'a>(bytes: &'a [u8], cuts: &[usize]) -> Vec<&'a [u8]> {
    let mut out = Vec::with_capacity(cuts.len() + 1);
    let mut prev = 0;
    for &c in cuts {
        let c = c.min(bytes.len());
        if c >= prev {
            out.push(&bytes[prev..c]);
            prev = c;
        }
    }
    out.push(&bytes[prev..]);
    out
}

/// Drive a `RecognizerDecoder` the way a length-aware outer decoder does: append each chunk and
/// call `decode`; after the last chunk call `decode_eof`. The first value or error ends the run.
pub fn run_decoder<T: RecognizerReadable>(chunks: &[&[u8]], out: &mut CaseOut) -> Outcome<T> {
    let mut dec = RecognizerDecoder::new(T::make_recognizer());
    let mut buf = BytesMut::new();
    for ch in chunks {
        buf.put_slice(ch);
        out.events += 1;
        match dec.decode(&mut buf) {
            Ok(Some(v)) => return Outcome::Value(v),
            Ok(None) => {}
            Err(e) => return Outcome::Error(err_class(&e)),
        }
    }
    out.events += 1;
    match dec.decode_eof(&mut buf) {
        Ok(Some(v)) => Outcome::Value(v),
        Ok(None) => Outcome::Nothing,
        Err(e) => Outcome::Error(err_class(&e)),
    }
}

pub fn with_len_frame(bodies: &[&[u8]]) -> Vec<u8> {
    let mut v = Vec::new();
    for b in bodies {
        v.extend_from_slice(&(b.len() as u64).to_be_bytes());
        v.extend_from_slice(b);
    }
    v
}

pub struct WithLenRun<T> {
    pub results: Vec<Outcome<T>>,
    /// The call loop exceeded its budget (a `decode` that keeps answering without progress).
    pub budget_blown: bool,
    pub leftover: usize,
}

/// Drive a `WithLenRecognizerDecoder` like `FramedRead` does: after each chunk call `decode` until
/// it answers `Ok(None)`; errors do not end the stream (the decoder skips the bad frame).
pub fn run_with_len<T: RecognizerReadable>(chunks: &[&[u8]], expect: usize, out: &mut CaseOut) -> WithLenRun<T> {
    let mut dec = WithLenRecognizerDecoder::new(T::make_recognizer());
    let mut buf = BytesMut::new();
    let mut results = Vec::new();
    let mut calls = 0usize;
    let budget = chunks.len() * 4 + 64;
    for ch in chunks {
        buf.put_slice(ch);
        loop {
            calls += 1;
            out.events += 1;
            if calls > budget {
                return WithLenRun { results, budget_blown: true, leftover: buf.len() };
            }
            match dec.decode(&mut buf) {
                Ok(Some(v)) => results.push(Outcome::Value(v)),
                Ok(None) => break,
                Err(e) => results.push(Outcome::Error(err_class(&e))),
            }
            if results.len() >= expect + 2 {
                return WithLenRun { results, budget_blown: false, leftover: buf.len() };
            }
        }
    }
    WithLenRun { results, budget_blown: false, leftover: buf.len() }
}

pub fn char_class_at(bytes: &[u8], i: usize) -> &'static str {
    match bytes.get(i) {
        None => "end",
        Some(b) => match *b {
            b'a'..=b'z' | b'A'..=b'Z' | b'_' => "alpha",
            b'0'..=b'9' => "digit",
            b' ' | b'\t' => "space",
            b'\n' | b'\r' => "newline",
            b'"' => "quote",
            b'\\' => "backslash",
            0x80..=0xbf => "utf8-continuation",
            0xc0..=0xff => "utf8-lead",
            _ => "punct",
        },
    }
}
