//! C09, `#` comments: the parsers that take the `allow_comments` flag (`parse_recognize` and the
//! document reader `parse_recon_document`, which drives the incremental parser) on texts that carry
//! comments between items, inside attribute bodies, before a line break inside a record, at the start
//! and at the end.
//!
//! The reference for a text `T` with comments is the text `T0` obtained by deleting every comment
//! (from `#` up to, not including, the end of its line): both are given to the real parser, `T0`
//! with the flag off. Nothing here knows the grammar; where a comment is legal is decided by what the
//! real parser does with `T0` (a line break in that place).

use common::{json, CaseOut, Rng, Session};
use swimos_model::Value;
use swimos_recon::parser::parse_recognize;

use crate::c09::{guard, read_document_with};
use crate::gen::{gen_text, CHAR_POOL};
use crate::util::{clip, parse_value, strict_eq};

const P: &str = "C09";

#[derive(Clone, Debug)]
struct Insertion {
    /// Byte offset in the comment-free text.
    pos: usize,
    /// Where the comment stands (signature facet).
    site: &'static str,
    blanks: &'static str,
    text: String,
    /// Line end written after the comment (and, alone, into the comment-free text); empty when the
    /// comment stands before a line break that is already there, or at the very end of the input.
    eol: &'static str,
}

/// (byte offset, char) of every character outside string literals.
fn outside_literals(t: &str) -> Vec<(usize, char)> {
    let (mut in_str, mut esc) = (false, false);
    let mut acc = Vec::new();
    for (i, c) in t.char_indices() {
        if in_str {
            if esc {
                esc = false;
            } else if c == '\\' {
                esc = true;
            } else if c == '"' {
                in_str = false;
            }
        } else if c == '"' {
            in_str = true;
        } else {
            acc.push((i, c));
        }
    }
    acc
}

fn has_bare_hash(t: &str) -> bool {
    outside_literals(t).iter().any(|(_, c)| *c == '#')
}

fn ends_inside_literal(t: &str) -> bool {
    let (mut in_str, mut esc) = (false, false);
    for c in t.chars() {
        if in_str {
            if esc {
                esc = false;
            } else if c == '\\' {
                esc = true;
            } else if c == '"' {
                in_str = false;
            }
        } else if c == '"' {
            in_str = true;
        }
    }
    in_str
}

const COMMENT_TEXTS: &[&str] = &["", "c", " a comment", "#", "##", "}", "{", ")", "(", "\"", "\"open", "@a(", "a:1,", "\\", "\\\"", "%AA==", "é", "名前", "\u{1f600}", " \t ", "0x", "1e", "\u{2028}x"];

fn gen_comment_text(rng: &mut Rng) -> String {
    match rng.below(3) {
        0 => rng.pick(COMMENT_TEXTS).to_string(),
        1 => {
            let n = rng.below(12);
            (0..n).map(|_| *rng.pick(CHAR_POOL)).filter(|c| *c != '\n' && *c != '\r').collect()
        }
        _ => format!("{}{}", rng.pick(COMMENT_TEXTS), rng.pick(COMMENT_TEXTS)),
    }
}

/// Candidate sites of `t`: (offset, site class, whether a line break follows already).
fn sites(t: &str) -> Vec<(usize, &'static str, bool)> {
    let mut acc: Vec<(usize, &'static str, bool)> = vec![(0, "at-start", false)];
    // (A text that ends inside an unterminated string literal has no comment site at its end: a `#`
    // there would be part of the literal.)
    if !ends_inside_literal(t) {
        acc.push((t.len(), "at-end", false));
    }
    let out = outside_literals(t);
    // nesting: inside parentheses (attribute body) or braces
    let mut stack: Vec<char> = Vec::new();
    for (i, c) in out {
        let inside_attr = stack.last() == Some(&'(');
        match c {
            '{' => {
                stack.push('{');
                acc.push((i + 1, "after-open-brace", false));
            }
            '(' => {
                stack.push('(');
                acc.push((i + 1, "attr-body/after-open-paren", false));
            }
            '}' => {
                acc.push((i, "before-close-brace", false));
                stack.pop();
            }
            ')' => {
                acc.push((i, "attr-body/before-close-paren", false));
                stack.pop();
            }
            ',' | ';' => acc.push((i + 1, if inside_attr { "attr-body/after-separator" } else if stack.is_empty() { "between-items/top-level" } else { "between-items/in-record" }, false)),
            '\n' if t[..i].ends_with('\r') => {}
            '\n' => acc.push((i, if inside_attr { "attr-body/before-line-break" } else if stack.is_empty() { "before-line-break/top-level" } else { "before-line-break/in-record" }, true)),
            ' ' | '\t' => acc.push((i + 1, "after-blank", false)),
            _ => {}
        }
    }
    acc
}

fn gen_insertions(t: &str, rng: &mut Rng, end_without_eol: bool) -> Vec<Insertion> {
    let all = sites(t);
    let n = *rng.pick(&[1usize, 1, 1, 2, 2, 3]);
    let mut ins: Vec<Insertion> = Vec::new();
    for _ in 0..n {
        // "after-blank" is the one site class where a line break is mostly not legal: keep it rare
        let (pos, site, has_nl) = loop {
            let c = *rng.pick(&all);
            if c.1 != "after-blank" || rng.chance(1, 6) {
                break c;
            }
        };
        if ins.iter().any(|x| x.pos == pos) {
            continue;
        }
        let eol = if has_nl {
            ""
        } else if site == "at-end" && end_without_eol && rng.bool() {
            ""
        } else if rng.chance(1, 8) {
            "\r\n"
        } else {
            "\n"
        };
        let site = if site == "at-end" && eol.is_empty() { "at-end/no-line-break" } else { site };
        ins.push(Insertion { pos, site, blanks: *rng.pick(&["", " ", "  ", "\t"]), text: gen_comment_text(rng), eol });
        // now and then a second comment line directly below
        if !has_nl && !eol.is_empty() && rng.chance(1, 5) {
            let last = ins.last_mut().unwrap();
            last.text = format!("{}{}#{}", last.text, eol, rng.pick(COMMENT_TEXTS));
        }
    }
    ins.sort_by_key(|x| x.pos);
    ins
}

/// (text with comments, text without, spans of the comments in the former: `#` .. before the line end)
fn build(t: &str, ins: &[Insertion]) -> (String, String, Vec<(usize, usize)>) {
    let (mut with, mut without, mut spans) = (String::new(), String::new(), Vec::new());
    let mut prev = 0;
    for x in ins {
        with.push_str(&t[prev..x.pos]);
        without.push_str(&t[prev..x.pos]);
        prev = x.pos;
        with.push_str(x.blanks);
        without.push_str(x.blanks);
        let start = with.len();
        with.push('#');
        // (a second comment line inside `text` carries its own line end; the comment-free text gets
        // the same line ends)
        with.push_str(&x.text);
        for (k, line) in x.text.split(x.eol).enumerate() {
            let _ = line;
            if k > 0 && !x.eol.is_empty() {
                without.push_str(x.eol);
            }
        }
        spans.push((start, with.len()));
        with.push_str(x.eol);
        without.push_str(x.eol);
    }
    with.push_str(&t[prev..]);
    without.push_str(&t[prev..]);
    (with, without, spans)
}

fn site_label(ins: &[Insertion]) -> String {
    let mut s: Vec<&str> = ins.iter().map(|x| x.site).collect();
    s.sort();
    s.dedup();
    s.join("+")
}

fn show<T: std::fmt::Debug>(r: &Result<T, String>) -> String {
    clip(&format!("{r:?}"))
}

// ------------------------------------------------------------------------------------------------
// Rules (pure functions of the comment-free text and the insertions, so that witnesses can be cut
// down to one comment).

/// One-shot parser: rules broken by (text, insertions).
fn oneshot_rules(t: &str, ins: &[Insertion]) -> Vec<(String, String, common::Json)> {
    let (with, without, _) = build(t, ins);
    let mut rules = Vec::new();
    let r_c = match guard(|| parse_recognize::<Value>(with.as_str(), true).map_err(|e| format!("{e}"))) {
        Ok(r) => r,
        Err(msg) => {
            rules.push((format!("panic/{}", common::sanitize_sig(&msg)), format!("parse_recognize(.., allow_comments = true) panicked: {msg}"), json!({"text": clip(&with)})));
            return rules;
        }
    };
    // (A mutated base text can hold a `#` of its own: then `without` is not comment-free and is no
    // reference; only the no-panic rule above applies.)
    if has_bare_hash(&without) {
        return rules;
    }
    let Ok(r_0) = guard(|| parse_value(&without)) else { return rules };
    let kind = match (&r_c, &r_0) {
        (Ok(a), Ok(b)) if strict_eq(a, b) => None,
        (Ok(_), Ok(_)) => Some("value-differs-from-comment-free-text"),
        // Leniency towards a text that is rejected without its comments is not judged (the property
        // is silent on it; the part counts it).
        (Ok(_), Err(_)) => None,
        (Err(_), Ok(_)) => Some("rejected-but-comment-free-text-accepted"),
        (Err(_), Err(_)) => None,
    };
    if let Some(kind) = kind {
        rules.push((
            format!("comments/one-shot/{kind}{}", witness_facet(&without, &r_0)),
            "parse_recognize with allow_comments gives, for a text with `#` comments, another result than the parser gives for the same text with the comments deleted".to_string(),
            json!({"text": clip(&with), "without_comments": clip(&without), "result": show(&r_c), "result_without_comments": show(&r_0)}),
        ));
    }
    // A text without any comment must not depend on the flag.
    if let Ok(r_0c) = guard(|| parse_recognize::<Value>(without.as_str(), true).map_err(|e| format!("{e}"))) {
        let same = match (&r_0c, &r_0) {
            (Ok(a), Ok(b)) => strict_eq(a, b),
            (Err(_), Err(_)) => true,
            _ => false,
        };
        if !same {
            rules.push((
                format!("comments/one-shot/flag-changes-result-of-comment-free-text{}", witness_facet(&without, &r_0)),
                "a text that holds no comment parses differently with allow_comments on and off".to_string(),
                json!({"text": clip(&without), "with_flag": show(&r_0c), "without_flag": show(&r_0)}),
            ));
        }
    }
    rules
}

/// Names the one shape of witness met so far (signature facet; empty otherwise, the comment's site
/// is used then): the comment-free text is a record of attributes only, followed by nothing but
/// blanks with a line break.
fn witness_facet(without: &str, r_0: &Result<Value, String>) -> &'static str {
    let tail = &without[without.trim_end().len()..];
    match r_0 {
        Ok(Value::Record(attrs, items)) if !attrs.is_empty() && items.is_empty() && tail.contains('\n') && !without.trim_end().ends_with('}') => "/attributes-only-then-line-break-at-end-of-input",
        _ => "",
    }
}

fn same_items(a: &Result<Vec<swimos_model::Item>, String>, b: &Result<Vec<swimos_model::Item>, String>) -> bool {
    match (a, b) {
        (Ok(x), Ok(y)) => format!("{x:?}") == format!("{y:?}"),
        (Err(_), Err(_)) => true,
        _ => false,
    }
}

/// Document reader, whole document in one read: rules broken by (document, insertions).
fn document_rules(t: &str, ins: &[Insertion]) -> Vec<(String, String, common::Json)> {
    let (with, without, _) = build(t, ins);
    let mut rules = Vec::new();
    let r_c = match guard(|| read_document_with(with.as_bytes(), &[], true)) {
        Ok(r) => r,
        Err(msg) => {
            rules.push((format!("panic/{}", common::sanitize_sig(&msg)), format!("parse_recon_document(.., allow_comments = true) panicked: {msg}"), json!({"document": clip(&with)})));
            return rules;
        }
    };
    if has_bare_hash(&without) {
        return rules;
    }
    let Ok(r_0) = guard(|| read_document_with(without.as_bytes(), &[], false)) else { return rules };
    let kind = match (&r_c, &r_0) {
        (Ok(_), Ok(_)) if same_items(&r_c, &r_0) => None,
        (Ok(_), Ok(_)) => Some("items-differ-from-comment-free-document"),
        (Ok(_), Err(_)) => None,
        (Err(_), Ok(_)) => Some("rejected-but-comment-free-document-accepted"),
        (Err(_), Err(_)) => None,
    };
    if let Some(kind) = kind {
        rules.push((
            format!("comments/document/{kind}"),
            "parse_recon_document with allow_comments gives, for a document with `#` comments, another result than for the same document with the comments deleted".to_string(),
            json!({"document": clip(&with), "without_comments": clip(&without), "result": show(&r_c), "result_without_comments": show(&r_0)}),
        ));
    }
    // (the existing rule of part `document-chunks`, with the flag on)
    if let Ok(one) = guard(|| parse_recognize::<Value>(format!("{{{with}\n}}").as_str(), true)) {
        let expect = one.ok().map(|v| match v {
            Value::Record(_, items) => format!("{items:?}"),
            other => format!("{other:?}"),
        });
        if let (Ok(items), Some(expect)) = (&r_c, &expect) {
            if format!("{items:?}") != *expect {
                rules.push((
                    "comments/document/one-read-differs-from-one-shot-parser".to_string(),
                    "parse_recon_document on the whole document gives other items than parse_recognize gives for `{document}` (comments allowed in both)".to_string(),
                    json!({"document": clip(&with), "document_reader": show(&r_c), "one_shot_items": clip(expect)}),
                ));
            }
        }
    }
    rules
}

/// Reduce a witness: one comment alone, then with the plainest text, as long as the same rule fires.
fn minimise(t: &str, ins: &[Insertion], rule: &str, check: &dyn Fn(&str, &[Insertion]) -> Vec<(String, String, common::Json)>) -> Vec<Insertion> {
    let fires = |c: &[Insertion]| check(t, c).iter().any(|r| r.0 == rule);
    let mut cur: Vec<Insertion> = ins.to_vec();
    if cur.len() > 1 {
        for x in ins {
            let one = vec![x.clone()];
            if fires(&one) {
                cur = one;
                break;
            }
        }
    }
    for i in 0..cur.len() {
        for simpler in ["", "c"] {
            if cur[i].text != simpler {
                let mut c = cur.clone();
                c[i].text = simpler.to_string();
                c[i].blanks = " ";
                if fires(&c) {
                    cur = c;
                    break;
                }
            }
        }
    }
    cur
}

fn report(t: &str, ins: &[Insertion], rules: Vec<(String, String, common::Json)>, check: &dyn Fn(&str, &[Insertion]) -> Vec<(String, String, common::Json)>, out: &mut CaseOut) {
    for (rule, what, detail) in rules {
        if rule.starts_with("panic/") {
            out.violation(P, rule, what, detail);
            continue;
        }
        let min = minimise(t, ins, &rule, check);
        let detail_min = check(t, &min).into_iter().find(|r| r.0 == rule).map(|r| r.2).unwrap_or(detail);
        if rule.ends_with("-at-end-of-input") {
            out.violation(P, rule, what, detail_min);
        } else {
            out.violation(P, format!("{rule}/{}", site_label(&min)), what, detail_min);
        }
    }
}

// ------------------------------------------------------------------------------------------------

pub fn run(s: &mut Session) {
    let cases = s.args.budget(2_000, 120_000);
    if !crate::want(s, "comments") {
        return;
    }
    s.part(
        "comments",
        "generated texts / documents (1-3 items) with 1-3 `#` comments put between items, after `{` `(` and separators, before `}` `)`, before a line break inside a record or an attribute body, at the start, at the end (with and without a final line break), rarely after a blank; comment texts hold quotes, braces, backslashes and multi-byte characters. (1) when T with the comments deleted parses, parse_recognize(T, allow_comments) gives exactly that value, and a comment-free text does not depend on the flag; (2) when D with the comments deleted is read as a document, parse_recon_document(D, allow_comments) read in one piece gives the same items, and they equal those of parse_recognize on `{D}`; (3) the same document cut at EVERY position in or next to a comment (from the byte before `#` to two bytes after the end of the comment, inside its multi-byte characters too) and at 24 other positions, and in 4 random multi-cut runs, gives the one-read result; non-trivial when the text with comments parses; distinct by text",
        false,
        cases,
        |_i, rng, out| {
            // --- one-shot parser on a single value
            let (text, _) = gen_text(rng, 4);
            let ins = gen_insertions(&text, rng, true);
            let (with, _, _) = build(&text, &ins);
            out.sig(&with);
            for x in &ins {
                out.count(&format!("site/{}", x.site));
            }
            out.events += 3;
            if has_bare_hash(&text) {
                out.count("base_text_with_a_hash_of_its_own(no_reference)");
            }
            let rules = oneshot_rules(&text, &ins);
            match guard(|| parse_recognize::<Value>(with.as_str(), true).is_ok()) {
                Ok(true) => {
                    out.count("oneshot_value_from_text_with_comments");
                    out.nontrivial = true;
                    let (_, without, _) = build(&text, &ins);
                    if !has_bare_hash(&without) && matches!(guard(|| parse_value(&without).is_err()), Ok(true)) {
                        out.count("observed:accepted_with_comments_but_rejected_without");
                    }
                }
                _ => out.count("oneshot_rejected_text_with_comments"),
            }
            if !rules.is_empty() {
                report(&text, &ins, rules, &oneshot_rules, out);
            }

            // --- document reader
            let n = *rng.pick(&[1u64, 1, 1, 2, 3]);
            let mut doc = String::new();
            for k in 0..n {
                if k > 0 {
                    doc.push_str(*rng.pick(&[",", ",\n", "\n", " , ", ";\n"]));
                }
                doc.push_str(&gen_text(rng, 0).0);
            }
            let dins = gen_insertions(&doc, rng, true);
            let (dwith, _, spans) = build(&doc, &dins);
            out.sig(&dwith);
            for x in &dins {
                out.count(&format!("document_site/{}", x.site));
            }
            out.events += 3;
            let rules = document_rules(&doc, &dins);
            let broken = !rules.is_empty();
            if broken {
                report(&doc, &dins, rules, &document_rules, out);
            }
            let bytes = dwith.as_bytes();
            let Ok(reference) = guard(|| read_document_with(bytes, &[], true)) else { return };
            if reference.is_ok() {
                out.count("document_read_with_comments");
                out.nontrivial = true;
            } else {
                out.count("document_with_comments_rejected");
            }
            if bytes.len() < 2 {
                return;
            }
            let near_comment = |c: usize| spans.iter().any(|(a, b)| c + 1 >= *a && c <= *b + 2);
            // (cuts away from comments are the business of part `document-chunks`)
            // (the interpreter needs seconds per read: a handful of cuts there)
            let (n_far, n_near, n_multi) = if cfg!(miri) { (2, 8, 1) } else { (24, 600, 4) };
            let mut cuts: Vec<usize> = if bytes.len() <= n_far { (1..bytes.len()).collect() } else { (0..n_far).map(|_| 1 + rng.usize_below(bytes.len() - 1)).collect() };
            cuts.extend((1..bytes.len()).filter(|c| near_comment(*c)).take(n_near));
            cuts.sort();
            cuts.dedup();
            for c in cuts {
                out.events += 1;
                let class = if !dwith.is_char_boundary(c) {
                    if spans.iter().any(|(a, b)| c > *a && c < *b) { "inside-multi-byte-character-of-comment" } else { "inside-multi-byte-character" }
                } else if spans.iter().any(|(a, _)| c == *a) {
                    "before-hash"
                } else if spans.iter().any(|(a, _)| c == *a + 1) {
                    "after-hash"
                } else if spans.iter().any(|(a, b)| c > *a && c < *b) {
                    "inside-comment"
                } else if spans.iter().any(|(_, b)| c == *b) {
                    "at-end-of-comment"
                } else if spans.iter().any(|(_, b)| c > *b && c <= *b + 2) {
                    "after-line-break-of-comment"
                } else {
                    "elsewhere"
                };
                out.count(&format!("cut/{class}"));
                let got = match guard(|| read_document_with(bytes, &[c], true)) {
                    Ok(g) => g,
                    Err(msg) => {
                        out.violation(P, format!("panic/{}", common::sanitize_sig(&msg)), format!("parse_recon_document panicked: {msg}"), json!({"document": clip(&dwith), "cut": c}));
                        return;
                    }
                };
                if !same_items(&got, &reference) {
                    let kind = match (&reference, &got) {
                        (Ok(_), Ok(_)) => "different-items",
                        (Ok(_), Err(_)) => "rejected-when-cut",
                        (Err(_), Ok(_)) => "accepted-when-cut",
                        _ => "other",
                    };
                    out.violation(
                        P,
                        format!("comments/document/chunking/{class}/{kind}"),
                        "parse_recon_document (comments allowed) gives a different result when the source delivers the document in two reads",
                        json!({"document": clip(&dwith), "cut": c, "one_read": show(&reference), "two_reads": show(&got)}),
                    );
                    return;
                }
            }
            for _ in 0..n_multi {
                if bytes.len() < 3 {
                    break;
                }
                let k = rng.range(2, 8) as usize;
                let mut cs: Vec<usize> = (0..k).map(|_| 1 + rng.usize_below(bytes.len() - 1)).collect();
                cs.sort();
                cs.dedup();
                out.events += 1;
                let Ok(got) = guard(|| read_document_with(bytes, &cs, true)) else {
                    out.violation(P, "panic/parse_recon_document-multi-cut", "parse_recon_document panicked", json!({"document": clip(&dwith), "cuts": cs}));
                    return;
                };
                if !same_items(&got, &reference) {
                    out.violation(P, "comments/document/chunking/multi-cut", "parse_recon_document (comments allowed) gives a different result when the source delivers the document in several reads", json!({"document": clip(&dwith), "cuts": cs, "one_read": show(&reference), "chunked": show(&got)}));
                    return;
                }
            }
            if rng.chance(1, 100) {
                out.set_sample(json!({"text_with_comments": clip(&with), "document_with_comments": clip(&dwith), "sites": site_label(&ins), "document_sites": site_label(&dins), "document_result_is_ok": reference.is_ok(), "rules_broken_in_one_read": broken}));
            }
        },
    );
}
