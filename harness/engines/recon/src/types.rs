//! Battery of typed values: built-in `Form` types and `#[derive(Form)]` types defined here.

use std::collections::HashMap;
use std::fmt::Debug;
use std::sync::Arc;

use common::{json, CaseOut, Rng};
use swimos_form::read::RecognizerReadable;
use swimos_form::write::StructuralWritable;
use swimos_form::Form;
use swimos_model::{BigInt, BigUint, Blob, Text};
use swimos_recon::parser::parse_recognize;

use crate::gen::{gen_blob, gen_finite_float, gen_int, gen_string};
use crate::util::{clip, print_with, PRINTERS};

const P: &str = "C09";

#[derive(Form, Debug, PartialEq, Clone)]
pub struct Simple {
    a: i32,
    b: String,
}

#[derive(Form, Debug, PartialEq, Clone)]
#[form(tag = "renamed")]
pub struct Tagged {
    #[form(name = "the field")]
    f: i64,
    #[form(attr)]
    at: String,
    opt: Option<u32>,
}

#[derive(Form, Debug, PartialEq, Clone)]
pub struct WithHeader {
    #[form(header)]
    h: i32,
    #[form(header_body)]
    hb: String,
    x: f64,
}

#[derive(Form, Debug, PartialEq, Clone)]
pub struct WithBody {
    #[form(header)]
    h: String,
    #[form(body)]
    body: Vec<i32>,
}

#[derive(Form, Debug, PartialEq, Clone)]
pub struct Unit;

#[derive(Form, Debug, PartialEq, Clone)]
pub struct Newtype(u64);

#[derive(Form, Debug, PartialEq, Clone)]
pub struct Pair(i32, String);

#[derive(Form, Debug, PartialEq, Clone)]
pub enum Choice {
    A,
    B(i32),
    C {
        x: String,
        #[form(header)]
        y: bool,
    },
    #[form(tag = "other")]
    D(Vec<String>),
}

#[derive(Form, Debug, PartialEq, Clone)]
pub struct Generic<T> {
    inner: T,
}

#[derive(Form, Debug, PartialEq, Clone)]
pub struct Nested {
    s: Simple,
    c: Choice,
    v: Vec<Simple>,
    g: Generic<Option<String>>,
    data: Blob,
    big: BigInt,
}

/// A tag that is not a Recon identifier (the derive macro accepts any string).
#[derive(Form, Debug, PartialEq, Clone)]
#[form(tag = "spaced tag")]
pub struct OddTag {
    n: i32,
}

/// A type whose whole body is one delegated field (`@BodyOf 5`) ...
#[derive(Form, Debug, PartialEq, Clone)]
pub struct BodyOf<T> {
    #[form(body)]
    b: T,
}

/// ... standing in attribute position, so that the attribute printer itself is delegated to and
/// writes a primitive (number, text, blob) as the rest of an attribute body: `@InHeader(@BodyOf 5)`.
#[derive(Form, Debug, PartialEq, Clone)]
pub struct InHeader<T> {
    #[form(header_body)]
    hb: T,
    x: i32,
}

/// The same in named attributes, one per primitive kind, next to attributes that hold the
/// primitive directly.
#[derive(Form, Debug, PartialEq, Clone)]
pub struct AttrBodies {
    #[form(attr)]
    d_i32: BodyOf<i32>,
    #[form(attr)]
    d_i64: BodyOf<i64>,
    #[form(attr)]
    d_u32: BodyOf<u32>,
    #[form(attr)]
    d_u64: BodyOf<u64>,
    #[form(attr)]
    d_f64: BodyOf<f64>,
    #[form(attr)]
    d_bool: BodyOf<bool>,
    #[form(attr)]
    d_big: BodyOf<BigInt>,
    #[form(attr)]
    d_ubig: BodyOf<BigUint>,
    #[form(attr)]
    d_text: BodyOf<String>,
    #[form(attr)]
    d_blob: BodyOf<Blob>,
    #[form(attr)]
    p_blob: Blob,
    #[form(attr)]
    p_big: BigInt,
    #[form(attr)]
    p_f64: f64,
    last: u64,
}

/// Delegated primitive bodies as slot values (the structure printer writes the primitive after an
/// attribute: `b:@BodyOf 5`).
#[derive(Form, Debug, PartialEq, Clone)]
pub struct BodyItems {
    i: BodyOf<i32>,
    l: BodyOf<i64>,
    u: BodyOf<u32>,
    ul: BodyOf<u64>,
    f: BodyOf<f64>,
    p: BodyOf<bool>,
    big: BodyOf<BigInt>,
    ubig: BodyOf<BigUint>,
    t: BodyOf<String>,
    data: BodyOf<Blob>,
}

fn g_attr_bodies(r: &mut Rng) -> AttrBodies {
    AttrBodies {
        d_i32: BodyOf { b: g_i32(r) },
        d_i64: BodyOf { b: g_i64(r) },
        d_u32: BodyOf { b: g_u32(r) },
        d_u64: BodyOf { b: g_u64(r) },
        d_f64: BodyOf { b: gen_finite_float(r) },
        d_bool: BodyOf { b: r.bool() },
        d_big: BodyOf { b: gen_int(r) },
        d_ubig: BodyOf { b: gen_int(r).magnitude().clone() },
        d_text: BodyOf { b: gen_string(r) },
        d_blob: BodyOf { b: Blob::from_vec(gen_blob(r)) },
        p_blob: Blob::from_vec(gen_blob(r)),
        p_big: gen_int(r),
        p_f64: gen_finite_float(r),
        last: g_u64(r),
    }
}

fn g_i32(r: &mut Rng) -> i32 {
    match r.below(4) {
        0 => *r.pick(&[0, 1, -1, i32::MAX, i32::MIN]),
        1 => r.range_i64(-100, 100) as i32,
        _ => r.next_u64() as i32,
    }
}

fn g_i64(r: &mut Rng) -> i64 {
    match r.below(4) {
        0 => *r.pick(&[0, 1, -1, i64::MAX, i64::MIN, i32::MAX as i64 + 1, i32::MIN as i64 - 1, u32::MAX as i64 + 1]),
        1 => r.range_i64(-100, 100),
        _ => r.next_u64() as i64,
    }
}

fn g_u32(r: &mut Rng) -> u32 {
    match r.below(3) {
        0 => *r.pick(&[0, 1, u32::MAX, i32::MAX as u32, i32::MAX as u32 + 1]),
        _ => r.next_u64() as u32,
    }
}

fn g_u64(r: &mut Rng) -> u64 {
    match r.below(3) {
        0 => *r.pick(&[0, 1, u64::MAX, i64::MAX as u64, i64::MAX as u64 + 1, u32::MAX as u64 + 1]),
        _ => r.next_u64() >> r.below(64),
    }
}

fn g_simple(r: &mut Rng) -> Simple {
    Simple { a: g_i32(r), b: gen_string(r) }
}

fn g_choice(r: &mut Rng) -> Choice {
    match r.below(4) {
        0 => Choice::A,
        1 => Choice::B(g_i32(r)),
        2 => Choice::C { x: gen_string(r), y: r.bool() },
        _ => Choice::D((0..r.below(4)).map(|_| gen_string(r)).collect()),
    }
}

pub trait Probe: Sync {
    fn roundtrip(&self, rng: &mut Rng, out: &mut CaseOut);
    fn chunk(&self, rng: &mut Rng, out: &mut CaseOut, exhaustive: bool);
}

struct TypedProbe<T, G> {
    name: &'static str,
    gen: G,
    /// Compare `Debug` renderings as well (not for hash maps: their iteration order is arbitrary).
    exact_debug: bool,
    _t: std::marker::PhantomData<fn() -> T>,
}

/// Exact agreement: `==` and the same `Debug` rendering (tells -0.0 from 0.0).
pub fn same<T: PartialEq + Debug>(a: &T, b: &T) -> bool {
    a == b && format!("{a:?}") == format!("{b:?}")
}

impl<T, G> Probe for TypedProbe<T, G>
where
    T: RecognizerReadable + StructuralWritable + PartialEq + Debug + 'static,
    G: Fn(&mut Rng) -> T + Sync,
{
    fn roundtrip(&self, rng: &mut Rng, out: &mut CaseOut) {
        let v = (self.gen)(rng);
        out.sig(&self.name);
        out.sig(&format!("{v:?}"));
        out.nontrivial = true;
        let mut bad: Vec<(&str, &str, String, String)> = Vec::new();
        for (pi, pname) in PRINTERS.iter().enumerate() {
            let text = print_with(pi, &v);
            out.events += 1;
            match parse_recognize::<T>(text.as_str(), false) {
                Ok(back) => {
                    if !(if self.exact_debug { same(&back, &v) } else { back == v }) {
                        bad.push((pname, "differs", text, format!("{back:?}")));
                    }
                }
                Err(e) => bad.push((pname, "unparseable", text, format!("{e}"))),
            }
        }
        if let Some((_, what, text, got)) = bad.first() {
            let printers = if bad.len() == 3 { "all".to_string() } else { bad.iter().map(|b| b.0).collect::<Vec<_>>().join("+") };
            out.violation(
                P,
                format!("typed-roundtrip/{}/{}/printers={}", self.name, what, printers),
                format!("parse_recognize::<{}>(print(v)) does not give back v ({what})", self.name),
                json!({"value": clip(&format!("{v:?}")), "text": clip(text), "got": clip(got)}),
            );
        }
        if rng.chance(1, 50) {
            out.set_sample(json!({"type": self.name, "value": clip(&format!("{v:?}")), "text": clip(&print_with(0, &v))}));
        }
    }

    fn chunk(&self, rng: &mut Rng, out: &mut CaseOut, exhaustive: bool) {
        let v = (self.gen)(rng);
        let text = print_with(rng.usize_below(3), &v);
        crate::c09::check_chunkings::<T>(self.name, &text, exhaustive, self.exact_debug, rng, out);
    }
}

fn probe<T, G>(name: &'static str, gen: G) -> Box<dyn Probe>
where
    T: RecognizerReadable + StructuralWritable + PartialEq + Debug + 'static,
    G: Fn(&mut Rng) -> T + Sync + 'static,
{
    Box::new(TypedProbe { name, gen, exact_debug: !name.starts_with("HashMap"), _t: std::marker::PhantomData })
}

pub fn battery() -> Vec<Box<dyn Probe>> {
    vec![
        probe::<i32, _>("i32", g_i32),
        probe::<i64, _>("i64", g_i64),
        probe::<u32, _>("u32", g_u32),
        probe::<u64, _>("u64", g_u64),
        probe::<usize, _>("usize", |r| g_u64(r) as usize),
        probe::<f64, _>("f64", gen_finite_float),
        probe::<bool, _>("bool", |r| r.bool()),
        probe::<(), _>("unit", |_| ()),
        probe::<String, _>("String", gen_string),
        probe::<Text, _>("Text", |r| Text::new(&gen_string(r))),
        probe::<BigInt, _>("BigInt", gen_int),
        probe::<BigUint, _>("BigUint", |r| gen_int(r).magnitude().clone()),
        probe::<Blob, _>("Blob", |r| Blob::from_vec(gen_blob(r))),
        probe::<Vec<i32>, _>("Vec<i32>", |r| (0..r.below(5)).map(|_| g_i32(r)).collect()),
        probe::<Vec<String>, _>("Vec<String>", |r| (0..r.below(4)).map(|_| gen_string(r)).collect()),
        probe::<Vec<Vec<i32>>, _>("Vec<Vec<i32>>", |r| (0..r.below(3)).map(|_| (0..r.below(3)).map(|_| g_i32(r)).collect()).collect()),
        probe::<Option<i32>, _>("Option<i32>", |r| if r.bool() { Some(g_i32(r)) } else { None }),
        probe::<Option<String>, _>("Option<String>", |r| if r.bool() { Some(gen_string(r)) } else { None }),
        probe::<Arc<String>, _>("Arc<String>", |r| Arc::new(gen_string(r))),
        probe::<HashMap<String, i32>, _>("HashMap<String,i32>", |r| (0..r.below(4)).map(|_| (gen_string(r), g_i32(r))).collect()),
        probe::<HashMap<i32, String>, _>("HashMap<i32,String>", |r| (0..r.below(4)).map(|_| (g_i32(r), gen_string(r))).collect()),
        probe::<Simple, _>("derive:Simple", g_simple),
        probe::<Tagged, _>("derive:Tagged", |r| Tagged { f: g_i64(r), at: gen_string(r), opt: if r.bool() { Some(g_u32(r)) } else { None } }),
        probe::<WithHeader, _>("derive:WithHeader", |r| WithHeader { h: g_i32(r), hb: gen_string(r), x: gen_finite_float(r) }),
        probe::<WithBody, _>("derive:WithBody", |r| WithBody { h: gen_string(r), body: (0..r.below(4)).map(|_| g_i32(r)).collect() }),
        probe::<Unit, _>("derive:Unit", |_| Unit),
        probe::<Newtype, _>("derive:Newtype", |r| Newtype(g_u64(r))),
        probe::<Pair, _>("derive:Pair", |r| Pair(g_i32(r), gen_string(r))),
        probe::<Choice, _>("derive:Choice", g_choice),
        probe::<Generic<f64>, _>("derive:Generic<f64>", |r| Generic { inner: gen_finite_float(r) }),
        probe::<Generic<Simple>, _>("derive:Generic<Simple>", |r| Generic { inner: g_simple(r) }),
        probe::<Nested, _>("derive:Nested", |r| Nested {
            s: g_simple(r),
            c: g_choice(r),
            v: (0..r.below(3)).map(|_| g_simple(r)).collect(),
            g: Generic { inner: if r.bool() { Some(gen_string(r)) } else { None } },
            data: Blob::from_vec(gen_blob(r)),
            big: gen_int(r),
        }),
        probe::<OddTag, _>("derive:OddTag", |r| OddTag { n: g_i32(r) }),
        // (added for the attribute printer's delegated arms)
        probe::<AttrBodies, _>("derive:AttrBodies", g_attr_bodies),
        probe::<BodyItems, _>("derive:BodyItems", |r| BodyItems {
            i: BodyOf { b: g_i32(r) },
            l: BodyOf { b: g_i64(r) },
            u: BodyOf { b: g_u32(r) },
            ul: BodyOf { b: g_u64(r) },
            f: BodyOf { b: gen_finite_float(r) },
            p: BodyOf { b: r.bool() },
            big: BodyOf { b: gen_int(r) },
            ubig: BodyOf { b: gen_int(r).magnitude().clone() },
            t: BodyOf { b: gen_string(r) },
            data: BodyOf { b: Blob::from_vec(gen_blob(r)) },
        }),
        probe::<InHeader<BodyOf<Blob>>, _>("derive:InHeader<BodyOf<Blob>>", |r| InHeader { hb: BodyOf { b: Blob::from_vec(gen_blob(r)) }, x: g_i32(r) }),
        probe::<InHeader<BodyOf<f64>>, _>("derive:InHeader<BodyOf<f64>>", |r| InHeader { hb: BodyOf { b: gen_finite_float(r) }, x: g_i32(r) }),
        probe::<InHeader<BodyOf<BigInt>>, _>("derive:InHeader<BodyOf<BigInt>>", |r| InHeader { hb: BodyOf { b: gen_int(r) }, x: g_i32(r) }),
        probe::<InHeader<BodyOf<String>>, _>("derive:InHeader<BodyOf<String>>", |r| InHeader { hb: BodyOf { b: gen_string(r) }, x: g_i32(r) }),
    ]
}
