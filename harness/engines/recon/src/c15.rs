//! C15: comparing and hashing Recon text agrees with comparing parsed values.
//!
//! Whether two texts are valid and whether they denote equal values is decided only by
//! `parse_recognize::<Value>` and `Value::eq`; the labels attached to the generated pairs (which
//! re-formatting or edit produced the second text) are used for signatures, never for verdicts.

use std::collections::HashMap;
use std::hash::{Hash, Hasher};

use common::{json, sanitize_sig, CaseOut, Fnv, Rng, Session};
use swimos_model::Value;
use swimos_recon::{compare_recon_values, recon_hash};
use swimos_runtime::verif_hooks::ReconKey;

use crate::c09::guard;
use crate::gen::*;
use crate::util::{clip, parse_value, print_with, PRINTERS};

const P: &str = "C15";

fn text_hash(s: &str) -> u64 {
    let mut h = Fnv::default();
    recon_hash(s, &mut h);
    h.finish()
}

fn key_hash(k: &ReconKey) -> u64 {
    let mut h = Fnv::default();
    k.hash(&mut h);
    h.finish()
}

/// Signatures of the rules the pair breaks (empty: the pair satisfies every oracle). `out` gets
/// counters only; the caller decides what to report (after shrinking).
fn pair_rules(a: &str, b: &str, out: Option<&mut CaseOut>) -> Vec<(String, String)> {
    let mut rules: Vec<(String, String)> = Vec::new();
    let mut counters: Vec<&'static str> = Vec::new();
    // The parser panicking on an input is C09's matter; such a pair is skipped here.
    let (pa, pb) = match (guard(|| parse_value(a)), guard(|| parse_value(b))) {
        (Ok(x), Ok(y)) => (x, y),
        _ => {
            if let Some(o) = out {
                o.count("skipped_parser_panics(C09)");
            }
            return rules;
        }
    };
    let run = guard(|| {
        let cmp_ab = compare_recon_values(a, b);
        let cmp_ba = compare_recon_values(b, a);
        let (ha, hb) = (text_hash(a), text_hash(b));
        let (ka, kb) = (ReconKey::from(a), ReconKey::from(b));
        let key_eq = ka == kb;
        let (kha, khb) = (key_hash(&ka), key_hash(&kb));
        let mut m: HashMap<ReconKey, u8> = HashMap::new();
        m.insert(ka, 0);
        let found = m.contains_key(&kb);
        (cmp_ab, cmp_ba, ha, hb, key_eq, kha, khb, found)
    });
    let (cmp_ab, cmp_ba, ha, hb, key_eq, kha, khb, found) = match run {
        Ok(t) => t,
        Err(msg) => {
            rules.push((format!("panic-in-compare-or-hash/{}", sanitize_sig(&msg)), format!("compare / hash panicked although both texts go through the parser without panic: {msg}")));
            return rules;
        }
    };
    if cmp_ab != cmp_ba {
        rules.push(("compare-asymmetric".into(), format!("compare(a,b) = {cmp_ab} but compare(b,a) = {cmp_ba}")));
    }
    let both_valid = pa.is_ok() && pb.is_ok();
    let expected = match (&pa, &pb) {
        (Ok(va), Ok(vb)) => {
            counters.push(if va == vb { "both_valid_equal" } else { "both_valid_unequal" });
            va == vb
        }
        _ => {
            counters.push(if a == b { "some_invalid_same_string" } else { "some_invalid_different_string" });
            a == b
        }
    };
    if cmp_ab != expected {
        if both_valid {
            rules.push((
                format!("compare-disagrees-with-parsed-values/compare={cmp_ab}"),
                format!("both texts are valid; parsed values equal: {expected}; compare_recon_values: {cmp_ab}"),
            ));
        } else {
            rules.push((
                format!("invalid-text-not-compared-as-string/compare={cmp_ab}/valid={},{}", pa.is_ok(), pb.is_ok()),
                format!("at least one text is invalid, so comparison must be string equality ({expected}) but is {cmp_ab}"),
            ));
        }
    }
    if both_valid && expected && ha != hb {
        rules.push(("parsed-equal-but-hash-differs".into(), "the texts parse to equal values but recon_hash differs".into()));
    } else if cmp_ab && cmp_ab == expected && ha != hb {
        // (only when the comparison itself is right: a wrong `true` is reported above)
        rules.push(("compare-equal-but-hash-differs".into(), "compare_recon_values says equal but recon_hash differs".into()));
    }
    // ReconKey is a thin wrapper: report it only where it departs from the free functions, the
    // signatures above stand for both otherwise.
    if key_eq != cmp_ab {
        rules.push(("reconkey-eq-differs-from-compare".into(), format!("ReconKey == gives {key_eq}, compare_recon_values {cmp_ab}")));
    }
    if kha != ha || khb != hb {
        rules.push(("reconkey-hash-differs-from-recon-hash".into(), "ReconKey::hash and recon_hash feed different data to the hasher".into()));
    }
    // (A lookup can succeed by luck even when the hashes differ, so it is only counted.)
    if found != expected {
        counters.push(if found { "hashmap_merged_distinct_keys" } else { "hashmap_split_equal_keys" });
    }
    if let Some(o) = out {
        o.events += 6;
        for c in counters {
            o.count(c);
        }
    }
    rules
}

fn has_neg_zero(v: &Value) -> bool {
    use swimos_model::Item;
    match v {
        Value::Float64Value(x) => *x == 0.0 && x.is_sign_negative(),
        Value::Record(attrs, items) => {
            attrs.iter().any(|a| has_neg_zero(&a.value))
                || items.iter().any(|i| match i {
                    Item::ValueItem(x) => has_neg_zero(x),
                    Item::Slot(k, x) => has_neg_zero(k) || has_neg_zero(x),
                })
        }
        _ => false,
    }
}

/// (a line break that *separates two items* inside parentheses, a delimiter character inside a
/// string literal) – a lexical scan that knows about string literals and escapes.
fn text_traits(t: &str) -> (bool, bool) {
    let (mut nl_separator, mut delim_in_string) = (false, false);
    let (mut depth, mut in_str, mut esc) = (0i32, false, false);
    // Last significant (non-blank) character seen outside literals, and whether a line break has
    // been seen since.
    let (mut prev_sig, mut pending_nl) = (' ', false);
    for c in t.chars() {
        if in_str {
            if esc {
                esc = false;
            } else if c == '\\' {
                esc = true;
            } else if c == '"' {
                in_str = false;
                prev_sig = '"';
            } else if ",;:{}()".contains(c) {
                delim_in_string = true;
            }
            continue;
        }
        match c {
            '\n' | '\r' => {
                if depth > 0 {
                    pending_nl = true;
                }
            }
            ' ' | '\t' => {}
            _ => {
                if pending_nl && !"({,;:".contains(prev_sig) && !")},;".contains(c) {
                    nl_separator = true;
                }
                pending_nl = false;
                match c {
                    '"' => in_str = true,
                    '(' => depth += 1,
                    ')' => depth -= 1,
                    _ => {}
                }
                prev_sig = c;
            }
        }
    }
    (nl_separator, delim_in_string)
}

/// Name the syntactic feature a hash disagreement most plausibly hinges on (signature naming
/// only); `None` when no known feature is present, the pair's transformation label is used then.
fn hash_diff_class(a: &str, b: &str) -> Option<String> {
    let mut cls: Vec<&str> = Vec::new();
    if let (Ok(va), Ok(vb)) = (parse_value(a), parse_value(b)) {
        if has_neg_zero(&va) != has_neg_zero(&vb) {
            cls.push("float-signed-zero");
        }
    }
    let (ta, tb) = (text_traits(a), text_traits(b));
    if ta.0 || tb.0 {
        cls.push("newline-separator-in-attr-body");
    }
    if ta.1 || tb.1 {
        cls.push("delimiter-char-in-string-literal");
    }
    if cls.is_empty() {
        None
    } else {
        Some(cls.join("+"))
    }
}

fn report(a: &str, b: &str, label: &str, rules: &[(String, String)], minimal: Option<(String, String)>, out: &mut CaseOut) {
    for (rule, what) in rules {
        let (ma, mb) = minimal.clone().unwrap_or((a.to_string(), b.to_string()));
        let strip = |t: &str| t.chars().filter(|c| !"{} \t".contains(*c)).collect::<String>();
        let class = if rule.contains("hash-differs") {
            hash_diff_class(&ma, &mb)
        } else if rule.starts_with("compare-disagrees") && strip(&ma) == strip(&mb) {
            // the two texts differ only in where braces (and blanks) stand
            Some("brace-placement-only".to_string())
        } else {
            None
        };
        out.violation(
            P,
            format!("{rule}/{}", class.as_deref().unwrap_or(label)),
            what.clone(),
            json!({
                "a": clip(&ma), "b": clip(&mb),
                "parsed_a": clip(&format!("{:?}", parse_value(&ma))), "parsed_b": clip(&format!("{:?}", parse_value(&mb))),
                "compare": compare_recon_values(&ma, &mb), "hash_a": text_hash(&ma), "hash_b": text_hash(&mb),
                "original_a": clip(a), "original_b": clip(b), "pair_kind": label,
            }),
        );
    }
}

/// Check a pair built from a syntax tree by `make`; on violation shrink the tree while the same
/// rule still fires for the same label.
fn check_tree_pair(syn: &Syn, make: &dyn Fn(&Syn) -> Option<(String, String, String)>, out: &mut CaseOut) {
    let Some((a, b, label)) = make(syn) else {
        out.count("no_edit_site");
        return;
    };
    out.sig(&a);
    out.sig(&b);
    out.nontrivial = a != b;
    let rules = pair_rules(&a, &b, Some(out));
    if rules.is_empty() {
        return;
    }
    let first_rule = rules[0].0.clone();
    let mut cur = syn.clone();
    let mut budget = crate::util::shrink_budget() / 2;
    'outer: loop {
        for c in syn_shrinks(&cur) {
            budget -= 1;
            if budget <= 0 {
                break 'outer;
            }
            if let Some((ca, cb, cl)) = make(&c) {
                if cl == label && pair_rules(&ca, &cb, None).iter().any(|r| r.0 == first_rule) {
                    cur = c;
                    continue 'outer;
                }
            }
        }
        break;
    }
    let minimal = make(&cur).map(|(x, y, _)| (x, y));
    report(&a, &b, &label, &rules, minimal, out);
}

fn check_plain_pair(a: &str, b: &str, label: &str, out: &mut CaseOut) {
    out.sig(&a);
    out.sig(&b);
    let rules = pair_rules(a, b, Some(out));
    if !rules.is_empty() {
        report(a, b, label, &rules, None, out);
    }
}


// ------------------------------------------------------------------------------------------------
// Proper prefixes and structural (delimiter level) mutations: inputs that make the comparator's two
// event streams run in step for a long way and then end, or fail, at different points.

/// (byte offset, char) of every character outside string literals (the quotes themselves excluded).
fn outside_literals(t: &str) -> Vec<(usize, char)> {
    let (mut in_str, mut esc) = (false, false);
    let mut acc = Vec::new();
    for (i, c) in t.char_indices() {
        if in_str {
            if esc {
                esc = false;
            } else if c == '\\' {
                esc = true;
            } else if c == '"' {
                in_str = false;
            }
        } else if c == '"' {
            in_str = true;
        } else {
            acc.push((i, c));
        }
    }
    acc
}

/// A proper prefix of `t` (possibly empty), cut at a character boundary: after a delimiter, one
/// character short of the end, or anywhere. `None` for the empty text.
fn proper_prefix(t: &str, rng: &mut Rng) -> Option<(String, &'static str)> {
    if t.is_empty() {
        return None;
    }
    let bounds: Vec<usize> = t.char_indices().map(|(i, _)| i).collect();
    let (k, how) = match rng.below(4) {
        0 => (*bounds.last().unwrap(), "all-but-last-char"),
        1 => {
            let delims: Vec<usize> = outside_literals(t).into_iter().filter(|(i, c)| "{}():,;@".contains(*c) && i + c.len_utf8() < t.len()).map(|(i, c)| i + c.len_utf8()).collect();
            if delims.is_empty() {
                (*rng.pick(&bounds), "anywhere")
            } else {
                (*rng.pick(&delims), "after-delimiter")
            }
        }
        2 => {
            // just before a closing delimiter: everything open at that point stays open
            let closers: Vec<usize> = outside_literals(t).into_iter().filter(|(_, c)| "})".contains(*c)).map(|(i, _)| i).collect();
            if closers.is_empty() {
                (*rng.pick(&bounds), "anywhere")
            } else {
                (*rng.pick(&closers), "before-closer")
            }
        }
        _ => (*rng.pick(&bounds), "anywhere"),
    };
    Some((t[..k].to_string(), how))
}

/// Byte offset just after the `n`-th non-blank character of `t` (its length when there are fewer).
fn offset_after_nonblank(t: &str, n: usize) -> usize {
    let mut seen = 0;
    for (i, c) in t.char_indices() {
        if !c.is_whitespace() {
            seen += 1;
            if seen == n {
                return i + c.len_utf8();
            }
        }
    }
    t.len()
}

/// One delimiter-level edit outside string literals: a delimiter removed, inserted, or exchanged
/// for another one. `None` when the text offers no site.
fn delimiter_edit(t: &str, rng: &mut Rng) -> Option<(String, &'static str)> {
    let out = outside_literals(t);
    let delims: Vec<(usize, char)> = out.iter().copied().filter(|(_, c)| "{}():,;@".contains(*c)).collect();
    let mut s = t.to_string();
    match rng.below(4) {
        0 | 1 if !delims.is_empty() => {
            let (i, c) = *rng.pick(&delims);
            if rng.bool() {
                s.remove(i);
                Some((s, match c { '{' | '(' => "opener-removed", '}' | ')' => "closer-removed", ':' => "colon-removed", '@' => "at-removed", _ => "separator-removed" }))
            } else {
                let to = *rng.pick(&['{', '}', '(', ')', ':', ',']);
                if to == c {
                    return None;
                }
                s.replace_range(i..i + 1, &to.to_string());
                Some((s, "delimiter-exchanged"))
            }
        }
        _ => {
            // positions outside literals, plus the end of the text
            let mut sites: Vec<usize> = out.iter().map(|(i, _)| *i).collect();
            sites.push(t.len());
            let at = *rng.pick(&sites);
            let (ins, how) = *rng.pick(&[("}", "closer-inserted"), (")", "closer-inserted"), ("{", "opener-inserted"), ("(", "opener-inserted"), (":", "colon-inserted"), (",", "separator-inserted"), ("@", "at-inserted")]);
            s.insert_str(at, ins);
            Some((s, how))
        }
    }
}

/// The text with one blank added where the grammar skips blanks (after `{`, `(`, `,`, `;`): the same
/// token sequence in a different string. `None` when there is no such place.
fn respaced(t: &str, rng: &mut Rng) -> Option<String> {
    let sites: Vec<usize> = outside_literals(t).into_iter().filter(|(_, c)| "{(,;".contains(*c)).map(|(i, _)| i + 1).collect();
    if sites.is_empty() {
        return None;
    }
    let mut s = t.to_string();
    s.insert(*rng.pick(&sites), ' ');
    Some(s)
}

// ------------------------------------------------------------------------------------------------
// Hand-written pool of short spellings (all ordered pairs).

fn pool() -> Vec<(&'static str, &'static str)> {
    let mut p: Vec<(&'static str, &'static str)> = Vec::new();
    for s in ["0", "1", "-1", "01", "001", "-0", "-01", "0x1", "0X1", "0x01", "0b1", "0b01", "-0x1", "4294967296", "0x100000000",
              "18446744073709551615", "0xffffffffffffffff", "18446744073709551616", "0x10000000000000000", "-9223372036854775808", "-9223372036854775809",
              "340282366920938463463374607431768211456", "0x100000000000000000000000000000000"] {
        p.push(("int", s));
    }
    for s in ["0.0", "-0.0", "1.0", "1.00", "1e0", "1E0", "1e+0", "10e-1", "0.1e1", "+1.0", "1.5", "15e-1", "-1.0", "1e400", "-1e400", "1e-400", "4294967296.0", "1.8446744073709552e19", "0.1", "0.10000000000000001"] {
        p.push(("float", s));
    }
    for s in ["a", "\"a\"", "\"\\u0061\"", "\"\\uu0061\"", "\"a \"", "true", "\"true\"", "false", "\"1\"", "\"\"", "\"\\n\"", "\"\\u000a\"", "\"\n\"", "é", "\"é\"", "\"\\u00e9\"", "\"\\u00E9\"", "\"e\\u0301\""] {
        p.push(("text", s));
    }
    for s in ["%", "%AA==", "%AAA=", "%AAAA", "%AAAAAA==", "%/w==", "%_w=="] {
        p.push(("blob", s));
    }
    for s in ["", " ", "{}", "{ }", "{\n}", "{,}", "{;}", "{,,}", "{:}", "{1}", "{ 1 }", "{1,}", "{1\n}", "{1,2}", "{1;2}", "{1\n2}", "{1,\n2}", "{ 1 , 2 }", "{a:1}", "{a: 1}", "{\"a\":1}", "{a:}", "{a}", "{a:1,b:2}",
              "{b:2,a:1}", "{{}}", "{{1}}", "{{1,2}}", "{1:2:3}"] {
        p.push(("body", s));
    }
    for s in ["@a", "@a()", "@a{}", "@a {}", "@a(){}", "@\"a\"", "@a({})", "@a({}){}", "@a 1", "@a{1}", "@a {1}", "@a(1)", "@a({1})", "@a(1){}", "@a(1,2)", "@a({1,2})", "@a(1;2)", "@a({1,2}){}", "@a(b:1)", "@a({b:1})",
              "@a(b:1,c:2)", "@a({b:1,c:2})", "@a@b", "@a @b", "@a@b{}", "@a(@b)", "@a({@b})", "@a(@b{})", "@a{@b}", "@a @b 1", "@a{@b 1}", "@a{{1}}", "@a{1,2}", "@a {1,2}", "@a{b:1}", "@a b:1", "@a(){1}", "@a\n", "@a ",
              "@a(\n1\n)", "@a(1,)", "@a(,)", "@a(:)", "@a(1){2}", "@a(1) 2", "@a(1)2"] {
        p.push(("attr", s));
    }
    for s in ["{a:@b}", "{a:@b{}}", "{a:@b 1}", "{a:@b{1}}", "{@b:1}", "{@b{}:1}", "{@b 2:1}", "{@b{2}:1}", "{a:{}}", "{a:{1}}", "{{a}:1}", "{{}:1}", "{:1}", "{1,@b}", "{@b,1}", "{@b{},1}", "{@a(1)@b{2}}", "{@a(1) @b {2}}"] {
        p.push(("nested", s));
    }
    for s in ["{", "}", "@", "@a(", "\"a", "1e", "0x", "{a:1", "@a(1", "%A", "\\", "{1 2}", "@a(1 2)", "# c", "1 # c", "\"\\x\"", "\"\\ud800\"", "1 2", "a b", "{a:1}}", "@a(1))"] {
        p.push(("invalid-looking", s));
    }
    p
}

// ------------------------------------------------------------------------------------------------

pub fn run(s: &mut Session) {
    let mut pool = pool();
    if s.args.scale < 0.05 {
        // scaled-down (interpreter) runs: a thinned pool
        pool = pool.into_iter().step_by(if cfg!(miri) { 20 } else { 6 }).collect();
    }
    let n = pool.len();
    s.note(format!("spelling pool size {n}"));
    if crate::want(s, "spelling-pool") { s.part(
        "spelling-pool",
        "one case per pool text a: all ordered pairs (a, b) over a pool of short hand-written spellings (ints, floats, texts, blobs, bodies, attributes, nested, invalid-looking): compare == (parsed values equal) when both parse, else string equality; symmetry; equal => same recon_hash; ReconKey Eq/Hash/HashMap agree; non-trivial always; distinct by row",
        true,
        n as u64,
        |i, _rng, out| {
            let (ta, a) = pool[i as usize];
            out.nontrivial = true;
            for (tb, b) in &pool {
                let label = if ta <= *tb { format!("pool:{ta}~{tb}") } else { format!("pool:{tb}~{ta}") };
                let rules = pair_rules(a, b, Some(out));
                if !rules.is_empty() {
                    report(a, b, &label, &rules, None, out);
                }
            }
            out.add("pairs", n as u64);
            if i < 3 {
                out.set_sample(json!({"a": a, "partners": n}));
            }
        },
    ); }

    let cases = s.args.budget(70_000, 7_000_000);
    let nv = VARIANTS.len() as u64;
    if crate::want(s, "reformat-pairs") { s.part(
        "reformat-pairs",
        "a generated syntax tree rendered canonically vs. rendered with ONE uniformly applied formatting variant (26 variants cycled: whitespace, separators, numeric spellings, string/attr-name quoting and escapes, explicit/implicit bodies, attr-body parens/braces), vs. the three printers' output of its parsed value, and two independent random-style renderings: all C15 oracles; non-trivial when the two texts differ; distinct by the two texts",
        false,
        cases,
        |i, rng, out| {
            let syn = gen_syn(rng);
            match i % (nv + 5) {
                k if k < nv => {
                    let variant = VARIANTS[k as usize];
                    check_tree_pair(&syn, &|t| Some((render(t, Mode::Canonical), render(t, Mode::Variant(variant)), format!("reformat:{variant}"))), out);
                    if rng.chance(1, 500) {
                        out.set_sample(json!({"variant": variant, "a": clip(&render(&syn, Mode::Canonical)), "b": clip(&render(&syn, Mode::Variant(variant)))}));
                    }
                }
                k if k < nv + 3 => {
                    let which = (k - nv) as usize;
                    check_tree_pair(
                        &syn,
                        &|t| {
                            let a = render(t, Mode::Canonical);
                            let v = guard(|| parse_value(&a)).ok()?.ok()?;
                            Some((a, print_with(which, &v), format!("printer:{}", PRINTERS[which])))
                        },
                        out,
                    );
                }
                _ => {
                    let (s1, s2) = (rng.next_u64(), rng.next_u64());
                    check_tree_pair(&syn, &|t| Some((render(t, Mode::Random(Rng::new(s1))), render(t, Mode::Random(Rng::new(s2))), "reformat:mixed-random-styles".to_string())), out);
                }
            }
        },
    ); }

    let cases = s.args.budget(70_000, 7_000_000);
    if crate::want(s, "near-miss-pairs") { s.part(
        "near-miss-pairs",
        "a generated syntax tree vs. the same tree after one small edit (leaf changed / negated / re-typed, item dropped, duplicated, swapped, slot<->value, attribute renamed / dropped / swapped, body wrapped ...), both rendered in the same style: all C15 oracles; non-trivial when the texts differ; distinct by the two texts",
        false,
        cases,
        |_i, rng, out| {
            let syn = gen_syn(rng);
            let edit_seed = rng.next_u64();
            let style_seed = rng.next_u64();
            let styled = rng.chance(1, 3);
            check_tree_pair(
                &syn,
                &|t| {
                    let mut t2 = t.clone();
                    let label = near_miss(&mut t2, &mut Rng::new(edit_seed))?;
                    let mode = |seed| if styled { Mode::Random(Rng::new(seed)) } else { Mode::Canonical };
                    Some((render(t, mode(style_seed)), render(&t2, mode(style_seed)), format!("near-miss:{label}")))
                },
                out,
            );
        },
    ); }

    let cases = s.args.budget(50_000, 5_000_000);
    if crate::want(s, "invalid-pairs") { s.part(
        "invalid-pairs",
        "char-mutated texts (mostly invalid) paired with themselves, with a copy differing in trailing/leading whitespace, with the valid text they came from, with an independent mutated text and with an independent valid text; plus valid texts with trailing garbage: comparison must be string equality whenever one side does not parse; non-trivial when at least one text is invalid; distinct by the two texts",
        false,
        cases,
        |i, rng, out| {
            let syn = gen_syn(rng);
            let orig = render(&syn, if rng.bool() { Mode::Canonical } else { Mode::Random(rng.fork()) });
            let m = mutate_text(&orig, rng);
            let (a, b, label): (String, String, &str) = match i % 7 {
                0 => (m.clone(), m.clone(), "invalid:identical"),
                1 => (m.clone(), format!("{m} "), "invalid:trailing-space"),
                2 => (m.clone(), format!(" {m}"), "invalid:leading-space"),
                3 => (m.clone(), orig.clone(), "invalid:vs-unmutated-original"),
                4 => {
                    let (o, _) = gen_text(rng, 100);
                    (m.clone(), o, "invalid:vs-independent-mutated")
                }
                5 => {
                    let (o, _) = gen_text(rng, 0);
                    (m.clone(), o, "invalid:vs-independent-valid")
                }
                _ => {
                    let g = *rng.pick(&[" }", " )", " 1", ",", " @", " \"", " x y", "\n{", " #c"]);
                    check_tree_pair(&syn, &|t| {
                        let o = render(t, Mode::Canonical);
                        Some((o.clone(), format!("{o}{g}"), "invalid:valid-plus-trailing-garbage".to_string()))
                    }, out);
                    return;
                }
            };
            out.nontrivial = guard(|| parse_value(&a).is_err() || parse_value(&b).is_err()).unwrap_or(false);
            check_plain_pair(&a, &b, label, out);
            if rng.chance(1, 500) {
                out.set_sample(json!({"label": label, "a": clip(&a), "b": clip(&b)}));
            }
        },
    ); }


    // Proper prefixes and delimiter-level edits: the two event streams of a pair run in step for a
    // long way and then one of them ends or fails. Validity is decided by the parser as everywhere
    // else (a prefix such as `@a` of `@a(1)` is itself valid), the pair kinds only name the workload.
    let cases = s.args.budget(60_000, 6_000_000);
    if crate::want(s, "prefix-pairs") { s.part(
        "prefix-pairs",
        "a generated text vs. its own proper prefix (cut after a delimiter / before a closer / one char short / anywhere), two different prefixes of one text, a prefix vs. itself, a prefix vs. the whole text in another formatting, prefixes of two whitespace-only re-formattings holding the same tokens, and texts with one delimiter removed / inserted / exchanged vs. the original, vs. a second such edit and vs. themselves re-spaced: whenever one side does not parse comparison must be string equality (in both argument orders), otherwise it must agree with the parsed values; equal => same recon_hash; ReconKey agrees; non-trivial when at least one text is invalid; distinct by the two texts",
        false,
        cases,
        |i, rng, out| {
            let syn = gen_syn(rng);
            let orig = render(&syn, if rng.bool() { Mode::Canonical } else { Mode::Random(rng.fork()) });
            let made: Option<(String, String, String)> = match i % 9 {
                0 => proper_prefix(&orig, rng).map(|(p, how)| (orig.clone(), p, format!("prefix:text-vs-own-prefix/{how}"))),
                1 => proper_prefix(&orig, rng).map(|(p, how)| (p, orig.clone(), format!("prefix:text-vs-own-prefix/{how}"))),
                2 => match (proper_prefix(&orig, rng), proper_prefix(&orig, rng)) {
                    (Some((p, _)), Some((q, _))) if p != q => Some((p, q, "prefix:two-prefixes-of-one-text".to_string())),
                    _ => None,
                },
                3 => proper_prefix(&orig, rng).map(|(p, _)| (p.clone(), String::from(p.as_str()), "prefix:identical".to_string())),
                4 => proper_prefix(&orig, rng).map(|(p, _)| {
                    let whole = render(&syn, Mode::Random(rng.fork()));
                    (p, whole, "prefix:vs-whole-text-reformatted".to_string())
                }),
                5 => {
                    // the same tokens up to the cut, blanks differ: both fail at the same event
                    let variant = *rng.pick(&["whitespace/spaces", "whitespace/tabs", "whitespace/newlines"]);
                    let (a, b) = (render(&syn, Mode::Canonical), render(&syn, Mode::Variant(variant)));
                    let total = a.chars().filter(|c| !c.is_whitespace()).count();
                    if total < 2 {
                        None
                    } else {
                        let n = 1 + rng.usize_below(total - 1);
                        let (ka, kb) = (offset_after_nonblank(&a, n), offset_after_nonblank(&b, n));
                        Some((a[..ka].to_string(), b[..kb].to_string(), "prefix:same-tokens-other-blanks".to_string()))
                    }
                }
                6 => delimiter_edit(&orig, rng).map(|(m, how)| if rng.bool() { (m, orig.clone(), format!("delimiter-edit:vs-original/{how}")) } else { (orig.clone(), m, format!("delimiter-edit:vs-original/{how}")) }),
                7 => match (delimiter_edit(&orig, rng), delimiter_edit(&orig, rng)) {
                    (Some((m1, _)), Some((m2, _))) if m1 != m2 => Some((m1, m2, "delimiter-edit:two-edits-of-one-text".to_string())),
                    _ => None,
                },
                _ => delimiter_edit(&orig, rng).and_then(|(m, _)| respaced(&m, rng).map(|m2| (m, m2, "delimiter-edit:vs-itself-respaced".to_string()))),
            };
            let Some((a, b, label)) = made else {
                out.count("no_site");
                return;
            };
            let kind = label.split('/').next().unwrap_or("");
            out.count(kind);
            match (guard(|| parse_value(&a).is_ok()), guard(|| parse_value(&b).is_ok())) {
                (Ok(va), Ok(vb)) => {
                    out.nontrivial = !va || !vb;
                    out.count(match (va, vb) { (true, true) => "both_texts_valid", (false, false) => "both_texts_invalid", _ => "one_text_invalid" });
                    if !va && !vb && a != b {
                        out.count("both_invalid_and_different_strings");
                    }
                }
                _ => {}
            }
            check_plain_pair(&a, &b, &label, out);
            if rng.chance(1, 500) {
                out.set_sample(json!({"label": label, "a": clip(&a), "b": clip(&b)}));
            }
        },
    ); }

    // Bounded-exhaustive: every string of up to L tokens over a small alphabet; all ordered pairs
    // of the valid ones.
    let max_len = s.args.extra_u64("enum-len").unwrap_or(if s.args.scale < 0.5 { 3 } else { 6 }) as usize;
    const ALPHABET: &[&str] = &["@a", "(", ")", "{", "}", ",", ":", "1", "b", " ", "\n"];
    let mut strings: Vec<(String, Vec<u8>)> = vec![(String::new(), vec![])];
    let mut frontier = strings.clone();
    for _ in 0..max_len {
        let mut next = Vec::new();
        for (t, toks) in &frontier {
            for (k, tok) in ALPHABET.iter().enumerate() {
                // "@a" directly followed by "1" / "b" is a different attribute name: keep the
                // alphabet's tokens distinct by not generating those adjacencies.
                if toks.last() == Some(&0) && (k == 7 || k == 8) {
                    continue;
                }
                if (toks.last() == Some(&7) || toks.last() == Some(&8)) && (k == 7 || k == 8) {
                    continue;
                }
                let mut t2 = t.clone();
                t2.push_str(tok);
                let mut k2 = toks.clone();
                k2.push(k as u8);
                next.push((t2, k2));
            }
        }
        strings.extend(next.iter().cloned());
        frontier = next;
    }
    let total_strings = strings.len();
    // All strings (valid or not) of up to `all_len` tokens, for the part that pairs every string
    // with every other one.
    let all_len = s.args.extra_u64("enum-all-len").unwrap_or(if s.args.scale < 0.05 { 1 } else if s.args.scale < 0.5 { 2 } else if s.args.thorough() { 4 } else { 3 }) as usize;
    let short: Vec<(String, Vec<u8>)> = strings.iter().filter(|(_, k)| k.len() <= all_len).cloned().collect();
    let valid: Vec<(String, Vec<u8>, Value, u64)> = strings
        .into_iter()
        .filter_map(|(t, k)| {
            let v = guard(|| parse_value(&t)).ok()?.ok()?;
            let h = text_hash(&t);
            Some((t, k, v, h))
        })
        .collect();
    // The parser ignores whatever follows a complete top-level value ("1 }" is 1). Such strings only
    // inflate the classes: drop a string when cutting its last (non-blank) token leaves a valid
    // string with the same value.
    let by_text: std::collections::HashMap<&str, &Value> = valid.iter().map(|(t, _, v, _)| (t.as_str(), v)).collect();
    let keep: Vec<bool> = valid
        .iter()
        .map(|(t, k, v, _)| match k.last() {
            Some(&last) if last < 9 => {
                let prefix = &t[..t.len() - ALPHABET[last as usize].len()];
                !matches!(by_text.get(prefix), Some(pv) if format!("{pv:?}") == format!("{v:?}"))
            }
            _ => true,
        })
        .collect();
    drop(by_text);
    let n_valid = valid.len();
    let valid: Vec<(String, Vec<u8>, Value, u64)> = valid.into_iter().zip(keep).filter(|(_, k)| *k).map(|(x, _)| x).collect();
    s.note(format!("token-enum: {total_strings} strings of <= {max_len} tokens, {n_valid} valid, {} without ignored trailing tokens", valid.len()));
    // Group the valid strings by parsed value (the Debug rendering is exact for `Value`; groups of
    // values that are `==` across numeric kinds cannot arise from this alphabet).
    let mut groups: std::collections::BTreeMap<String, Vec<usize>> = std::collections::BTreeMap::new();
    for (i, (_, _, v, _)) in valid.iter().enumerate() {
        groups.entry(format!("{v:?}")).or_default().push(i);
    }
    let groups: Vec<Vec<usize>> = groups.into_values().collect();
    s.note(format!("token-enum: {} distinct values, largest class {}", groups.len(), groups.iter().map(|g| g.len()).max().unwrap_or(0)));
    let stride = s.args.extra_u64("enum-stride").unwrap_or(if s.args.scale < 1.0 { (1.0 / s.args.scale) as u64 } else { 1 }).max(1);
    // Second grouping, aimed at *false positives* of the comparator: strings that carry the same
    // sequence of non-structural tokens (braces and blanks removed) are the ones an event-stream
    // heuristic could confuse; all ordered pairs inside such a bucket are checked.
    let mut buckets: std::collections::BTreeMap<Vec<u8>, Vec<usize>> = std::collections::BTreeMap::new();
    for (i, (_, k, _, _)) in valid.iter().enumerate() {
        let key: Vec<u8> = k.iter().copied().filter(|t| *t != 3 && *t != 4 && *t != 9).collect();
        buckets.entry(key).or_default().push(i);
    }
    let mut groups = groups;
    let n_classes = groups.len();
    let bucket_list: Vec<Vec<usize>> = buckets.into_values().filter(|b| b.len() >= 2).collect();
    s.note(format!("token-enum: {} same-leaf-sequence buckets, largest {}", bucket_list.len(), bucket_list.iter().map(|g| g.len()).max().unwrap_or(0)));
    groups.extend(bucket_list);
    let rows: Vec<usize> = (0..groups.len()).step_by(stride as usize).collect();
    let cross = if s.args.thorough() { 40 } else { 6 };
    let cap = if s.args.thorough() { 1200 } else { 300 };
    if crate::want(s, "token-enum-pairs") { s.part(
        "token-enum-pairs",
        "every string of up to L tokens (L = 6; 3 when scaled down) over {@a ( ) { } , : 1 b space newline} that parses, grouped (1) by parsed value and (2) by the sequence of non-brace, non-blank tokens; one case per class / bucket: ALL ordered pairs inside it (300, thorough 1200, random partners per member when larger): compare == (parsed values equal), equal => same recon_hash; class members additionally meet 6 (thorough 40) random other strings; non-trivial when the group has >= 2 members; distinct by group",
        stride == 1,
        rows.len() as u64,
        |i, rng, out| {
            let group = &groups[rows[i as usize]];
            let is_bucket = rows[i as usize] >= n_classes;
            out.count(if is_bucket { "bucket_cases" } else { "class_cases" });
            let mut pairs: Vec<(usize, usize)> = Vec::new();
            for &x in group {
                if group.len() <= cap {
                    for &y in group {
                        pairs.push((x, y));
                    }
                } else {
                    out.count("large_class_sampled");
                    for _ in 0..cap {
                        pairs.push((x, group[rng.usize_below(group.len())]));
                    }
                }
                for _ in 0..(if is_bucket { 0 } else { cross }) {
                    pairs.push((x, rng.usize_below(valid.len())));
                    let l = pairs.len() - 1;
                    if rng.bool() {
                        pairs[l] = (pairs[l].1, pairs[l].0);
                    }
                }
            }
            out.nontrivial = group.len() >= 2;
            out.events += pairs.len() as u64;
            out.add("pairs", pairs.len() as u64);
            if !is_bucket {
                out.add("equal_pairs_spelled_differently", (group.len() * (group.len() - 1)) as u64);
            }
            if i < 2 {
                out.set_sample(json!({"class_value": format!("{:?}", valid[group[0]].2), "spellings": group.iter().take(8).map(|g| valid[*g].0.clone()).collect::<Vec<_>>()}));
            }
            for (x, y) in pairs {
                let (a, ka, va, ha) = &valid[x];
                let (b, kb, vb, hb) = &valid[y];
                let expected = va == vb;
                let cmp = match guard(|| compare_recon_values(a, b)) {
                    Ok(c) => c,
                    Err(msg) => {
                        out.violation(P, format!("panic-in-compare-or-hash/{}", sanitize_sig(&msg)), "compare panicked", json!({"a": a, "b": b}));
                        return;
                    }
                };
                let mut rules: Vec<(String, String)> = Vec::new();
                if cmp != expected {
                    rules.push((format!("compare-disagrees-with-parsed-values/compare={cmp}"), format!("both texts are valid; parsed values equal: {expected}; compare_recon_values: {cmp}")));
                }
                if expected && ha != hb {
                    rules.push(("parsed-equal-but-hash-differs".into(), "the texts parse to equal values but recon_hash differs".into()));
                }
                if !rules.is_empty() {
                    // Label: the token kinds present in one text only (multiset difference).
                    let diff = |x: &Vec<u8>, y: &Vec<u8>| {
                        let mut rest = y.clone();
                        let mut only: Vec<&str> = Vec::new();
                        for t in x {
                            if let Some(p) = rest.iter().position(|r| r == t) {
                                rest.remove(p);
                            } else {
                                only.push(match ALPHABET[*t as usize] { " " => "space", "\n" => "newline", o => o });
                            }
                        }
                        only.sort();
                        only.join("")
                    };
                    let (d1, d2) = (diff(ka, kb), diff(kb, ka));
                    let (d1, d2) = if d1 <= d2 { (d1, d2) } else { (d2, d1) };
                    let label = format!("token-enum:only-in-one=[{d1}]/only-in-other=[{d2}]");
                    report(a, b, &label, &rules, None, out);
                }
            }
        },
    ); }

    // Every short string, valid or not, against every other one.
    let n_short = short.len();
    s.note(format!("token-enum-all-strings: {n_short} strings of <= {all_len} tokens"));
    if crate::want(s, "token-enum-all-strings") { s.part(
        "token-enum-all-strings",
        "EVERY string of up to L tokens (L = 3; thorough 4; 2 or 1 when scaled down) over the same alphabet, valid or not; one case per string a: all pairs (a, b) with b not before a in the enumeration, compared in both argument orders: whenever one side does not parse compare == (a == b), otherwise compare == (parsed values equal); symmetric; equal => same recon_hash; ReconKey agrees; no panic; non-trivial always; distinct by a",
        true,
        n_short as u64,
        |i, _rng, out| {
            let (a, _ka) = &short[i as usize];
            out.nontrivial = true;
            out.sig(a);
            let a_valid = matches!(guard(|| parse_value(a).is_ok()), Ok(true));
            out.count(if a_valid { "valid_rows" } else { "invalid_rows" });
            for (b, _kb) in &short[i as usize..] {
                let rules = pair_rules(a, b, Some(out));
                if !rules.is_empty() {
                    // (One coarse label: the rule names already say which side is valid, and a
                    // comparator fault hits thousands of these pairs at once.)
                    report(a, b, "token-enum-all", &rules, None, out);
                }
            }
            out.add("pairs", (n_short - i as usize) as u64);
            if i % 400 == 7 {
                out.set_sample(json!({"a": a, "a_valid": a_valid, "partners": n_short - i as usize}));
            }
        },
    ); }
}
