//! Generators: a small Recon *syntax tree* (`Syn`) with a styled renderer (used for grammar texts,
//! re-formattings and near-miss mutations), char/byte level mutators and a generator of arbitrary
//! model `Value`s.
//!
//! Nothing in this file is an oracle: whether two renderings denote equal values, or whether a text
//! is valid at all, is always decided by the real parser in the parts.

use common::Rng;
use swimos_model::identifier::is_identifier;
use swimos_model::{Attr, BigInt, Blob, Item, Text, Value};

/// Small-input mode (interpreter / sanitizer passes run at a tiny `--scale`): trees of a few nodes,
/// chains of depth <= 6.
pub static SMALL: std::sync::atomic::AtomicBool = std::sync::atomic::AtomicBool::new(false);

fn small() -> bool {
    SMALL.load(std::sync::atomic::Ordering::Relaxed)
}

// ------------------------------------------------------------------------------------------------
// Syntax tree

#[derive(Clone, Debug)]
pub enum Leaf {
    Extant,
    Bool(bool),
    Int(BigInt),
    Float(f64),
    Text(String),
    Blob(Vec<u8>),
}

#[derive(Clone, Debug)]
pub enum Syn {
    Leaf(Leaf),
    /// Attributes and an optional body (`None`: no braces at all; only rendered that way when
    /// there is at least one attribute).
    Rec(Vec<SAttr>, Option<Vec<SItem>>),
}

#[derive(Clone, Debug)]
pub struct SAttr {
    pub name: String,
    /// `None`: `@a`; `Some(items)`: `@a(items)`.
    pub body: Option<Vec<SItem>>,
}

#[derive(Clone, Debug)]
pub enum SItem {
    Val(Syn),
    Slot(Syn, Syn),
}

pub const INT_POOL: &[&str] = &[
    "0", "1", "-1", "2", "7", "10", "42", "255", "-128",
    "2147483647", "2147483648", "-2147483648", "-2147483649",
    "4294967295", "4294967296",
    "9223372036854775807", "9223372036854775808", "-9223372036854775808", "-9223372036854775809",
    "18446744073709551615", "18446744073709551616",
    "170141183460469231731687303715884105727", "170141183460469231731687303715884105728",
    "-170141183460469231731687303715884105728", "-170141183460469231731687303715884105729",
    "340282366920938463463374607431768211456", "9007199254740993",
];

pub const FLOAT_POOL: &[f64] = &[
    0.0, -0.0, 1.0, -1.0, 0.5, 1.5, -2.25, 0.1, 1e-7, 1e21, 1e16, 123456789.125,
    f64::MIN_POSITIVE, 5e-324, -5e-324, 2.2250738585072009e-308, f64::MAX, f64::MIN, f64::EPSILON,
    9007199254740993.0, 1e300, -1e-300, 3.141592653589793, 4294967296.0, 1e22, 1e23,
];

const IDENTS: &[&str] = &["a", "b", "c", "k", "v", "name", "tag", "id", "x1", "a-b", "_u", "Ab", "é", "名"];

/// Characters that matter for quoting / escaping / UTF-8 cutting.
pub const CHAR_POOL: &[char] = &[
    'a', 'b', 'Z', '0', '9', '_', '-', ' ', '\t', '\n', '\r', '\u{0}', '\u{1}', '\u{8}', '\u{c}', '\u{1f}', '\u{7f}',
    '"', '\\', '\'', '@', '{', '}', '(', ')', ':', ',', ';', '%', '#', '.', '/', '=', '+',
    '\u{80}', '\u{a0}', '\u{b7}', 'é', '\u{d7}', '\u{f7}', '\u{37e}', '\u{7ff}', '\u{800}', '\u{2028}', '\u{200c}',
    '\u{d7ff}', '\u{e000}', '\u{f8ff}', '\u{fdd0}', '\u{fffd}', '\u{fffe}', '\u{ffff}',
    '\u{10000}', '\u{1f600}', '\u{effff}', '\u{f0000}', '\u{10ffff}', '\u{301}',
];

pub const TEXT_POOL: &[&str] = &[
    "", "a", "abc", "true", "false", "True", "1", "1a", "a1", "-a", "a b", " a", "a ", "two words", "\"", "\\", "\\n", "\n",
    "a\"b", "a\\b", "null", "inf", "NaN", "nan", "infinity", "0x1", "%AAAA", "@a", "{}", "a:b", "a,b", "#c", "é", "e\u{301}",
    "\u{10000}", "\u{ffff}", "\u{d7ff}\u{e000}", "\u{0}", "\u{1f}", "\u{7f}", "\u{80}", "line1\r\nline2", "tab\there",
];

pub fn gen_int(rng: &mut Rng) -> BigInt {
    match rng.below(6) {
        0 | 1 => BigInt::from(rng.range_i64(-20, 20)),
        2 | 3 => rng.pick(INT_POOL).parse().unwrap(),
        4 => BigInt::from(rng.next_u64() as i64) >> rng.usize_below(64),
        _ => {
            let digits = rng.range(20, 80) as usize;
            let mut s = String::new();
            if rng.bool() {
                s.push('-');
            }
            s.push((b'1' + rng.below(9) as u8) as char);
            for _ in 1..digits {
                s.push((b'0' + rng.below(10) as u8) as char);
            }
            s.parse().unwrap()
        }
    }
}

pub fn gen_finite_float(rng: &mut Rng) -> f64 {
    match rng.below(6) {
        0 | 1 => *rng.pick(FLOAT_POOL),
        2 => rng.range_i64(-1000, 1000) as f64 / 8.0,
        3 => rng.range_i64(-100, 100) as f64,
        4 => (rng.f64_unit() - 0.5) * 10f64.powi(rng.range_i64(-30, 30) as i32),
        _ => loop {
            let x = f64::from_bits(rng.next_u64());
            if x.is_finite() {
                break x;
            }
        },
    }
}

pub fn gen_string(rng: &mut Rng) -> String {
    match rng.below(10) {
        0..=2 => rng.pick(IDENTS).to_string(),
        3..=5 => rng.pick(TEXT_POOL).to_string(),
        6 => {
            // identifier-like word
            let len = rng.range(1, 8);
            let mut s = String::new();
            s.push(*rng.pick(&['a', 'q', 'Z', '_', 'é', '\u{3001}', '\u{10000}', '\u{b7}']));
            for _ in 1..len {
                s.push(*rng.pick(&['a', 'e', 'z', '0', '9', '-', '_', 'é', '\u{effff}']));
            }
            s
        }
        _ => {
            let len = rng.below(10);
            (0..len).map(|_| *rng.pick(CHAR_POOL)).collect()
        }
    }
}

pub fn gen_blob(rng: &mut Rng) -> Vec<u8> {
    let len = *rng.pick(&[0usize, 0, 1, 2, 3, 4, 5, 6, 7, 16, 33]);
    (0..len)
        .map(|_| if rng.chance(1, 3) { *rng.pick(&[0u8, 255, 0x3e, 0x3f, 0xfb, 0xff]) } else { rng.below(256) as u8 })
        .collect()
}

pub fn gen_leaf(rng: &mut Rng) -> Leaf {
    match rng.below(20) {
        0 => Leaf::Extant,
        1 | 2 => Leaf::Bool(rng.bool()),
        3..=8 => Leaf::Int(gen_int(rng)),
        9..=11 => Leaf::Float(gen_finite_float(rng)),
        12..=17 => Leaf::Text(gen_string(rng)),
        _ => Leaf::Blob(gen_blob(rng)),
    }
}

fn gen_attr_name(rng: &mut Rng) -> String {
    if rng.chance(4, 5) {
        rng.pick(IDENTS).to_string()
    } else {
        gen_string(rng)
    }
}

fn gen_items(rng: &mut Rng, budget: &mut usize, depth: u32, max: u64) -> Vec<SItem> {
    let n = rng.below(max + 1);
    (0..n)
        .map(|_| {
            if rng.chance(3, 5) {
                SItem::Val(gen_syn_b(rng, budget, depth))
            } else {
                let key = if rng.chance(4, 5) { Syn::Leaf(gen_leaf(rng)) } else { gen_syn_b(rng, budget, depth) };
                SItem::Slot(key, gen_syn_b(rng, budget, depth))
            }
        })
        .collect()
}

fn gen_syn_b(rng: &mut Rng, budget: &mut usize, depth: u32) -> Syn {
    if depth == 0 || *budget == 0 || rng.chance(9, 20) {
        return Syn::Leaf(gen_leaf(rng));
    }
    *budget -= 1;
    let n_attrs = *rng.pick(&[0u32, 0, 1, 1, 1, 2, 3]);
    let attrs: Vec<SAttr> = (0..n_attrs)
        .map(|_| {
            let body = match rng.below(5) {
                0 | 1 => None,
                2 => Some(vec![SItem::Val(gen_syn_b(rng, budget, depth - 1))]),
                _ => Some(gen_items(rng, budget, depth - 1, 3)),
            };
            SAttr { name: gen_attr_name(rng), body }
        })
        .collect();
    let body = if attrs.is_empty() {
        Some(gen_items(rng, budget, depth - 1, 4))
    } else {
        match rng.below(5) {
            0 | 1 => None,
            2 => Some(vec![SItem::Val(Syn::Leaf(gen_leaf(rng)))]),
            3 => Some(vec![SItem::Val(gen_syn_b(rng, budget, depth - 1))]),
            _ => Some(gen_items(rng, budget, depth - 1, 4)),
        }
    };
    Syn::Rec(attrs, body)
}

/// Wrap `inner` `depth` times in single-child constructs (nesting up to the requested depth).
pub fn gen_deep(rng: &mut Rng, depth: u32) -> Syn {
    let mut cur = Syn::Leaf(gen_leaf(rng));
    for _ in 0..depth {
        let name = rng.pick(IDENTS).to_string();
        cur = match rng.below(7) {
            0 => Syn::Rec(vec![], Some(vec![SItem::Val(cur)])),
            1 => Syn::Rec(vec![SAttr { name, body: Some(vec![SItem::Val(cur)]) }], None),
            2 => Syn::Rec(vec![SAttr { name, body: None }], Some(vec![SItem::Val(cur)])),
            3 => Syn::Rec(vec![], Some(vec![SItem::Slot(Syn::Leaf(Leaf::Text("k".into())), cur)])),
            4 => Syn::Rec(vec![], Some(vec![SItem::Slot(cur, Syn::Leaf(Leaf::Int(BigInt::from(1))))])),
            5 => Syn::Rec(vec![], Some(vec![SItem::Val(Syn::Leaf(gen_leaf(rng))), SItem::Val(cur)])),
            _ => Syn::Rec(vec![SAttr { name, body: Some(vec![SItem::Slot(Syn::Leaf(Leaf::Text("k".into())), cur)]) }], Some(vec![])),
        };
    }
    cur
}

/// A syntax tree: mostly small, sometimes wide, sometimes a deep chain (depth <= 64).
pub fn gen_syn(rng: &mut Rng) -> Syn {
    if small() {
        return match rng.below(6) {
            0 => {
                let d = rng.range(1, 6) as u32;
                gen_deep(rng, d)
            }
            1 => Syn::Leaf(gen_leaf(rng)),
            _ => {
                let mut budget = 4;
                gen_syn_b(rng, &mut budget, 2)
            }
        };
    }
    match rng.below(20) {
        0 => {
            let d = rng.range(1, 64) as u32;
            gen_deep(rng, d)
        }
        1 | 2 => {
            let mut budget = 200;
            gen_syn_b(rng, &mut budget, 6)
        }
        3 => Syn::Leaf(gen_leaf(rng)),
        _ => {
            let mut budget = 12;
            gen_syn_b(rng, &mut budget, 3)
        }
    }
}

// ------------------------------------------------------------------------------------------------
// Rendering

/// One uniformly applied deviation from the canonical rendering ("feature/sub-kind").
pub const VARIANTS: &[&str] = &[
    "whitespace/spaces", "whitespace/tabs", "whitespace/newlines",
    "separator/semicolon", "separator/newline",
    "numeric/leading-zeros", "numeric/hex", "numeric/hex-upper", "numeric/binary", "numeric/neg-zero",
    "numeric/int-as-float", "numeric/int-as-exp", "numeric/float-exp", "numeric/float-exp-upper",
    "numeric/float-exp-plus", "numeric/float-trailing-zeros", "numeric/leading-plus",
    "string/always-quoted", "string/unicode-escapes", "string/unicode-escapes-multi-u", "string/raw-control",
    "attr-name/quoted",
    "body/explicit-braces", "body/empty-braces",
    "attr-body/empty-parens", "attr-body/inner-braces",
];

pub enum Mode {
    Canonical,
    Variant(&'static str),
    /// Every site picks independently between canonical and any sub-kind.
    Random(Rng),
}

pub struct Styler {
    pub mode: Mode,
}

impl Styler {
    /// Does sub-kind `v` apply at this site?
    fn on(&mut self, v: &'static str) -> bool {
        match &mut self.mode {
            Mode::Canonical => false,
            Mode::Variant(x) => *x == v,
            Mode::Random(r) => r.chance(1, 6),
        }
    }

    fn ws(&mut self, out: &mut String) {
        if self.on("whitespace/spaces") {
            out.push_str("  ");
        }
        if self.on("whitespace/tabs") {
            out.push('\t');
        }
    }

    /// A site where line breaks are skipped by the grammar as well (after `{`, `(`, a separator).
    fn ws_nl(&mut self, out: &mut String) {
        self.ws(out);
        if self.on("whitespace/newlines") {
            out.push_str("\n ");
        }
    }

    fn sep(&mut self, out: &mut String) {
        self.ws(out);
        if self.on("separator/semicolon") {
            out.push(';');
        } else if self.on("separator/newline") {
            out.push('\n');
        } else {
            out.push(',');
        }
        self.ws_nl(out);
    }

    fn int(&mut self, n: &BigInt, out: &mut String) {
        use std::fmt::Write;
        let neg = *n < BigInt::from(0);
        let mag = n.magnitude();
        if self.on("numeric/hex") {
            let _ = write!(out, "{}0x{:x}", if neg { "-" } else { "" }, mag);
        } else if self.on("numeric/hex-upper") {
            let _ = write!(out, "{}0X{:X}", if neg { "-" } else { "" }, mag);
        } else if self.on("numeric/binary") {
            let _ = write!(out, "{}0b{:b}", if neg { "-" } else { "" }, mag);
        } else if self.on("numeric/leading-zeros") {
            let _ = write!(out, "{}00{}", if neg { "-" } else { "" }, mag);
        } else if self.on("numeric/int-as-float") {
            let _ = write!(out, "{}.0", n);
        } else if self.on("numeric/int-as-exp") {
            let _ = write!(out, "{}e0", n);
        } else if self.on("numeric/leading-plus") && !neg {
            let _ = write!(out, "+{}", n);
        } else if self.on("numeric/neg-zero") && mag.bits() == 0 {
            out.push_str("-0");
        } else {
            let _ = write!(out, "{}", n);
        }
    }

    fn float(&mut self, x: f64, out: &mut String) {
        use std::fmt::Write;
        if self.on("numeric/float-exp") {
            let _ = write!(out, "{:e}", x);
        } else if self.on("numeric/float-exp-upper") {
            let _ = write!(out, "{:E}", x);
        } else if self.on("numeric/float-exp-plus") {
            let s = format!("{:e}", x);
            out.push_str(&if s.contains("e-") { s } else { s.replace('e', "e+") });
        } else if self.on("numeric/float-trailing-zeros") {
            let s = format!("{:?}", x);
            if let Some(p) = s.find('e') {
                let (m, e) = s.split_at(p);
                let _ = write!(out, "{}{}{}", m, if m.contains('.') { "00" } else { ".00" }, e);
            } else {
                let _ = write!(out, "{}00", s);
            }
        } else if self.on("numeric/leading-plus") && !x.is_sign_negative() {
            let _ = write!(out, "+{:?}", x);
        } else {
            let _ = write!(out, "{:?}", x);
        }
    }

    fn quoted(&mut self, s: &str, out: &mut String) {
        use std::fmt::Write;
        let esc_all = self.on("string/unicode-escapes");
        let esc_multi = self.on("string/unicode-escapes-multi-u");
        let raw = self.on("string/raw-control");
        out.push('"');
        for c in s.chars() {
            let cp = c as u32;
            if (esc_all || esc_multi) && cp < 0x10000 {
                let _ = write!(out, "\\{}{:04x}", if esc_multi { "uuu" } else { "u" }, cp);
                continue;
            }
            match c {
                '"' => out.push_str("\\\""),
                '\\' => out.push_str("\\\\"),
                _ if cp < 0x20 && raw => out.push(c),
                '\n' => out.push_str("\\n"),
                '\r' => out.push_str("\\r"),
                '\t' => out.push_str("\\t"),
                '\u{8}' => out.push_str("\\b"),
                '\u{c}' => out.push_str("\\f"),
                _ if cp < 0x20 => {
                    let _ = write!(out, "\\u{:04x}", cp);
                }
                _ => out.push(c),
            }
        }
        out.push('"');
    }

    fn text(&mut self, s: &str, out: &mut String) {
        if is_identifier(s) && !self.on("string/always-quoted") {
            out.push_str(s);
        } else {
            self.quoted(s, out);
        }
    }

    pub fn text_pub(&mut self, s: &str, out: &mut String) {
        self.text(s, out)
    }

    pub fn name_pub(&mut self, s: &str, out: &mut String) {
        if is_identifier(s) {
            out.push_str(s);
        } else {
            self.quoted(s, out);
        }
    }

    fn leaf(&mut self, l: &Leaf, out: &mut String) {
        match l {
            Leaf::Extant => {}
            Leaf::Bool(b) => out.push_str(if *b { "true" } else { "false" }),
            Leaf::Int(n) => self.int(n, out),
            Leaf::Float(x) => self.float(*x, out),
            Leaf::Text(s) => self.text(s, out),
            Leaf::Blob(b) => {
                out.push('%');
                out.push_str(&base64_std(b));
            }
        }
    }

    fn items(&mut self, items: &[SItem], out: &mut String) {
        for (i, it) in items.iter().enumerate() {
            if i > 0 {
                self.sep(out);
            }
            match it {
                SItem::Val(v) => self.value(v, out),
                SItem::Slot(k, v) => {
                    self.value(k, out);
                    // `{@a:1}` is not accepted by the grammar: an attributed key needs a body.
                    if matches!(k, Syn::Rec(a, None) if !a.is_empty()) && !out.ends_with('}') {
                        out.push_str("{}");
                    }
                    self.ws(out);
                    out.push(':');
                    self.ws(out);
                    self.value(v, out);
                }
            }
        }
    }

    pub fn value(&mut self, s: &Syn, out: &mut String) {
        match s {
            Syn::Leaf(l) => self.leaf(l, out),
            Syn::Rec(attrs, body) => {
                for (i, a) in attrs.iter().enumerate() {
                    if i > 0 {
                        self.ws(out);
                    }
                    out.push('@');
                    if is_identifier(&a.name) && !self.on("attr-name/quoted") {
                        out.push_str(&a.name);
                    } else {
                        self.quoted(&a.name, out);
                    }
                    match &a.body {
                        None => {
                            if self.on("attr-body/empty-parens") {
                                out.push_str("()");
                            }
                        }
                        Some(items) => {
                            out.push('(');
                            self.ws_nl(out);
                            let inner = items.len() > 1 && self.on("attr-body/inner-braces");
                            if inner {
                                out.push('{');
                            }
                            self.items(items, out);
                            if inner {
                                out.push('}');
                            }
                            self.ws(out);
                            out.push(')');
                        }
                    }
                }
                match body {
                    None => {
                        if attrs.is_empty() || self.on("body/empty-braces") {
                            self.ws(out);
                            out.push_str("{}");
                        }
                    }
                    Some(items) => {
                        let implicit = !attrs.is_empty()
                            && items.len() == 1
                            && matches!(&items[0], SItem::Val(Syn::Leaf(l)) if !matches!(l, Leaf::Extant))
                            && !self.on("body/explicit-braces");
                        if implicit {
                            out.push(' ');
                            self.ws(out);
                            self.items(items, out);
                        } else {
                            self.ws(out);
                            out.push('{');
                            self.ws_nl(out);
                            self.items(items, out);
                            self.ws_nl(out);
                            out.push('}');
                        }
                    }
                }
            }
        }
    }
}

pub fn render(s: &Syn, mode: Mode) -> String {
    let mut st = Styler { mode };
    let mut out = String::new();
    st.value(s, &mut out);
    out
}

pub fn base64_std(b: &[u8]) -> String {
    const T: &[u8; 64] = b"ABCDEFGHIJKLMNOPQRSTUVWXYZabcdefghijklmnopqrstuvwxyz0123456789+/";
    let mut out = String::new();
    for ch in b.chunks(3) {
        let n = (ch[0] as u32) << 16 | (*ch.get(1).unwrap_or(&0) as u32) << 8 | *ch.get(2).unwrap_or(&0) as u32;
        out.push(T[(n >> 18) as usize & 63] as char);
        out.push(T[(n >> 12) as usize & 63] as char);
        out.push(if ch.len() > 1 { T[(n >> 6) as usize & 63] as char } else { '=' });
        out.push(if ch.len() > 2 { T[n as usize & 63] as char } else { '=' });
    }
    out
}

// ------------------------------------------------------------------------------------------------
// Near-miss mutations of a tree (label names the kind of edit).

fn leaves_mut<'a>(s: &'a mut Syn, acc: &mut Vec<&'a mut Leaf>) {
    match s {
        Syn::Leaf(l) => acc.push(l),
        Syn::Rec(attrs, body) => {
            for a in attrs {
                if let Some(items) = &mut a.body {
                    items_leaves(items, acc);
                }
            }
            if let Some(items) = body {
                items_leaves(items, acc);
            }
        }
    }
}

fn items_leaves<'a>(items: &'a mut [SItem], acc: &mut Vec<&'a mut Leaf>) {
    for it in items {
        match it {
            SItem::Val(v) => leaves_mut(v, acc),
            SItem::Slot(k, v) => {
                leaves_mut(k, acc);
                leaves_mut(v, acc);
            }
        }
    }
}

fn children_mut(items: &mut [SItem], f: &mut dyn FnMut(&mut Syn)) {
    for it in items.iter_mut() {
        match it {
            SItem::Val(v) => f(v),
            SItem::Slot(k, v) => {
                f(k);
                f(v);
            }
        }
    }
}

/// Call `f` on every item vector (attribute bodies and record bodies) of the tree, pre-order.
fn visit_vecs(s: &mut Syn, f: &mut dyn FnMut(&mut Vec<SItem>)) {
    if let Syn::Rec(attrs, body) = s {
        for a in attrs.iter_mut() {
            if let Some(items) = &mut a.body {
                f(items);
                children_mut(items, &mut |c| visit_vecs(c, f));
            }
        }
        if let Some(items) = body {
            f(items);
            children_mut(items, &mut |c| visit_vecs(c, f));
        }
    }
}

/// Call `f` on every record node of the tree, pre-order.
fn visit_recs(s: &mut Syn, f: &mut dyn FnMut(&mut Vec<SAttr>, &mut Option<Vec<SItem>>)) {
    if let Syn::Rec(attrs, body) = s {
        f(attrs, body);
        for a in attrs.iter_mut() {
            if let Some(items) = &mut a.body {
                children_mut(items, &mut |c| visit_recs(c, f));
            }
        }
        if let Some(items) = body {
            children_mut(items, &mut |c| visit_recs(c, f));
        }
    }
}

fn edit_items(items: &mut Vec<SItem>, rng: &mut Rng) -> Option<&'static str> {
    match rng.below(7) {
        0 if !items.is_empty() => {
            items.remove(rng.usize_below(items.len()));
            Some("item/drop")
        }
        1 if !items.is_empty() => {
            let i = rng.usize_below(items.len());
            let c = items[i].clone();
            items.insert(i, c);
            Some("item/duplicate")
        }
        2 if items.len() > 1 => {
            let i = rng.usize_below(items.len() - 1);
            items.swap(i, i + 1);
            Some("item/swap-adjacent")
        }
        3 if !items.is_empty() => {
            let i = rng.usize_below(items.len());
            match items[i].clone() {
                SItem::Slot(k, v) => {
                    items[i] = SItem::Val(k);
                    items.insert(i + 1, SItem::Val(v));
                    Some("item/slot-to-two-values")
                }
                SItem::Val(v) => {
                    items[i] = SItem::Slot(v, Syn::Leaf(Leaf::Extant));
                    Some("item/value-to-slot-key")
                }
            }
        }
        4 => {
            items.push(SItem::Val(Syn::Leaf(Leaf::Extant)));
            Some("item/append-extant")
        }
        5 if !items.is_empty() => {
            let i = rng.usize_below(items.len());
            if let SItem::Val(v) = items[i].clone() {
                items[i] = SItem::Val(Syn::Rec(vec![], Some(vec![SItem::Val(v)])));
                Some("item/wrap-in-record")
            } else {
                None
            }
        }
        _ => {
            items.insert(0, SItem::Val(Syn::Leaf(Leaf::Int(BigInt::from(1)))));
            Some("item/prepend")
        }
    }
}

fn edit_rec(attrs: &mut Vec<SAttr>, body: &mut Option<Vec<SItem>>, rng: &mut Rng) -> Option<&'static str> {
    match rng.below(7) {
        0 if !attrs.is_empty() => {
            let i = rng.usize_below(attrs.len());
            attrs[i].name.push('x');
            Some("attr/rename")
        }
        1 if !attrs.is_empty() && (attrs.len() > 1 || body.is_some()) => {
            attrs.remove(rng.usize_below(attrs.len()));
            Some("attr/drop")
        }
        2 => {
            attrs.push(SAttr { name: "z".into(), body: None });
            Some("attr/append")
        }
        3 if attrs.len() > 1 => {
            attrs.swap(0, 1);
            Some("attr/swap")
        }
        4 if !attrs.is_empty() => {
            let i = rng.usize_below(attrs.len());
            match attrs[i].body.take() {
                None => {
                    attrs[i].body = Some(vec![SItem::Val(Syn::Rec(vec![], Some(vec![])))]);
                    Some("attr/body-none-to-empty-record")
                }
                Some(items) if items.len() == 1 && matches!(items[0], SItem::Val(_)) => {
                    let SItem::Val(v) = &items[0] else { unreachable!() };
                    attrs[i].body = Some(vec![SItem::Val(Syn::Rec(vec![], Some(vec![SItem::Val(v.clone())])))]);
                    Some("attr/body-single-value-wrapped")
                }
                Some(items) => {
                    attrs[i].body = Some(items);
                    None
                }
            }
        }
        5 if !attrs.is_empty() => match body.take() {
            None => {
                *body = Some(vec![SItem::Val(Syn::Rec(vec![], Some(vec![])))]);
                Some("body/none-to-nested-empty-record")
            }
            Some(items) => {
                *body = Some(vec![SItem::Val(Syn::Rec(vec![], Some(items)))]);
                Some("body/wrapped-in-record")
            }
        },
        _ => None,
    }
}

/// Apply one small semantic edit; returns its label, or `None` when the tree offers no site.
pub fn near_miss(s: &mut Syn, rng: &mut Rng) -> Option<&'static str> {
    match rng.below(14) {
        0..=4 => {
            let mut ls = Vec::new();
            leaves_mut(s, &mut ls);
            if ls.is_empty() {
                return None;
            }
            let i = rng.usize_below(ls.len());
            let l = &mut *ls[i];
            Some(match l.clone() {
                Leaf::Extant => {
                    *l = Leaf::Int(BigInt::from(0));
                    "leaf/extant-to-zero"
                }
                Leaf::Bool(b) => {
                    if rng.bool() {
                        *l = Leaf::Bool(!b);
                        "leaf/bool-flip"
                    } else {
                        *l = Leaf::Text(b.to_string());
                        "leaf/bool-to-quoted-text"
                    }
                }
                Leaf::Int(n) => match rng.below(4) {
                    0 => {
                        *l = Leaf::Int(n + 1);
                        "leaf/int-plus-one"
                    }
                    1 => {
                        *l = Leaf::Int(-n);
                        "leaf/int-negate"
                    }
                    2 => {
                        *l = Leaf::Text(n.to_string());
                        "leaf/int-to-quoted-text"
                    }
                    _ => {
                        use std::str::FromStr;
                        *l = Leaf::Float(f64::from_str(&n.to_string()).unwrap_or(0.0));
                        "leaf/int-to-float"
                    }
                },
                Leaf::Float(x) => {
                    if rng.bool() {
                        *l = Leaf::Float(f64::from_bits(x.to_bits() ^ 1));
                        "leaf/float-ulp"
                    } else {
                        *l = Leaf::Float(-x);
                        "leaf/float-negate"
                    }
                }
                Leaf::Text(t) => match rng.below(3) {
                    0 => {
                        *l = Leaf::Text(format!("{t}a"));
                        "leaf/text-append"
                    }
                    1 => {
                        *l = Leaf::Text(t.chars().rev().collect::<String>() + "x");
                        "leaf/text-change"
                    }
                    _ => {
                        *l = Leaf::Text(format!("{t} "));
                        "leaf/text-trailing-space"
                    }
                },
                Leaf::Blob(mut b) => {
                    if b.is_empty() {
                        b.push(0);
                    } else {
                        let i = rng.usize_below(b.len());
                        b[i] ^= 1 << rng.below(8);
                    }
                    *l = Leaf::Blob(b);
                    "leaf/blob-bit"
                }
            })
        }
        5..=9 => {
            let mut n = 0usize;
            visit_vecs(s, &mut |_| n += 1);
            if n == 0 {
                return None;
            }
            let target = rng.usize_below(n);
            let mut k = 0usize;
            let mut label = None;
            visit_vecs(s, &mut |items| {
                if k == target {
                    label = edit_items(items, rng);
                }
                k += 1;
            });
            label
        }
        _ => {
            let mut n = 0usize;
            visit_recs(s, &mut |_, _| n += 1);
            if n == 0 {
                *s = Syn::Rec(vec![], Some(vec![SItem::Val(s.clone())]));
                return Some("record/wrap-top");
            }
            let target = rng.usize_below(n);
            let mut k = 0usize;
            let mut label = None;
            visit_recs(s, &mut |attrs, body| {
                if k == target {
                    label = edit_rec(attrs, body, rng);
                }
                k += 1;
            });
            label
        }
    }
}

// ------------------------------------------------------------------------------------------------
// Text mutation (char level: result is valid UTF-8) and byte mutation (anything).

const TOKENS: &[&str] = &[
    "@", "{", "}", "(", ")", ":", ",", ";", "\"", "\\", "\\u", "\\u00", "\\ud800", "\\udfff", "\\u0041", "\\x", "%", "%A", "%AA=", "%AA==", "%AAA=", "0x", "0b",
    "e", "E", ".", "-", "+", "\n", "\r\n", " ", "\t", "#", "true", "false", "é", "\u{10000}", "1", "00", "=", "@a", "@a(", "{}", "()", "1e", "1e400", "-1e400", "1.", ".5", "0x", "0xg", "0b2",
    "99999999999999999999999999999999999999999999", "inf", "-inf", "nan", "-nan", "infinity", "NaN",
];

pub fn mutate_text(s: &str, rng: &mut Rng) -> String {
    let mut cs: Vec<char> = s.chars().collect();
    let n = rng.range(1, 3);
    for _ in 0..n {
        let pos = rng.usize_below(cs.len() + 1);
        match rng.below(8) {
            0 if !cs.is_empty() => {
                cs.remove(pos.min(cs.len() - 1));
            }
            1 | 2 => {
                let t: Vec<char> = rng.pick(TOKENS).chars().collect();
                for (i, c) in t.into_iter().enumerate() {
                    cs.insert(pos + i, c);
                }
            }
            3 => cs.insert(pos, *rng.pick(CHAR_POOL)),
            4 if !cs.is_empty() => {
                let p = pos.min(cs.len() - 1);
                cs[p] = *rng.pick(CHAR_POOL);
            }
            5 => cs.truncate(pos),
            6 if !cs.is_empty() => {
                // duplicate a slice
                let a = rng.usize_below(cs.len());
                let b = (a + rng.usize_below(8) + 1).min(cs.len());
                let slice: Vec<char> = cs[a..b].to_vec();
                for (i, c) in slice.into_iter().enumerate() {
                    cs.insert(pos.min(cs.len()).min(a + i), c);
                }
            }
            _ if cs.len() > 1 => {
                let p = pos.min(cs.len() - 2);
                cs.swap(p, p + 1);
            }
            _ => cs.push('@'),
        }
    }
    cs.into_iter().collect()
}

pub fn mutate_bytes(s: &[u8], rng: &mut Rng) -> Vec<u8> {
    let mut b = s.to_vec();
    let n = rng.range(1, 3);
    for _ in 0..n {
        let pos = rng.usize_below(b.len() + 1);
        match rng.below(6) {
            0 if !b.is_empty() => {
                let p = pos.min(b.len() - 1);
                b[p] ^= 1 << rng.below(8);
            }
            1 => b.insert(pos, *rng.pick(&[0x80u8, 0xbf, 0xc0, 0xc2, 0xe0, 0xed, 0xa0, 0xf0, 0xf4, 0x90, 0xff, 0xfe, 0x00, b'"', b'\\'])),
            2 if !b.is_empty() => {
                b.remove(pos.min(b.len() - 1));
            }
            3 => b.truncate(pos),
            4 => {
                let t = rng.pick(TOKENS).as_bytes();
                for (i, c) in t.iter().enumerate() {
                    b.insert(pos + i, *c);
                }
            }
            _ => b.insert(pos, rng.below(256) as u8),
        }
    }
    b
}

/// A Recon text: grammar generated (random style), possibly mutated; flag says whether mutated.
pub fn gen_text(rng: &mut Rng, mutate_pct: u64) -> (String, bool) {
    let syn = gen_syn(rng);
    let mode = match rng.below(4) {
        0 => Mode::Canonical,
        1 => Mode::Variant(*rng.pick(VARIANTS)),
        _ => Mode::Random(rng.fork()),
    };
    let mut t = render(&syn, mode);
    if t.len() > 4096 {
        // keep inputs to "a few KiB": cut at a char boundary (makes it a truncation mutation)
        let mut cut = 4096;
        while !t.is_char_boundary(cut) {
            cut -= 1;
        }
        t.truncate(cut);
    }
    if rng.below(100) < mutate_pct {
        (mutate_text(&t, rng), true)
    } else {
        (t, false)
    }
}

// ------------------------------------------------------------------------------------------------
// Arbitrary model values (not necessarily producible by the parser).

pub fn gen_prim_value(rng: &mut Rng) -> Value {
    match rng.below(14) {
        0 => Value::Extant,
        1 => Value::BooleanValue(rng.bool()),
        2 => Value::Int32Value(*rng.pick(&[0, 1, -1, i32::MAX, i32::MIN, 42, -7])),
        3 => Value::Int64Value(*rng.pick(&[0, 1, -1, i64::MAX, i64::MIN, i32::MAX as i64 + 1, i32::MIN as i64 - 1, 1 << 53])),
        4 => Value::UInt32Value(*rng.pick(&[0, 1, u32::MAX, i32::MAX as u32 + 1, 77])),
        5 => Value::UInt64Value(*rng.pick(&[0, 1, u64::MAX, i64::MAX as u64 + 1, u32::MAX as u64 + 1, 5])),
        6 => Value::BigInt(gen_int(rng)),
        7 => Value::BigUint(gen_int(rng).magnitude().clone()),
        8 | 9 => Value::Float64Value(gen_finite_float(rng)),
        10..=12 => Value::Text(Text::new(&gen_string(rng))),
        _ => Value::Data(Blob::from_vec(gen_blob(rng))),
    }
}

pub fn gen_value(rng: &mut Rng, depth: u32, budget: &mut usize) -> Value {
    if depth == 0 || *budget == 0 || rng.chance(2, 5) {
        return gen_prim_value(rng);
    }
    *budget -= 1;
    let na = *rng.pick(&[0u32, 0, 1, 1, 2, 3]);
    let attrs: Vec<Attr> = (0..na)
        .map(|_| {
            let v = if rng.chance(2, 5) { Value::Extant } else { gen_value(rng, depth - 1, budget) };
            Attr { name: Text::new(&gen_attr_name(rng)), value: v }
        })
        .collect();
    let ni = *rng.pick(&[0u32, 0, 1, 1, 1, 2, 3, 4]);
    let items: Vec<Item> = (0..ni)
        .map(|_| {
            if rng.chance(3, 5) {
                Item::ValueItem(gen_value(rng, depth - 1, budget))
            } else {
                let k = if rng.chance(4, 5) { gen_prim_value(rng) } else { gen_value(rng, depth - 1, budget) };
                Item::Slot(k, gen_value(rng, depth - 1, budget))
            }
        })
        .collect();
    Value::Record(attrs, items)
}

/// Chain of single-child records around a primitive, `depth` levels.
pub fn gen_deep_value(rng: &mut Rng, depth: u32) -> Value {
    let mut cur = gen_prim_value(rng);
    for _ in 0..depth {
        let name = Text::new(*rng.pick(IDENTS));
        cur = match rng.below(6) {
            0 => Value::Record(vec![], vec![Item::ValueItem(cur)]),
            1 => Value::Record(vec![Attr { name, value: cur }], vec![]),
            2 => Value::Record(vec![Attr { name, value: Value::Extant }], vec![Item::ValueItem(cur)]),
            3 => Value::Record(vec![], vec![Item::Slot(Value::text("k"), cur)]),
            4 => Value::Record(vec![], vec![Item::Slot(cur, Value::Int32Value(1))]),
            _ => Value::Record(vec![Attr { name, value: Value::Record(vec![], vec![Item::ValueItem(cur)]) }], vec![Item::ValueItem(Value::Extant)]),
        };
    }
    cur
}

pub fn gen_any_value(rng: &mut Rng) -> Value {
    if small() {
        return match rng.below(6) {
            0 => {
                let d = rng.range(1, 6) as u32;
                gen_deep_value(rng, d)
            }
            1 => gen_prim_value(rng),
            _ => {
                let mut b = 4;
                gen_value(rng, 2, &mut b)
            }
        };
    }
    match rng.below(12) {
        0 => {
            let d = rng.range(1, 64) as u32;
            gen_deep_value(rng, d)
        }
        1 => gen_prim_value(rng),
        2 => {
            let mut b = 120;
            gen_value(rng, 6, &mut b)
        }
        _ => {
            let mut b = 10;
            gen_value(rng, 3, &mut b)
        }
    }
}

// ------------------------------------------------------------------------------------------------
// Shrinking of syntax trees (witness minimisation only).

fn shrink_items(items: &[SItem]) -> Vec<Vec<SItem>> {
    let mut out = Vec::new();
    for i in 0..items.len() {
        let mut v = items.to_vec();
        v.remove(i);
        out.push(v);
    }
    for i in 0..items.len() {
        match &items[i] {
            SItem::Val(x) => {
                for c in syn_shrinks(x) {
                    let mut v = items.to_vec();
                    v[i] = SItem::Val(c);
                    out.push(v);
                }
            }
            SItem::Slot(k, x) => {
                let mut v = items.to_vec();
                v[i] = SItem::Val(x.clone());
                out.push(v);
                for c in syn_shrinks(k) {
                    let mut v = items.to_vec();
                    v[i] = SItem::Slot(c, x.clone());
                    out.push(v);
                }
                for c in syn_shrinks(x) {
                    let mut v = items.to_vec();
                    v[i] = SItem::Slot(k.clone(), c);
                    out.push(v);
                }
            }
        }
    }
    out
}

pub fn syn_shrinks(s: &Syn) -> Vec<Syn> {
    let mut out = Vec::new();
    match s {
        Syn::Leaf(l) => match l {
            Leaf::Text(t) if t.chars().count() > 1 => {
                let cs: Vec<char> = t.chars().collect();
                for i in 0..cs.len() {
                    out.push(Syn::Leaf(Leaf::Text(cs.iter().enumerate().filter(|(j, _)| *j != i).map(|(_, c)| *c).collect())));
                }
            }
            Leaf::Int(n) if *n != BigInt::from(1) && *n != BigInt::from(0) => {
                out.push(Syn::Leaf(Leaf::Int(BigInt::from(1))));
                out.push(Syn::Leaf(Leaf::Int(BigInt::from(0))));
            }
            Leaf::Blob(b) if b.len() > 1 => out.push(Syn::Leaf(Leaf::Blob(vec![b[0]]))),
            _ => {}
        },
        Syn::Rec(attrs, body) => {
            let mut children: Vec<&Vec<SItem>> = attrs.iter().filter_map(|a| a.body.as_ref()).collect();
            if let Some(b) = body {
                children.push(b);
            }
            for items in children {
                for it in items {
                    match it {
                        SItem::Val(v) => out.push(v.clone()),
                        SItem::Slot(k, v) => {
                            out.push(k.clone());
                            out.push(v.clone());
                        }
                    }
                }
            }
            for i in 0..attrs.len() {
                if attrs.len() > 1 || body.is_some() {
                    let mut a = attrs.clone();
                    a.remove(i);
                    let b = if a.is_empty() && body.is_none() { Some(vec![]) } else { body.clone() };
                    out.push(Syn::Rec(a, b));
                }
                if let Some(items) = &attrs[i].body {
                    let mut a = attrs.clone();
                    a[i].body = None;
                    out.push(Syn::Rec(a, body.clone()));
                    for c in shrink_items(items) {
                        let mut a = attrs.clone();
                        a[i].body = Some(c);
                        out.push(Syn::Rec(a, body.clone()));
                    }
                }
                if attrs[i].name != "a" {
                    let mut a = attrs.clone();
                    a[i].name = "a".into();
                    out.push(Syn::Rec(a, body.clone()));
                }
            }
            if let Some(items) = body {
                if !attrs.is_empty() {
                    out.push(Syn::Rec(attrs.clone(), None));
                }
                for c in shrink_items(items) {
                    out.push(Syn::Rec(attrs.clone(), Some(c)));
                }
            }
        }
    }
    out
}
