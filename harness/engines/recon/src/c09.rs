//! C09: Recon text is a faithful and stable encoding, however it is chunked.

use std::fmt::Debug;
use std::panic::{catch_unwind, AssertUnwindSafe};

use common::{json, sanitize_sig, CaseOut, Rng, Session};
use swimos_form::read::RecognizerReadable;
use swimos_model::{Item, Value};
use swimos_recon::parser::parse_recognize;

use crate::gen::{gen_any_value, gen_text, mutate_bytes};
use crate::types::{battery, same};
use crate::util::*;

const P: &str = "C09";

pub fn guard<R>(f: impl FnOnce() -> R) -> Result<R, String> {
    catch_unwind(AssertUnwindSafe(f)).map_err(|p| {
        if let Some(s) = p.downcast_ref::<&str>() {
            s.to_string()
        } else if let Some(s) = p.downcast_ref::<String>() {
            s.clone()
        } else {
            "non-string panic".to_string()
        }
    })
}

fn panic_violation(out: &mut CaseOut, stage: &str, msg: &str, input: &str) {
    out.violation(
        P,
        format!("panic/{}", sanitize_sig(msg)),
        format!("{stage} panicked: {msg}"),
        json!({"input": clip(input), "input_bytes": input.len()}),
    );
}

fn size(v: &Value) -> usize {
    match v {
        Value::Record(attrs, items) => {
            1 + attrs.iter().map(|a| a.name.as_str().chars().count() + size(&a.value)).sum::<usize>()
                + items
                    .iter()
                    .map(|i| match i {
                        Item::ValueItem(v) => size(v),
                        Item::Slot(k, v) => size(k) + size(v),
                    })
                    .sum::<usize>()
        }
        Value::Text(t) => 1 + t.as_str().chars().count(),
        _ => 1,
    }
}

fn printers_label(bad: &[usize]) -> String {
    if bad.len() == 3 {
        "all".into()
    } else {
        bad.iter().map(|i| PRINTERS[*i]).collect::<Vec<_>>().join("+")
    }
}

/// Printers whose output for `v` does not parse at all.
fn unparseable_printers(v: &Value) -> Vec<usize> {
    (0..3).filter(|p| matches!(guard(|| parse_value(&print_with(*p, v))), Ok(Err(_)) | Err(_))).collect()
}

/// For a value the parser produced: printers through which it does not come back exactly.
/// Returns (printer, "unparseable" | "differs").
fn unstable_printers(v: &Value) -> Vec<(usize, &'static str)> {
    let mut bad = Vec::new();
    for p in 0..3 {
        match guard(|| parse_value(&print_with(p, v))) {
            Ok(Ok(back)) => {
                if !strict_eq(&back, v) {
                    bad.push((p, "differs"));
                }
            }
            _ => bad.push((p, "unparseable")),
        }
    }
    bad
}

/// Shrink a parser-produced value that is not stable. A candidate is accepted only when the real
/// parser demonstrably produces it (from its fully explicit rendering), so the witness is again a
/// value *the parser itself produced*.
fn shrink_unstable(v: &Value) -> Value {
    let mut cur = v.clone();
    let mut budget = shrink_budget();
    'outer: loop {
        for c in shrink_candidates(&cur) {
            budget -= 1;
            if budget <= 0 {
                break 'outer;
            }
            if size(&c) < size(&cur) && guard(|| parser_produces(&c)).unwrap_or(false) && !unstable_printers(&c).is_empty() {
                cur = c;
                continue 'outer;
            }
        }
        break;
    }
    cur
}

/// Oracle for a value produced by the parser from `source`: exact round trip through all printers.
fn check_parsed_value(v: &Value, source: &str, out: &mut CaseOut) {
    out.events += 3;
    let bad = unstable_printers(v);
    if bad.is_empty() {
        return;
    }
    // Look behind the misprint just found: the same value with the named constructs rewritten,
    // provided the parser demonstrably produces that value too.
    if !features(v).is_empty() {
        let c = sanitize(v);
        if features(&c).is_empty() && guard(|| parser_produces(&c)).unwrap_or(false) {
            out.count("rechecked_with_known_constructs_rewritten");
            let t = explicit_text(&c);
            check_parsed_value(&c, &t, out);
        }
    }
    let min = shrink_unstable(v);
    let bad_min = unstable_printers(&min);
    let what = if bad_min.iter().any(|b| b.1 == "unparseable") { "unparseable" } else { "differs" };
    let ps: Vec<usize> = bad_min.iter().map(|b| b.0).collect();
    let p0 = ps.first().copied().unwrap_or(0);
    let printed = print_with(p0, &min);
    let reparsed = guard(|| parse_value(&printed));
    out.violation(
        P,
        format!("parsed-value-roundtrip/printers={}/{}", printers_label(&ps), witness_class(&min)),
        format!("a value produced by the parser is not recovered exactly by parse(print(v)): {what}"),
        json!({
            "source_text": clip(source),
            "minimal_value": clip(&format!("{min:?}")),
            "minimal_source_text": clip(&explicit_text(&min)),
            "printed": clip(&printed),
            "printer": PRINTERS[p0],
            "reparsed": clip(&format!("{reparsed:?}")),
        }),
    );
}

// ------------------------------------------------------------------------------------------------
// Chunking

fn context_of(text: &str) -> &'static str {
    let t = text.trim_start();
    if t.starts_with('@') || t.starts_with('{') {
        "record"
    } else {
        "top-level-token"
    }
}

struct Mismatch {
    decoder: &'static str,
    kind: String,
    cuts: Vec<usize>,
    got: String,
}

fn compare<T: PartialEq + Debug>(one: &Result<T, String>, got: &Outcome<T>, exact: bool, out: &mut CaseOut) -> Option<String> {
    match (one, got) {
        (Ok(a), Outcome::Value(b)) => {
            if if exact { same(a, b) } else { a == b } {
                None
            } else {
                Some("value-vs-other-value".into())
            }
        }
        (Ok(_), o) => Some(format!("value-vs-{}", o.class())),
        (Err(_), Outcome::Value(_)) => Some("error-vs-value".into()),
        (Err(_), Outcome::Nothing) => {
            // `decode_eof` answering `Ok(None)` with an emptied buffer is tokio's "clean end of
            // stream"; like an error it delivers no value, so it is the same class as the one-shot
            // rejection. Counted, so that the evidence shows how often a truncated record ends so.
            out.count("eof_nothing_where_oneshot_errors");
            None
        }
        (Err(_), Outcome::Error(_)) => None,
    }
}

/// Decide one text under a family of chunkings for both decoders against the one-shot parser.
pub fn check_chunkings<T>(label: &str, text: &str, exhaustive: bool, exact: bool, rng: &mut Rng, out: &mut CaseOut)
where
    T: RecognizerReadable + PartialEq + Debug,
{
    out.sig(&label);
    out.sig(&text);
    let bytes = text.as_bytes();
    let n = bytes.len();
    let one: Result<T, String> = match guard(|| parse_recognize::<T>(text, false)) {
        Ok(r) => r.map_err(|e| format!("{e}")),
        Err(msg) => {
            panic_violation(out, "parse_recognize", &msg, text);
            return;
        }
    };
    out.count(if one.is_ok() { "oneshot_ok" } else { "oneshot_err" });
    out.nontrivial = n >= 2;

    // Families of cut sets over the body.
    let mut cut_sets: Vec<Vec<usize>> = Vec::new();
    if exhaustive && cfg!(miri) && n > 12 {
        // The interpreter is ~1000x slower: a sample of single cuts instead of all of them.
        for _ in 0..6 {
            cut_sets.push(vec![rng.usize_below(n + 1)]);
        }
    } else if exhaustive {
        for i in 0..=n {
            cut_sets.push(vec![i]);
        }
    } else {
        if !(cfg!(miri) && n > 24) {
            cut_sets.push((1..n).collect()); // one byte at a time
        }
        for stride in if cfg!(miri) { vec![3usize] } else { vec![2usize, 3] } {
            cut_sets.push((1..n).filter(|i| i % stride == 0).collect());
        }
        for _ in 0..(if cfg!(miri) { 1 } else { 5 }) {
            let m = rng.range(2, 8.min(n.max(2) as u64)) as usize;
            let mut cs: Vec<usize> = (0..m).map(|_| rng.usize_below(n + 1)).collect();
            cs.sort();
            cut_sets.push(cs);
        }
    }
    if bytes.iter().any(|b| *b >= 0x80) {
        out.count("texts_with_multibyte_chars");
    }

    let frame = with_len_frame(&[bytes, bytes]);
    let mut first: Option<Mismatch> = None;
    let mut first_framed: Option<Mismatch> = None;
    let mut mismatches = 0u64;
    for cuts in &cut_sets {
        if cuts.iter().any(|c| *c < n && *c > 0 && (bytes[*c] & 0xc0) == 0x80) {
            out.count("cuts_inside_multibyte_char");
        }
        // 1. RecognizerDecoder
        let chunks = chunks_of(bytes, cuts);
        match guard(|| run_decoder::<T>(&chunks, out)) {
            Ok(got) => {
                if let Some(kind) = compare(&one, &got, exact, out) {
                    mismatches += 1;
                    first.get_or_insert(Mismatch { decoder: "RecognizerDecoder", kind, cuts: cuts.clone(), got: clip(&format!("{got:?}")) });
                }
            }
            Err(msg) => {
                panic_violation(out, "RecognizerDecoder", &msg, text);
                return;
            }
        }
        // 2. WithLenRecognizerDecoder: two frames with this body; the cuts fall in the first frame
        //    (shifted by the header; in the exhaustive family the header positions are cut as well).
        let mut fcuts: Vec<usize> = cuts.iter().map(|c| c + 8).collect();
        if exhaustive && cuts[0] < 8 {
            fcuts = vec![cuts[0]];
        } else if !exhaustive {
            // also cut somewhere in the second frame
            fcuts.push(8 + n + rng.usize_below(n + 9));
        }
        let fchunks = chunks_of(&frame, &fcuts);
        match guard(|| run_with_len::<T>(&fchunks, 2, out)) {
            Ok(run) => {
                let mut problem: Option<String> = None;
                if run.budget_blown {
                    problem = Some("decode-call-budget-exceeded".into());
                } else if run.results.len() != 2 {
                    problem = Some(format!("frames-delivered={}", run.results.len()));
                } else if run.leftover != 0 {
                    problem = Some("bytes-left-after-last-frame".into());
                } else {
                    for (i, r) in run.results.iter().enumerate() {
                        if let Some(kind) = compare(&one, r, exact, out) {
                            let _ = i;
                            problem = Some(kind);
                            break;
                        }
                    }
                }
                if let Some(kind) = problem {
                    mismatches += 1;
                    first_framed.get_or_insert(Mismatch {
                        decoder: "WithLenRecognizerDecoder",
                        kind,
                        cuts: fcuts.iter().map(|c| c.saturating_sub(8)).collect(),
                        got: clip(&format!("{:?}", run.results)),
                    });
                }
            }
            Err(msg) => {
                panic_violation(out, "WithLenRecognizerDecoder", &msg, text);
                return;
            }
        }
    }
    out.add("chunkings", cut_sets.len() as u64 * 2);
    out.add("chunking_mismatches", mismatches);
    for m in [first, first_framed].into_iter().flatten() {
        let ctx = context_of(text);
        // For a text that is one top-level token the position is irrelevant; inside records the
        // characters around the first cut say which token was split.
        let c0 = m.cuts.first().copied().unwrap_or(0);
        let at = if ctx == "record" && m.cuts.len() == 1 {
            format!("/cut={}|{}", char_class_at(bytes, c0.wrapping_sub(1)), char_class_at(bytes, c0))
        } else {
            String::new()
        };
        out.violation(
            P,
            format!("chunking/{}/{}/{}{}", m.decoder, ctx, m.kind, at),
            "the incremental decoder disagrees with the one-shot parser for some chunking",
            json!({
                "type": label,
                "text": clip(text),
                "cuts": m.cuts.iter().take(12).collect::<Vec<_>>(),
                "one_shot": clip(&format!("{one:?}")),
                "decoder_result": m.got,
                "mismatching_chunkings": mismatches,
                "chunkings_tried": cut_sets.len() * 2,
            }),
        );
    }
}

/// `parse_recon_document` fed from a source that returns the document in the given pieces, one per read.
fn read_document(bytes: &[u8], cuts: &[usize]) -> Result<Vec<swimos_model::Item>, String> {
    read_document_with(bytes, cuts, false)
}

/// The same with the reader's `allow_comments` flag given.
pub fn read_document_with(bytes: &[u8], cuts: &[usize], allow_comments: bool) -> Result<Vec<swimos_model::Item>, String> {
    use std::future::Future;
    use std::pin::Pin;
    use std::task::{Context, Poll, Waker};
    struct Pieces {
        pieces: Vec<Vec<u8>>,
        next: usize,
        offset: usize,
    }
    impl tokio::io::AsyncRead for Pieces {
        fn poll_read(mut self: Pin<&mut Self>, _cx: &mut Context<'_>, buf: &mut tokio::io::ReadBuf<'_>) -> Poll<std::io::Result<()>> {
            let me = &mut *self;
            if me.next < me.pieces.len() {
                let piece = &me.pieces[me.next][me.offset..];
                let n = piece.len().min(buf.remaining());
                buf.put_slice(&piece[..n]);
                me.offset += n;
                if me.offset == me.pieces[me.next].len() {
                    me.next += 1;
                    me.offset = 0;
                }
            }
            Poll::Ready(Ok(()))
        }
    }
    let pieces: Vec<Vec<u8>> = chunks_of(bytes, cuts).into_iter().map(|c| c.to_vec()).filter(|c| !c.is_empty()).collect();
    let src = Pieces { pieces, next: 0, offset: 0 };
    let fut = swimos_recon::parser::parse_recon_document(src, allow_comments);
    let mut fut = std::pin::pin!(fut);
    let mut cx = Context::from_waker(Waker::noop());
    for _ in 0..1_000_000 {
        if let Poll::Ready(r) = fut.as_mut().poll(&mut cx) {
            return r.map_err(|e| err_class_any(&e));
        }
    }
    Err("never completed".into())
}

fn err_class_any(e: &swimos_recon::parser::AsyncParseError) -> String {
    format!("{e:?}").chars().take(60).collect()
}

// ------------------------------------------------------------------------------------------------
// Parts

pub fn run(s: &mut Session) {
    let probes = battery();
    let np = probes.len() as u64;

    let cases = s.args.budget(8_000, 400_000);
    if crate::want(s, "typed-roundtrip") { s.part(
        "typed-roundtrip",
        "typed values (21 built-in Form types, 12 derived): parse_recognize::<T>(print_x(v)) == v exactly for the three printers; every case non-trivial; distinct by (type, value)",
        false,
        cases,
        |i, rng, out| probes[(i % np) as usize].roundtrip(rng, out),
    ); }

    let cases = s.args.budget(5_000, 200_000);
    if crate::want(s, "value-fixpoint") { s.part(
        "value-fixpoint",
        "arbitrary model Values (boundary primitives, arbitrary attr names / slot keys, depth <= 64): every printer's output parses; the parsed value v1 (parser-produced) comes back exactly through all three printers (so f(f(v)) == f(v)); non-trivial when v is a record or text; distinct by value",
        false,
        cases,
        |_i, rng, out| {
            let v = gen_any_value(rng);
            out.sig(&format!("{v:?}"));
            out.nontrivial = matches!(v, Value::Record(..) | Value::Text(_));
            if depth_of(&v) >= 32 {
                out.count("depth_ge_32");
            }
            out.events += 3;
            let bad = unparseable_printers(&v);
            if !bad.is_empty() {
                let min = shrink_value(&v, &|c| !unparseable_printers(c).is_empty());
                let bad_min = unparseable_printers(&min);
                let p0 = bad_min.first().copied().unwrap_or(0);
                let printed = guard(|| print_with(p0, &min)).unwrap_or_else(|m| format!("<print panicked: {m}>"));
                out.violation(
                    P,
                    format!("print-unparseable/printers={}/{}", printers_label(&bad_min), witness_class(&min)),
                    "the printed form of a model value is rejected by the parser (no fixed point can be reached)",
                    json!({"value": clip(&format!("{v:?}")), "minimal_value": clip(&format!("{min:?}")), "printed": clip(&printed),
                           "error": clip(&format!("{:?}", guard(|| parse_value(&printed))))}),
                );
            }
            let mut seen: Vec<Value> = Vec::new();
            for p in 0..3 {
                if bad.contains(&p) {
                    continue;
                }
                let t1 = print_with(p, &v);
                if let Ok(Ok(v1)) = guard(|| parse_value(&t1)) {
                    if !strict_eq(&v1, &v) {
                        out.count("first_cycle_changed_value");
                    }
                    if !seen.iter().any(|s| strict_eq(s, &v1)) {
                        check_parsed_value(&v1, &t1, out);
                        seen.push(v1);
                    }
                }
            }
            if seen.len() > 1 {
                out.count("printers_disagree_on_first_cycle");
            }
            if rng.chance(1, 100) {
                out.set_sample(json!({"value": clip(&format!("{v:?}")), "printed": clip(&print_with(0, &v))}));
            }
        },
    ); }

    let cases = s.args.budget(8_000, 400_000);
    if crate::want(s, "text-roundtrip") { s.part(
        "text-roundtrip",
        "grammar-generated texts (random styles, 40% char-mutated, <= 4 KiB): parse_recognize never panics; when it yields v, v comes back exactly through all three printers; non-trivial when the text is non-empty; distinct by text",
        false,
        cases,
        |_i, rng, out| {
            let (text, mutated) = gen_text(rng, 40);
            out.sig(&text);
            out.nontrivial = !text.is_empty();
            out.events += 1;
            match guard(|| parse_value(&text)) {
                Err(msg) => panic_violation(out, "parse_recognize", &msg, &text),
                Ok(Err(e)) => {
                    out.count(if mutated { "rejected_mutated" } else { "rejected_unmutated" });
                    if !mutated {
                        out.log(|| format!("unmutated text rejected ({e}): {}", clip(&text)));
                    }
                }
                Ok(Ok(v)) => {
                    out.count(if mutated { "accepted_mutated" } else { "accepted_unmutated" });
                    if depth_of(&v) >= 32 {
                        out.count("depth_ge_32");
                    }
                    check_parsed_value(&v, &text, out);
                }
            }
            if rng.chance(1, 200) {
                out.set_sample(json!({"text": clip(&text), "mutated": mutated}));
            }
        },
    ); }

    let cases = s.args.budget(4_000, 150_000);
    if crate::want(s, "chunk-single-cut") { s.part(
        "chunk-single-cut",
        "texts (grammar, 30% mutated; 25% printed typed values decoded with their own recognizer): RecognizerDecoder and WithLenRecognizerDecoder fed the bytes cut at EVERY position 0..=n (for the framed decoder also inside the length header) give the one-shot parse_recognize result (same value, or no value when one-shot errors); two frames per run, both must be delivered; non-trivial when n >= 2; distinct by (type, text)",
        true,
        cases,
        |_i, rng, out| {
            if rng.chance(1, 4) {
                probes[rng.usize_below(probes.len())].chunk(rng, out, true);
            } else {
                let (text, _) = gen_text(rng, 30);
                check_chunkings::<Value>("Value", &text, true, true, rng, out);
            }
        },
    ); }

    let cases = s.args.budget(6_000, 300_000);
    if crate::want(s, "chunk-multi-cut") { s.part(
        "chunk-multi-cut",
        "same inputs as chunk-single-cut under multi-cut chunkings: one byte at a time, strides 2 and 3, five random cut sets of 2-8 cuts (cuts fall inside multi-byte characters); non-trivial when n >= 2; distinct by (type, text)",
        false,
        cases,
        |_i, rng, out| {
            if rng.chance(1, 4) {
                probes[rng.usize_below(probes.len())].chunk(rng, out, false);
            } else {
                let (text, _) = gen_text(rng, 30);
                check_chunkings::<Value>("Value", &text, false, true, rng, out);
            }
        },
    ); }

    // The document reader (`parse_recon_document`) has its own read / parse / carry-over loop.
    let cases = s.args.budget(3_000, 150_000);
    if crate::want(s, "document-chunks") {
        s.part(
            "document-chunks",
            "a Recon document (1-6 generated items with non-ASCII text, separated by commas / newlines) read by parse_recon_document from a source that delivers it in one read, at every single cut (documents up to 400 bytes; longer: 120 sampled cuts, always including every cut inside a multi-byte character) and in 6 random multi-cut runs: the items equal those of the one-read run and of the one-shot parser on `{document}`; non-trivial when the document holds a multi-byte character; distinct by document",
            false,
            cases,
            |_i, rng, out| {
                let n = rng.range(1, 6);
                let mut doc = String::new();
                for i in 0..n {
                    if i > 0 {
                        doc.push_str(*rng.pick(&[",", ",\n", "\n", " , ", ";\n"]));
                    }
                    let (text, _) = gen_text(rng, 0);
                    doc.push_str(&text);
                }
                out.sig(&doc);
                let bytes = doc.as_bytes();
                out.nontrivial = !doc.is_ascii();
                let reference = read_document(bytes, &[]);
                // the one-shot parser on the same text as a record body
                let one_shot = parse_value(&format!("{{{doc}}}")).ok().map(|v| match v {
                    Value::Record(_, items) => format!("{items:?}"),
                    other => format!("{other:?}"),
                });
                out.events += 1;
                if let (Ok(items), Some(expect)) = (&reference, &one_shot) {
                    if format!("{items:?}") != *expect {
                        out.violation("C09", "document/one-read-differs-from-one-shot-parser", "parse_recon_document on the whole document gives other items than the one-shot parser gives for `{document}`", json!({"document": clip(&doc)}));
                        return;
                    }
                }
                let mut cuts: Vec<usize> = if bytes.len() <= 400 { (1..bytes.len()).collect() } else { (0..120).map(|_| 1 + rng.usize_below(bytes.len() - 1)).collect() };
                cuts.extend((1..bytes.len()).filter(|i| !doc.is_char_boundary(*i)).take(600));
                cuts.sort();
                cuts.dedup();
                let show = |r: &Result<Vec<swimos_model::Item>, String>| match r {
                    Ok(items) => format!("Ok({items:?})"),
                    Err(e) => format!("Err({e})"),
                };
                let same = |a: &Result<Vec<swimos_model::Item>, String>, b: &Result<Vec<swimos_model::Item>, String>| match (a, b) {
                    (Ok(x), Ok(y)) => format!("{x:?}") == format!("{y:?}"),
                    (Err(_), Err(_)) => true,
                    _ => false,
                };
                for c in cuts {
                    out.events += 1;
                    let got = read_document(bytes, &[c]);
                    if !same(&got, &reference) {
                        let class = if doc.is_char_boundary(c) { "at-character-boundary" } else { "inside-multi-byte-character" };
                        out.violation(
                            "C09",
                            format!("document/chunking/{class}/{}", match (&reference, &got) { (Ok(_), Ok(_)) => "different-items", (Ok(_), Err(_)) => "rejected-when-cut", (Err(_), Ok(_)) => "accepted-when-cut", _ => "other" }),
                            "parse_recon_document gives a different result when the source delivers the document in two reads",
                            json!({"document": clip(&doc), "cut": c, "one_read": clip(&show(&reference)), "two_reads": clip(&show(&got))}),
                        );
                        return;
                    }
                }
                for _ in 0..6 {
                    if bytes.len() < 3 {
                        break;
                    }
                    let k = rng.range(2, 8) as usize;
                    let mut cs: Vec<usize> = (0..k).map(|_| 1 + rng.usize_below(bytes.len() - 1)).collect();
                    cs.sort();
                    cs.dedup();
                    out.events += 1;
                    let got = read_document(bytes, &cs);
                    if !same(&got, &reference) {
                        out.violation("C09", "document/chunking/multi-cut", "parse_recon_document gives a different result when the source delivers the document in several reads", json!({"document": clip(&doc), "cuts": cs, "one_read": clip(&show(&reference)), "chunked": clip(&show(&got))}));
                        return;
                    }
                }
            },
        );
    }

    if crate::want(s, "comments") {
        crate::c09_comments::run(s);
    }

    let cases = s.args.budget(8_000, 400_000);
    if crate::want(s, "bytes-robust") { s.part(
        "bytes-robust",
        "byte-mutated texts (bit flips, stray UTF-8 lead/continuation bytes, truncation): valid UTF-8 goes through the chunking oracle; otherwise both decoders are fed the bytes whole and in random chunks: no panic, bounded decode calls, the framed decoder delivers exactly one result per frame and then decodes a following well-formed frame correctly; non-trivial when the bytes are not valid UTF-8; distinct by bytes",
        false,
        cases,
        |_i, rng, out| {
            let (text, _) = gen_text(rng, 20);
            let mut bytes = mutate_bytes(text.as_bytes(), rng);
            if rng.bool() {
                bytes = mutate_bytes(&bytes, rng);
            }
            out.sig(&bytes);
            if let Ok(t) = std::str::from_utf8(&bytes) {
                out.count("still_valid_utf8");
                let t = t.to_string();
                check_chunkings::<Value>("Value", &t, false, true, rng, out);
                out.nontrivial = false;
                return;
            }
            out.nontrivial = true;
            let n = bytes.len();
            let lossy = String::from_utf8_lossy(&bytes).to_string();
            const SENTINEL: &str = "@ok{a:1,\"é\"}";
            let sentinel_value = parse_value(SENTINEL).ok();
            let frame = with_len_frame(&[&bytes, SENTINEL.as_bytes()]);
            for round in 0..(if cfg!(miri) { 2 } else { 4 }) {
                let cuts: Vec<usize> = if round == 0 {
                    vec![]
                } else if round == 1 && !(cfg!(miri) && n > 24) {
                    (1..n).collect()
                } else {
                    let mut c: Vec<usize> = (0..rng.range(1, 6)).map(|_| rng.usize_below(n + 1)).collect();
                    c.sort();
                    c
                };
                let chunks = chunks_of(&bytes, &cuts);
                match guard(|| run_decoder::<Value>(&chunks, out)) {
                    Ok(o) => out.count(match o {
                        Outcome::Value(_) => "invalid_utf8_value_before_bad_bytes",
                        Outcome::Error(ref e) if e == "bad-utf8" => "invalid_utf8_reported",
                        Outcome::Error(_) => "invalid_utf8_other_error",
                        Outcome::Nothing => "invalid_utf8_nothing",
                    }),
                    Err(msg) => {
                        panic_violation(out, "RecognizerDecoder/invalid-utf8", &msg, &lossy);
                        return;
                    }
                }
                let fcuts: Vec<usize> = cuts.iter().map(|c| c + 8).collect();
                let fchunks = chunks_of(&frame, &fcuts);
                match guard(|| run_with_len::<Value>(&fchunks, 2, out)) {
                    Ok(run) => {
                        let problem = if run.budget_blown {
                            Some("decode-call-budget-exceeded".to_string())
                        } else if run.results.len() != 2 {
                            Some(format!("frames-delivered={}", run.results.len()))
                        } else if run.leftover != 0 {
                            Some("bytes-left-after-last-frame".to_string())
                        } else {
                            match (&run.results[1], &sentinel_value) {
                                (Outcome::Value(v), Some(sv)) if strict_eq(v, sv) => None,
                                (_, _) => Some("next-frame-corrupted".to_string()),
                            }
                        };
                        if let Some(kind) = problem {
                            out.violation(
                                P,
                                format!("framed-decoder-resync/invalid-utf8-frame/{kind}"),
                                "after a frame holding invalid UTF-8 the length-delimited decoder does not deliver one result per frame / the next frame",
                                json!({"bytes_lossy": clip(&lossy), "bytes_hex": bytes.iter().take(120).map(|b| format!("{b:02x}")).collect::<String>(), "cuts": cuts.iter().take(12).collect::<Vec<_>>(),
                                       "results": clip(&format!("{:?}", run.results))}),
                            );
                            return;
                        }
                    }
                    Err(msg) => {
                        panic_violation(out, "WithLenRecognizerDecoder/invalid-utf8", &msg, &lossy);
                        return;
                    }
                }
            }
        },
    ); }

    if s.args.extra_u64("depth-probe") == Some(1) {
        s.part(
            "depth-probe",
            "texts nested 200 and 1000 deep (four shapes): parse, three printers, re-parse, both decoders byte by byte; a stack overflow aborts the process (that is the finding); every case non-trivial",
            true,
            8,
            |i, rng, out| {
                let d = if i < 4 { 200 } else { 1000 };
                let text = match i % 4 {
                    0 => format!("{}1{}", "{".repeat(d), "}".repeat(d)),
                    1 => format!("{}1{}", "@a(".repeat(d), ")".repeat(d)),
                    2 => format!("{}1{}", "{k:".repeat(d), "}".repeat(d)),
                    _ => format!("{}1{}", "@a{".repeat(d), "}".repeat(d)),
                };
                out.nontrivial = true;
                out.sig(&text);
                match guard(|| parse_value(&text)) {
                    Ok(Ok(v)) => {
                        out.count("deep_parsed");
                        check_parsed_value(&v, &text, out);
                    }
                    Ok(Err(e)) => {
                        out.count("deep_rejected");
                        out.log(|| format!("depth {d} rejected: {e}"));
                    }
                    Err(msg) => panic_violation(out, "parse_recognize/deep", &msg, &text),
                }
                check_chunkings::<Value>("Value", &text, false, true, rng, out);
            },
        );
    }
}
