//! The *target* agent whose uplinks are being introspected: a harness-implemented `Agent` with a
//! few transient supply lanes speaking the lane byte protocol directly. It emits events when the
//! script says so, answers `Sync` with `Synced` (a supply lane has no state) and records every
//! command it receives. It is hosted by the real agent runtime (`AgentRouteTask::run_agent`), so all
//! counting (`Links::count_*`, `LaneSender::feed_frame`, the read task) is done by swim-rust.

use std::collections::HashMap;
use std::sync::Arc;

use futures::future::BoxFuture;
use futures::{FutureExt, SinkExt, StreamExt};
use parking_lot::Mutex;
use swimos_agent_protocol::encoding::lane::{RawValueLaneRequestDecoder, RawValueLaneResponseEncoder};
use swimos_agent_protocol::{LaneRequest, LaneResponse};
use swimos_api::agent::{Agent, AgentConfig, AgentContext, AgentInitResult, LaneConfig, WarpLaneKind};
use swimos_api::error::AgentInitError;
use swimos_utilities::routing::RouteUri;
use tokio::sync::mpsc;
use tokio::time::Instant;
use tokio_util::codec::{FramedRead, FramedWrite};

#[derive(Default)]
pub struct RawLog {
    /// (lane index, instant) of every `StandardEvent` the lane wrote.
    pub emitted: Vec<(usize, Instant)>,
    /// (lane index, instant) of every command the lane received from the runtime.
    pub commands: Vec<(usize, Instant)>,
    /// (lane index, instant) of every `Synced` the lane wrote in answer to a sync request.
    pub synced: Vec<(usize, Instant)>,
}

pub type SharedRawLog = Arc<Mutex<RawLog>>;

pub struct RawAgent {
    pub lanes: Vec<String>,
    pub log: SharedRawLog,
    /// One control channel per lane: the number of events to emit.
    pub ctl: Mutex<Option<Vec<mpsc::UnboundedReceiver<u32>>>>,
}

fn nz(n: usize) -> std::num::NonZeroUsize {
    std::num::NonZeroUsize::new(n.max(1)).unwrap()
}

impl Agent for RawAgent {
    fn run(
        &self,
        _route: RouteUri,
        _route_params: HashMap<String, String>,
        _config: AgentConfig,
        context: Box<dyn AgentContext + Send>,
    ) -> BoxFuture<'static, AgentInitResult> {
        let names = self.lanes.clone();
        let log = self.log.clone();
        let ctl = self.ctl.lock().take();
        async move {
            let Some(ctl) = ctl else { return Err(AgentInitError::FailedToStart) };
            let conf = LaneConfig { input_buffer_size: nz(4096), output_buffer_size: nz(1 << 16), transient: true };
            let mut ios = vec![];
            for name in &names {
                match context.add_lane(name, WarpLaneKind::Supply, conf).await {
                    Ok(io) => ios.push(io),
                    Err(_) => return Err(AgentInitError::FailedToStart),
                }
            }
            let task = async move {
                // the context must outlive the lanes: dropping it stops the runtime
                let _context = context;
                let lanes = ios.into_iter().zip(ctl).enumerate().map(|(idx, ((tx, rx), mut ctl))| {
                    let log = log.clone();
                    async move {
                        let mut rd = FramedRead::new(rx, RawValueLaneRequestDecoder::default());
                        let mut wr = FramedWrite::new(tx, RawValueLaneResponseEncoder::default());
                        let mut serial = 0u64;
                        let mut ctl_open = true;
                        loop {
                            tokio::select! {
                                biased;
                                n = ctl.recv(), if ctl_open => {
                                    match n {
                                        Some(n) => {
                                            for _ in 0..n {
                                                serial += 1;
                                                let body = format!("{serial}");
                                                if wr.send(LaneResponse::StandardEvent(body.as_bytes())).await.is_err() {
                                                    return;
                                                }
                                                log.lock().emitted.push((idx, Instant::now()));
                                            }
                                        }
                                        None => ctl_open = false,
                                    }
                                }
                                req = rd.next() => {
                                    match req {
                                        Some(Ok(LaneRequest::Sync(id))) => {
                                            let r: LaneResponse<&[u8]> = LaneResponse::Synced(id);
                                            if wr.send(r).await.is_err() {
                                                return;
                                            }
                                            log.lock().synced.push((idx, Instant::now()));
                                        }
                                        Some(Ok(LaneRequest::Command(_))) => log.lock().commands.push((idx, Instant::now())),
                                        Some(Ok(LaneRequest::InitComplete)) => {}
                                        Some(Err(_)) | None => return,
                                    }
                                }
                            }
                        }
                    }
                });
                futures::future::join_all(lanes).await;
                Ok(())
            };
            Ok(task.boxed())
        }
        .boxed()
    }
}
