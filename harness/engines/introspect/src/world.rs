//! Runs one scripted case: the real introspection task (`register_introspection`), target agents on
//! the real agent runtime with the `NodeReporting` that `IntrospectionResolver::register_agent`
//! hands out (exactly the server's wiring), simulated remotes, and the real meta agents (component
//! or hosted mode). Current-thread Tokio runtime, paused clock: every observation carries the
//! virtual instant at which it happened.

use std::collections::HashMap;
use std::num::NonZeroUsize;
use std::sync::Arc;
use std::time::Duration;

use common::jitter::Jitter;
use common::{ticket, Rng};
use parking_lot::Mutex;
use swimos_introspection::{lane_pattern, mesh_pattern, node_pattern, register_introspection, IntrospectionConfig, IntrospectionResolver};
use swimos_model::Text;
use swimos_runtime::agent::reporting::UplinkSnapshot;
use swimos_utilities::routing::{RoutePattern, RouteUri};
use swimos_utilities::trigger;
use tokio::sync::mpsc;
use tokio::time::Instant;
use uuid::Uuid;

use crate::meta::{host, start_component, Component, Hosted, MetaLog, PulseKind, Reg};
use crate::raw::{RawAgent, RawLog, SharedRawLog};
use crate::remote::{Frame, Remote, ReqKind};
use crate::script::{Cfg, Step, Target};

#[allow(dead_code)]
pub struct IncObs {
    pub slot: usize,
    pub uri: String,
    pub lanes: Vec<String>,
    pub started: Instant,
    pub registered: bool,
    pub stop_requested: Option<Instant>,
    pub finished: Option<(Instant, Result<(), String>)>,
    pub raw: RawLog,
    /// URIs registered with the introspection system before this one (this case).
    pub earlier_uris: Vec<String>,
}

pub struct RemoteObs {
    pub inc: usize,
    pub frames: Vec<Frame>,
    pub sent: Vec<(Instant, ReqKind, String)>,
    pub dropped: Option<Instant>,
    pub dropped_ticket: u64,
    pub attached: bool,
}

pub struct MetaObs {
    pub target: Target,
    /// Incarnation the target slot was running when the meta agent was started.
    pub inc: Option<usize>,
    pub hosted: bool,
    pub route: String,
    pub t0: Instant,
    pub t0_ticket: u64,
    /// The target incarnation was started at an earlier instant and had not been asked to stop.
    pub target_settled: bool,
    pub init: Result<(), String>,
    /// Component mode: what the lanes wrote.
    pub log: MetaLog,
    /// Hosted mode: frames of the observer that only links, and of the one that also syncs.
    pub std_observer: Vec<Frame>,
    pub sync_observer: Vec<Frame>,
    pub observers_attached: bool,
    pub pulse_syncs: Vec<(Instant, Uuid)>,
    pub lanes_syncs: Vec<(Instant, Uuid)>,
    pub hosted_finished: Option<(Instant, Result<(), String>)>,
}

pub struct HSnap {
    pub inc: usize,
    pub lane: Option<usize>,
    pub at: Instant,
    pub ticket: u64,
    pub snap: Result<Option<UplinkSnapshot>, String>,
    pub settled: bool,
}

pub struct Obs {
    pub cfg: Cfg,
    pub start: Instant,
    pub incs: Vec<IncObs>,
    pub remotes: Vec<RemoteObs>,
    pub metas: Vec<MetaObs>,
    pub hsnaps: Vec<HSnap>,
    pub stuck: Vec<String>,
    pub task_finished: bool,
    pub steps_run: u64,
}

struct Inc {
    obs: IncObs,
    id: Uuid,
    hosted: Hosted,
    emit_tx: Vec<mpsc::UnboundedSender<u32>>,
    rawlog: SharedRawLog,
    // the agent must outlive `run_agent`'s construction only, but keep it for clarity
    _agent: Arc<RawAgent>,
}

struct RemoteRec {
    inc: usize,
    remote: Remote,
}

struct Meta {
    obs: MetaObs,
    component: Option<Component>,
    hosted: Option<Hosted>,
    std_obs: Option<Remote>,
    sync_obs: Option<Remote>,
}

struct World {
    cfg: Cfg,
    resolver: IntrospectionResolver,
    reg: Reg,
    patterns: (RoutePattern, RoutePattern, RoutePattern),
    incs: Vec<Inc>,
    current: Vec<Option<usize>>,
    remotes: Vec<RemoteRec>,
    live: Vec<Option<usize>>,
    metas: Vec<Meta>,
    hsnaps: Vec<HSnap>,
    stuck: Vec<String>,
    ids: u128,
    registered_uris: Vec<String>,
}

impl World {
    fn next_id(&mut self) -> Uuid {
        self.ids += 1;
        Uuid::from_u128(0x1_0000 + self.ids)
    }

    fn running(&self, slot: usize) -> Option<usize> {
        self.current[slot].filter(|i| self.incs[*i].obs.stop_requested.is_none() && !self.incs[*i].hosted.is_finished())
    }

    fn start_agent(&mut self, slot: usize) {
        if self.current[slot].is_some() {
            return;
        }
        let a = self.cfg.agents[slot].clone();
        let id = self.next_id();
        let route: RouteUri = match a.uri.parse() {
            Ok(r) => r,
            Err(_) => {
                self.stuck.push(format!("node uri {} does not parse", a.uri));
                return;
            }
        };
        // exactly what `Agents::resolve_agent` of the server does
        let reporting = self.resolver.register_agent(id, route.clone(), Text::new(&a.uri));
        let registered = reporting.is_ok();
        let rawlog: SharedRawLog = Arc::new(Mutex::new(RawLog::default()));
        let mut emit_tx = vec![];
        let mut emit_rx = vec![];
        for _ in &a.lanes {
            let (tx, rx) = mpsc::unbounded_channel();
            emit_tx.push(tx);
            emit_rx.push(rx);
        }
        let agent = Arc::new(RawAgent { lanes: a.lanes.clone(), log: rawlog.clone(), ctl: Mutex::new(Some(emit_rx)) });
        let hosted = host(&*agent, id, route, HashMap::new(), reporting.ok());
        let obs = IncObs {
            slot,
            uri: a.uri.clone(),
            lanes: a.lanes.clone(),
            started: Instant::now(),
            registered,
            stop_requested: None,
            finished: None,
            raw: RawLog::default(),
            earlier_uris: self.registered_uris.clone(),
        };
        self.registered_uris.push(a.uri);
        self.incs.push(Inc { obs, id, hosted, emit_tx, rawlog, _agent: agent });
        self.current[slot] = Some(self.incs.len() - 1);
    }

    async fn stop_agent(&mut self, slot: usize) {
        let Some(i) = self.current[slot].take() else { return };
        let inc = &mut self.incs[i];
        inc.obs.stop_requested = Some(Instant::now());
        inc.hosted.stop();
        if tokio::time::timeout(Duration::from_secs(100), &mut inc.hosted.handle).await.is_err() {
            self.stuck.push("target agent did not stop within 100 virtual seconds".to_string());
        }
        inc.obs.finished = inc.hosted.finished.lock().clone();
        // as `Agents::remove_agent` of the server
        let _ = self.resolver.close_agent(inc.id);
        for l in self.live.iter_mut() {
            if l.map_or(false, |r| self.remotes[r].inc == i) {
                *l = None;
            }
        }
    }

    async fn attach(&mut self, r: usize) {
        let slot = self.cfg.remotes[r];
        let Some(i) = self.running(slot) else { return };
        if let Some(cur) = self.live[r] {
            if self.remotes[cur].remote.alive() {
                return;
            }
        }
        let id = self.next_id();
        let uri = self.incs[i].obs.uri.clone();
        let remote = Remote::attach(&self.incs[i].hosted.att_tx, id, &uri).await;
        if !remote.attached {
            self.stuck.push("attachment to a running target agent was not confirmed".to_string());
        }
        self.remotes.push(RemoteRec { inc: i, remote });
        self.live[r] = Some(self.remotes.len() - 1);
    }

    async fn req(&mut self, r: usize, kind: ReqKind, lane: usize) {
        let slot = self.cfg.remotes[r];
        let Some(i) = self.running(slot) else { return };
        let Some(cur) = self.live[r] else { return };
        if self.remotes[cur].inc != i || !self.remotes[cur].remote.alive() {
            return;
        }
        let name = self.incs[i].obs.lanes[lane].clone();
        self.remotes[cur].remote.send(kind, &name).await;
    }

    fn route_of(&self, target: Target) -> Option<(String, Option<PulseKind>)> {
        let mut params = HashMap::new();
        match target {
            Target::Mesh => Some(("swimos:meta:mesh".to_string(), None)),
            Target::Node(a) => {
                params.insert("node_uri".to_string(), self.cfg.agents[a].uri.clone());
                self.patterns.0.apply(&params).ok().map(|r| (r, Some(PulseKind::Node)))
            }
            Target::Lane(a, l) => {
                params.insert("node_uri".to_string(), self.cfg.agents[a].uri.clone());
                params.insert("lane_name".to_string(), self.cfg.agents[a].lanes[l].clone());
                self.patterns.1.apply(&params).ok().map(|r| (r, Some(PulseKind::Lane)))
            }
        }
    }

    async fn start_meta(&mut self, target: Target, sync_at_start: bool) {
        let Some((route, pulse_kind)) = self.route_of(target) else {
            self.stuck.push("meta route could not be built from the registered pattern".to_string());
            return;
        };
        let Ok(route_uri) = route.parse::<RouteUri>() else {
            self.stuck.push(format!("meta route {route} does not parse"));
            return;
        };
        let slot = match target {
            Target::Node(a) | Target::Lane(a, _) => Some(a),
            Target::Mesh => None,
        };
        let inc = slot.and_then(|s| self.current[s]);
        let now = Instant::now();
        let target_settled = inc.map_or(false, |i| {
            let o = &self.incs[i];
            o.obs.registered && o.obs.started < now && o.obs.stop_requested.is_none() && !o.hosted.is_finished()
        });
        let hosted_mode = self.cfg.hosted && !matches!(target, Target::Mesh);
        let mut obs = MetaObs {
            target,
            inc,
            hosted: hosted_mode,
            route: route.clone(),
            t0: now,
            t0_ticket: ticket(),
            target_settled,
            init: Ok(()),
            log: MetaLog::default(),
            std_observer: vec![],
            sync_observer: vec![],
            observers_attached: false,
            pulse_syncs: vec![],
            lanes_syncs: vec![],
            hosted_finished: None,
        };
        let Some((agent, params)) = self.reg.find(&route_uri) else {
            obs.init = Err("no registered route matches".to_string());
            self.stuck.push(format!("no introspection route matches {route}"));
            self.metas.push(Meta { obs, component: None, hosted: None, std_obs: None, sync_obs: None });
            return;
        };
        if !hosted_mode {
            match start_component(agent, route_uri, params, pulse_kind).await {
                Ok(mut c) => {
                    if sync_at_start && pulse_kind.is_some() {
                        let id = Uuid::from_u128(0x9_0000 + self.metas.len() as u128 * 1000);
                        if c.sync("pulse", id).await {
                            obs.pulse_syncs.push((Instant::now(), id));
                        }
                    }
                    self.metas.push(Meta { obs, component: Some(c), hosted: None, std_obs: None, sync_obs: None });
                }
                Err(e) => {
                    obs.init = Err(e);
                    self.metas.push(Meta { obs, component: None, hosted: None, std_obs: None, sync_obs: None });
                }
            }
        } else {
            // As the server: the meta agent's own runtime is registered for introspection too.
            let id = Uuid::from_u128(0x5_0000 + self.metas.len() as u128);
            let reporting = self.resolver.register_agent(id, route_uri.clone(), Text::new(&route)).ok();
            let hosted = host(agent, id, route_uri, params, reporting);
            let a = Remote::attach(&hosted.att_tx, Uuid::from_u128(0x6_0000 + self.metas.len() as u128), &route).await;
            let b = Remote::attach(&hosted.att_tx, Uuid::from_u128(0x7_0000 + self.metas.len() as u128), &route).await;
            let (mut a, mut b) = (a, b);
            obs.observers_attached = a.attached && b.attached;
            if obs.observers_attached {
                a.send(ReqKind::Link, "pulse").await;
                if sync_at_start {
                    if b.send(ReqKind::Sync, "pulse").await {
                        obs.pulse_syncs.push((Instant::now(), b.id));
                    }
                } else {
                    b.send(ReqKind::Link, "pulse").await;
                }
            }
            // let the initialisation finish (no time passes)
            for _ in 0..50 {
                tokio::task::yield_now().await;
            }
            if let Some((_, Err(e))) = hosted.finished.lock().clone() {
                obs.init = Err(e);
            }
            self.metas.push(Meta { obs, component: None, hosted: Some(hosted), std_obs: Some(a), sync_obs: Some(b) });
        }
    }

    async fn sync_meta(&mut self, m: usize) {
        let n = self.metas.len();
        if n == 0 {
            return;
        }
        let idx = m % n;
        let k = self.metas[idx].obs.pulse_syncs.len() as u128;
        let meta = &mut self.metas[idx];
        if meta.obs.init.is_err() || matches!(meta.obs.target, Target::Mesh) {
            return;
        }
        if let Some(c) = meta.component.as_mut() {
            if c.log.lock().done.is_some() {
                return;
            }
            let id = Uuid::from_u128(0x9_0000 + idx as u128 * 1000 + 1 + k);
            if c.sync("pulse", id).await {
                meta.obs.pulse_syncs.push((Instant::now(), id));
            }
        } else if let Some(b) = meta.sync_obs.as_mut() {
            if b.alive() && b.send(ReqKind::Sync, "pulse").await {
                meta.obs.pulse_syncs.push((Instant::now(), b.id));
            }
        }
    }

    async fn sync_lanes(&mut self, m: usize) {
        let n = self.metas.len();
        if n == 0 {
            return;
        }
        let idx = m % n;
        let k = self.metas[idx].obs.lanes_syncs.len() as u128;
        let meta = &mut self.metas[idx];
        let lane = match meta.obs.target {
            Target::Node(_) => "lanes",
            Target::Mesh => if k % 2 == 0 { "nodes" } else { "nodes#/" },
            Target::Lane(..) => return,
        };
        if let Some(c) = meta.component.as_mut() {
            if c.log.lock().done.is_some() {
                return;
            }
            let id = Uuid::from_u128(0xA_0000 + idx as u128 * 1000 + k);
            if c.sync(lane, id).await {
                meta.obs.lanes_syncs.push((Instant::now(), id));
            }
        }
    }

    async fn harness_snapshot(&mut self, target: Target) {
        let (slot, lane) = match target {
            Target::Node(a) => (a, None),
            Target::Lane(a, l) => (a, Some(l)),
            Target::Mesh => return,
        };
        let Some(i) = self.running(slot) else { return };
        let uri = Text::new(&self.incs[i].obs.uri);
        let settled = self.incs[i].obs.registered && self.incs[i].obs.started < Instant::now();
        let snap = match lane {
            None => match tokio::time::timeout(Duration::from_secs(5), self.resolver.resolve_agent(uri)).await {
                Ok(Ok(handle)) => Ok(handle.aggregate_reader().snapshot()),
                Ok(Err(e)) => Err(format!("{e}")),
                Err(_) => Err("resolve_agent did not answer".to_string()),
            },
            Some(l) => {
                let name = Text::new(&self.incs[i].obs.lanes[l]);
                match tokio::time::timeout(Duration::from_secs(5), self.resolver.resolve_lane(uri, name)).await {
                    Ok(Ok(view)) => Ok(view.report_reader.snapshot()),
                    Ok(Err(e)) => Err(format!("{e}")),
                    Err(_) => Err("resolve_lane did not answer".to_string()),
                }
            }
        };
        self.hsnaps.push(HSnap { inc: i, lane, at: Instant::now(), ticket: ticket(), snap, settled });
    }

    async fn step(&mut self, step: &Step) {
        match step {
            Step::StartAgent(a) => self.start_agent(*a),
            Step::StopAgent(a) => self.stop_agent(*a).await,
            Step::Attach(r) => self.attach(*r).await,
            Step::Req(r, k, l) => self.req(*r, *k, *l).await,
            Step::DropRemote(r) => {
                if let Some(cur) = self.live[*r].take() {
                    self.remotes[cur].remote.drop_io();
                }
            }
            Step::Emit(a, l, n) => {
                if let Some(i) = self.running(*a) {
                    let _ = self.incs[i].emit_tx[*l].send(*n);
                }
            }
            Step::StartMeta { target, sync_at_start } => self.start_meta(*target, *sync_at_start).await,
            Step::SyncMeta(m) => self.sync_meta(*m).await,
            Step::SyncLanes(m) => self.sync_lanes(*m).await,
            Step::HarnessSnapshot(t) => self.harness_snapshot(*t).await,
            Step::Sleep(us) => tokio::time::sleep(Duration::from_micros(*us)).await,
            Step::Yield => {
                for _ in 0..20 {
                    tokio::task::yield_now().await;
                }
            }
        }
    }
}

pub fn run_case(cfg: &Cfg, script: &[Step], rng: &mut Rng) -> Obs {
    let rt = tokio::runtime::Builder::new_current_thread().enable_time().start_paused(true).build().expect("tokio runtime");
    let cfg = cfg.clone();
    let mut rng = rng.fork();
    rt.block_on(async move {
        let start = Instant::now();
        let (stop_tx, stop_rx) = trigger::trigger();
        let config = IntrospectionConfig {
            node_pulse_interval: Duration::from_micros(cfg.node_interval_us),
            lane_pulse_interval: Duration::from_micros(cfg.lane_interval_us),
            registration_channel_size: NonZeroUsize::new(cfg.reg_channel.max(1)).unwrap(),
        };
        let mut reg = Reg::default();
        let (resolver, task) = register_introspection(stop_rx, config, &mut reg);
        let task_done = Arc::new(Mutex::new(false));
        let td = task_done.clone();
        let jitter = cfg.jitter;
        let task_handle = tokio::spawn(Jitter::new(
            async move {
                task.await;
                *td.lock() = true;
            },
            rng.fork(),
            jitter,
        ));
        let n_slots = cfg.agents.len();
        let n_remotes = cfg.remotes.len();
        let mut w = World {
            cfg: cfg.clone(),
            resolver,
            reg,
            patterns: (node_pattern(), lane_pattern(), mesh_pattern()),
            incs: vec![],
            current: vec![None; n_slots],
            remotes: vec![],
            live: vec![None; n_remotes],
            metas: vec![],
            hsnaps: vec![],
            stuck: vec![],
            ids: 0,
            registered_uris: vec![],
        };
        let mut steps_run = 0;
        for s in script {
            w.step(s).await;
            steps_run += 1;
        }
        // Epilogue 1: quiet period (every pulse lane publishes what is left), then the remainders.
        let max_p = cfg.node_interval_us.max(cfg.lane_interval_us);
        let quiet = Duration::from_micros(3 * max_p + 3_000);
        tokio::time::sleep(quiet).await;
        for slot in 0..n_slots {
            if w.running(slot).is_some() {
                w.harness_snapshot(Target::Node(slot)).await;
                for l in 0..cfg.agents[slot].lanes.len() {
                    w.harness_snapshot(Target::Lane(slot, l)).await;
                }
            }
        }
        tokio::time::sleep(Duration::from_micros(1_000)).await;
        // Epilogue 2: every target agent stops; the meta agents must notice within a pulse interval.
        for slot in 0..n_slots {
            w.stop_agent(slot).await;
        }
        tokio::time::sleep(quiet).await;
        // Collect.
        let mut metas = vec![];
        for mut m in w.metas {
            if let Some(c) = m.component.as_mut() {
                m.obs.log = std::mem::take(&mut *c.log.lock());
                c.abort();
            }
            if let Some(h) = m.hosted.as_mut() {
                m.obs.hosted_finished = h.finished.lock().clone();
                h.stop();
            }
            if let Some(a) = m.std_obs.as_ref() {
                m.obs.std_observer = a.frames.lock().frames.clone();
            }
            if let Some(b) = m.sync_obs.as_ref() {
                m.obs.sync_observer = b.frames.lock().frames.clone();
            }
            if let Some(mut h) = m.hosted.take() {
                let _ = tokio::time::timeout(Duration::from_secs(100), &mut h.handle).await;
                h.abort();
            }
            metas.push(m.obs);
        }
        stop_tx.trigger();
        for _ in 0..20 {
            tokio::task::yield_now().await;
        }
        let task_finished = *task_done.lock();
        task_handle.abort();
        let mut incs = vec![];
        for mut i in w.incs {
            i.obs.raw = std::mem::take(&mut *i.rawlog.lock());
            if i.obs.finished.is_none() {
                i.obs.finished = i.hosted.finished.lock().clone();
            }
            i.hosted.abort();
            incs.push(i.obs);
        }
        let remotes = w
            .remotes
            .into_iter()
            .map(|r| RemoteObs {
                inc: r.inc,
                frames: r.remote.frames.lock().frames.clone(),
                sent: r.remote.sent.clone(),
                dropped: r.remote.dropped,
                dropped_ticket: r.remote.dropped_ticket,
                attached: r.remote.attached,
            })
            .collect();
        Obs { cfg, start, incs, remotes, metas, hsnaps: w.hsnaps, stuck: w.stuck, task_finished, steps_run }
    })
}
