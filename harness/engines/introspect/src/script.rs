//! Generated configurations and scripts: a few target agents (node URIs over a tiny alphabet, so
//! that prefix-related and repeated-segment URIs are common), remotes that link / sync / unlink /
//! command / disappear, agents that stop and restart, meta agents started at arbitrary points.

use common::Rng;

use crate::remote::ReqKind;

#[derive(Clone, Debug)]
pub struct AgentCfg {
    pub uri: String,
    pub lanes: Vec<String>,
}

#[derive(Clone, Debug)]
pub struct Cfg {
    pub hosted: bool,
    pub node_interval_us: u64,
    pub lane_interval_us: u64,
    pub agents: Vec<AgentCfg>,
    /// The agent slot each remote slot talks to.
    pub remotes: Vec<usize>,
    /// Per-mille probability that a poll of the introspection task is deferred.
    pub jitter: u64,
    pub reg_channel: usize,
}

#[derive(Clone, Copy, Debug, PartialEq, Eq, Hash)]
pub enum Target {
    Node(usize),
    Lane(usize, usize),
    Mesh,
}

#[derive(Clone, Debug)]
pub enum Step {
    StartAgent(usize),
    StopAgent(usize),
    Attach(usize),
    Req(usize, ReqKind, usize),
    DropRemote(usize),
    Emit(usize, usize, u32),
    StartMeta { target: Target, sync_at_start: bool },
    SyncMeta(usize),
    SyncLanes(usize),
    HarnessSnapshot(Target),
    Sleep(u64),
    /// Let every task run without letting time pass.
    Yield,
}

const SEGS: [&str; 3] = ["a", "b", "c"];

fn gen_uri(rng: &mut Rng, taken: &[String]) -> String {
    loop {
        let uri = if !taken.is_empty() && rng.chance(1, 2) {
            // related to an existing URI: extend it, cut it, or repeat its last segment
            let base = rng.pick(taken).clone();
            let segs: Vec<&str> = base.split('/').filter(|s| !s.is_empty()).collect();
            match rng.below(3) {
                0 if segs.len() < 4 => format!("{base}/{}", rng.pick(&SEGS[..])),
                1 if segs.len() > 1 => format!("/{}", segs[..segs.len() - 1].join("/")),
                _ if segs.len() < 4 => format!("{base}/{}", segs[segs.len() - 1]),
                _ => format!("/{}", rng.pick(&SEGS[..])),
            }
        } else {
            let depth = rng.range(1, 3);
            let mut s = String::new();
            for _ in 0..depth {
                s.push('/');
                s.push_str(*rng.pick(&SEGS[..]));
            }
            s
        };
        if !taken.contains(&uri) {
            return uri;
        }
    }
}

const INTERVALS_US: [u64; 9] = [1_000, 2_000, 3_000, 5_000, 7_000, 10_000, 16_000, 2_500, 40_000];

fn segs_of(u: &str) -> Vec<&str> {
    u.split('/').filter(|s| !s.is_empty()).collect()
}

/// No URI is a segment-prefix of another and none repeats a segment consecutively.
pub fn is_flat(uris: &[String]) -> bool {
    for (i, u) in uris.iter().enumerate() {
        let a = segs_of(u);
        if a.windows(2).any(|w| w[0] == w[1]) {
            return false;
        }
        for (j, v) in uris.iter().enumerate() {
            let b = segs_of(v);
            if i != j && a.len() <= b.len() && b[..a.len()] == a[..] {
                return false;
            }
        }
    }
    true
}

pub fn generate(rng: &mut Rng, hosted: bool, nested: bool) -> (Cfg, Vec<Step>) {
    let n_agents = if rng.chance(1, 4) { 1 } else { rng.range(2, 3) as usize };
    let uris: Vec<String> = loop {
        let mut uris: Vec<String> = vec![];
        for _ in 0..n_agents {
            let uri = gen_uri(rng, &uris);
            uris.push(uri);
        }
        // the flat parts keep clear of the URI trie's trouble with related URIs; the nested part wants it
        if is_flat(&uris) != nested {
            break uris;
        }
    };
    let mut agents = vec![];
    for uri in uris.iter().cloned() {
        let n_lanes = rng.range(1, 3) as usize;
        agents.push(AgentCfg { uri, lanes: (0..n_lanes).map(|i| format!("l{i}")).collect() });
    }
    let mut remotes = vec![];
    for a in 0..n_agents {
        for _ in 0..rng.range(1, 3) {
            remotes.push(a);
        }
    }
    let node_interval_us = *rng.pick(&INTERVALS_US[..]);
    let lane_interval_us = loop {
        let l = *rng.pick(&INTERVALS_US[..]);
        if l != node_interval_us {
            break l;
        }
    };
    let cfg = Cfg {
        hosted,
        node_interval_us,
        lane_interval_us,
        agents,
        remotes,
        jitter: if rng.chance(1, 2) { 0 } else { rng.range(100, 600) },
        reg_channel: rng.range(1, 8) as usize,
    };
    let max_p = node_interval_us.max(lane_interval_us);
    let mut steps = vec![];
    // Prologue: the agents start (sometimes back to back within one instant, sometimes one is late).
    let late = if n_agents > 1 && rng.chance(1, 4) { Some(rng.usize_below(n_agents)) } else { None };
    for a in 0..n_agents {
        if Some(a) != late {
            steps.push(Step::StartAgent(a));
            if rng.chance(1, 2) {
                steps.push(Step::Sleep(rng.range(1, 4) * 1000));
            }
        }
    }
    if rng.chance(3, 4) {
        steps.push(Step::Sleep(1000));
    }
    let n_remotes = cfg.remotes.len();
    let body = rng.range(25, 70);
    let mut metas = 0usize;
    let mut late_left = late;
    let rand_target = |rng: &mut Rng, cfg: &Cfg| -> Target {
        let a = rng.usize_below(cfg.agents.len());
        match rng.below(10) {
            0 => Target::Mesh,
            1..=4 => Target::Node(a),
            _ => Target::Lane(a, rng.usize_below(cfg.agents[a].lanes.len())),
        }
    };
    for i in 0..body {
        let r = rng.usize_below(n_remotes);
        let a = cfg.remotes[r];
        let lane = rng.usize_below(cfg.agents[a].lanes.len());
        match rng.below(100) {
            0..=9 => steps.push(Step::Attach(r)),
            10..=24 => steps.push(Step::Req(r, ReqKind::Link, lane)),
            25..=29 => steps.push(Step::Req(r, ReqKind::Sync, lane)),
            30..=37 => steps.push(Step::Req(r, ReqKind::Unlink, lane)),
            38..=47 => steps.push(Step::Req(r, ReqKind::Command, lane)),
            48..=49 => steps.push(Step::DropRemote(r)),
            50..=64 => {
                let ea = rng.usize_below(n_agents);
                steps.push(Step::Emit(ea, rng.usize_below(cfg.agents[ea].lanes.len()), rng.range(1, 4) as u32));
            }
            65..=72 if metas < 6 => {
                metas += 1;
                steps.push(Step::StartMeta { target: rand_target(rng, &cfg), sync_at_start: rng.chance(3, 4) });
            }
            73..=76 if metas > 0 => steps.push(Step::SyncMeta(rng.usize_below(metas))),
            77..=79 if metas > 0 => steps.push(Step::SyncLanes(rng.usize_below(metas))),
            80..=82 => steps.push(Step::HarnessSnapshot(rand_target(rng, &cfg))),
            83 => {
                // restart: stop, (time passes,) start again under the same URI
                let sa = rng.usize_below(n_agents);
                steps.push(Step::StopAgent(sa));
                if rng.chance(2, 3) {
                    steps.push(Step::Sleep(rng.range(1, 3) * max_p));
                }
                if rng.chance(3, 4) {
                    steps.push(Step::StartAgent(sa));
                }
            }
            84..=86 => steps.push(Step::Yield),
            _ => {
                let us = match rng.below(4) {
                    0 => rng.range(1, 3) * 1000,
                    1 => rng.range(1, 2 * max_p / 1000 + 1) * 1000,
                    2 => node_interval_us,
                    _ => rng.range(1, 9) * 500,
                };
                steps.push(Step::Sleep(us));
            }
        }
        if let Some(l) = late_left {
            if i > body / 3 {
                steps.push(Step::StartAgent(l));
                late_left = None;
            }
        }
        // early on, make sure something is linked and observed in most cases
        if i == 3 {
            steps.push(Step::Attach(r));
            steps.push(Step::Req(r, ReqKind::Link, lane));
            if metas == 0 {
                metas += 1;
                let t = if rng.bool() { Target::Node(a) } else { Target::Lane(a, lane) };
                steps.push(Step::StartMeta { target: t, sync_at_start: rng.chance(3, 4) });
            }
        }
    }
    (cfg, steps)
}
