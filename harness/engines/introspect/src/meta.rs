//! Hosting of the real introspection meta agents (`swimos:meta:node/..`, `../lane/..`,
//! `swimos:meta:mesh`) obtained from `register_introspection` through an `AgentRegistration`:
//!  * *component* mode: `Agent::run` against a harness `AgentContext` whose lanes are plain byte
//!    channels, so every `LaneResponse` frame of the pulse lane is seen at its virtual instant;
//!  * *hosted* mode: the meta agent is run by the real agent runtime (`AgentRouteTask`), and a
//!    simulated remote links to its `pulse` lane.

use std::collections::HashMap;
use std::sync::Arc;
use std::time::Duration;

use bytes::BytesMut;
use common::ticket;
use futures::future::BoxFuture;
use futures::{FutureExt, SinkExt, StreamExt};
use parking_lot::Mutex;
use swimos_agent_protocol::encoding::lane::{RawMapLaneResponseDecoder, RawValueLaneRequestEncoder, RawValueLaneResponseDecoder};
use swimos_agent_protocol::{LaneRequest, LaneResponse, MapOperation};
use swimos_api::agent::{
    Agent, AgentConfig, AgentContext, BoxAgent, DownlinkKind, HttpLaneRequestChannel, LaneConfig, StoreKind, WarpLaneKind,
};
use swimos_api::error::{AgentRuntimeError, DownlinkRuntimeError, OpenStoreError};
use swimos_introspection::AgentRegistration;
use swimos_meta::{LanePulse, NodePulse, WarpUplinkPulse};
use swimos_recon::parser::parse_recognize;
use swimos_runtime::agent::{
    AgentAttachmentRequest, AgentExecError, AgentRouteChannels, AgentRouteDescriptor, AgentRouteTask, AgentRuntimeConfig,
    CombinedAgentConfig, LinkRequest, NodeReporting,
};
use swimos_utilities::byte_channel::{byte_channel, ByteReader, ByteWriter};
use swimos_utilities::routing::{RoutePattern, RouteUri};
use swimos_utilities::trigger;
use tokio::sync::mpsc;
use tokio::task::JoinHandle;
use tokio::time::Instant;
use tokio_util::codec::{FramedRead, FramedWrite};
use uuid::Uuid;

/// The routing table handed to `register_introspection` (what `Routes` is in the server).
#[derive(Default)]
pub struct Reg(pub Vec<(RoutePattern, BoxAgent)>);

impl AgentRegistration for Reg {
    fn register<A: Agent + Send + 'static>(&mut self, pattern: RoutePattern, agent: A) {
        self.0.push((pattern, Box::new(agent)));
    }
}

impl Reg {
    /// First registered route that matches (as `Routes::find_route` in the server).
    pub fn find(&self, uri: &RouteUri) -> Option<(&BoxAgent, HashMap<String, String>)> {
        self.0.iter().find_map(|(p, a)| p.unapply_route_uri(uri).ok().map(|params| (a, params)))
    }
}

#[derive(Clone, Copy, Debug, PartialEq, Eq)]
pub enum PulseKind {
    Node,
    Lane,
}

pub fn parse_pulse(kind: PulseKind, body: &[u8]) -> Result<WarpUplinkPulse, String> {
    let text = std::str::from_utf8(body).map_err(|e| format!("{e}"))?;
    match kind {
        PulseKind::Node => parse_recognize::<NodePulse>(text, false).map(|p| p.uplinks).map_err(|e| format!("{e}: {text}")),
        PulseKind::Lane => parse_recognize::<LanePulse>(text, false).map(|p| p.uplink_pulse).map_err(|e| format!("{e}: {text}")),
    }
}

#[derive(Clone, Debug)]
#[allow(dead_code)]
pub enum LaneOut {
    Std(WarpUplinkPulse),
    SyncEv(Uuid, WarpUplinkPulse),
    Synced(Uuid),
    Bad(String),
}

#[derive(Default)]
pub struct MetaLog {
    /// Frames of the `pulse` lane (component mode): (instant, ticket, frame).
    pub pulse: Vec<(Instant, u64, LaneOut)>,
    pub pulse_closed: Option<Instant>,
    /// Frames of the map lanes: lane name -> (instant, sync id, key or None for `Synced`).
    pub map: Vec<(String, Instant, Uuid, Option<String>)>,
    /// (instant, result) of the agent task.
    pub done: Option<(Instant, Result<(), String>)>,
}

pub type SharedMetaLog = Arc<Mutex<MetaLog>>;

struct MadeLane {
    name: String,
    kind: WarpLaneKind,
    to_lane: ByteWriter,
    from_lane: ByteReader,
}

struct FakeCtx {
    made: Arc<Mutex<Vec<MadeLane>>>,
}

fn nz(n: usize) -> std::num::NonZeroUsize {
    std::num::NonZeroUsize::new(n.max(1)).unwrap()
}

impl AgentContext for FakeCtx {
    fn command_channel(&self) -> BoxFuture<'static, Result<ByteWriter, DownlinkRuntimeError>> {
        async { Err(DownlinkRuntimeError::RuntimeError(AgentRuntimeError::Stopping)) }.boxed()
    }

    fn add_lane(&self, name: &str, lane_kind: WarpLaneKind, _config: LaneConfig) -> BoxFuture<'static, Result<(ByteWriter, ByteReader), AgentRuntimeError>> {
        let (in_tx, in_rx) = byte_channel(nz(4096));
        let (out_tx, out_rx) = byte_channel(nz(1 << 16));
        self.made.lock().push(MadeLane { name: name.to_string(), kind: lane_kind, to_lane: in_tx, from_lane: out_rx });
        async move { Ok((out_tx, in_rx)) }.boxed()
    }

    fn add_http_lane(&self, _name: &str) -> BoxFuture<'static, Result<HttpLaneRequestChannel, AgentRuntimeError>> {
        async { Err(AgentRuntimeError::Stopping) }.boxed()
    }

    fn open_downlink(&self, _host: Option<&str>, _node: &str, _lane: &str, _kind: DownlinkKind) -> BoxFuture<'static, Result<(ByteWriter, ByteReader), DownlinkRuntimeError>> {
        async { Err(DownlinkRuntimeError::RuntimeError(AgentRuntimeError::Stopping)) }.boxed()
    }

    fn add_store(&self, _name: &str, _kind: StoreKind) -> BoxFuture<'static, Result<(ByteWriter, ByteReader), OpenStoreError>> {
        async { Err(OpenStoreError::StoresNotSupported) }.boxed()
    }
}

pub type ReqWriter = FramedWrite<ByteWriter, RawValueLaneRequestEncoder>;

/// A meta agent run against the harness context.
pub struct Component {
    pub log: SharedMetaLog,
    /// Request writers of the lanes by name (`pulse`, `lanes`, `nodes`, `nodes#/`).
    pub writers: HashMap<String, ReqWriter>,
    pub task: JoinHandle<()>,
    readers: Vec<JoinHandle<()>>,
}

impl Component {
    pub async fn sync(&mut self, lane: &str, id: Uuid) -> bool {
        match self.writers.get_mut(lane) {
            Some(w) => {
                let req: LaneRequest<&[u8]> = LaneRequest::Sync(id);
                matches!(tokio::time::timeout(Duration::from_secs(5), w.send(req)).await, Ok(Ok(())))
            }
            None => false,
        }
    }

    pub fn abort(&mut self) {
        self.task.abort();
        for r in &self.readers {
            r.abort();
        }
    }
}

/// Run a meta agent's initialisation against the harness context and, if it succeeds, spawn its task.
pub async fn start_component(agent: &BoxAgent, route: RouteUri, params: HashMap<String, String>, pulse_kind: Option<PulseKind>) -> Result<Component, String> {
    let made = Arc::new(Mutex::new(vec![]));
    let ctx = FakeCtx { made: made.clone() };
    let init = agent.run(route, params, AgentConfig::default(), Box::new(ctx));
    let task = match tokio::time::timeout(Duration::from_secs(5), init).await {
        Ok(Ok(task)) => task,
        Ok(Err(e)) => return Err(format!("{e}")),
        Err(_) => return Err("initialisation did not complete (harness time-out)".to_string()),
    };
    let log: SharedMetaLog = Arc::new(Mutex::new(MetaLog::default()));
    let l2 = log.clone();
    let task = tokio::spawn(async move {
        let r = task.await;
        l2.lock().done = Some((Instant::now(), r.map_err(|e| format!("{e}"))));
    });
    let mut writers = HashMap::new();
    let mut readers = vec![];
    let lanes: Vec<MadeLane> = std::mem::take(&mut *made.lock());
    for MadeLane { name, kind, to_lane, from_lane } in lanes {
        writers.insert(name.clone(), FramedWrite::new(to_lane, RawValueLaneRequestEncoder::default()));
        let log = log.clone();
        if matches!(kind, WarpLaneKind::Supply) {
            let pk = pulse_kind.unwrap_or(PulseKind::Node);
            readers.push(tokio::spawn(async move {
                let mut rd = FramedRead::new(from_lane, RawValueLaneResponseDecoder::default());
                loop {
                    let item = rd.next().await;
                    let now = Instant::now();
                    let out = match item {
                        Some(Ok(LaneResponse::StandardEvent(b))) => parse_pulse(pk, b.as_ref()).map(LaneOut::Std).unwrap_or_else(LaneOut::Bad),
                        Some(Ok(LaneResponse::SyncEvent(id, b))) => parse_pulse(pk, b.as_ref()).map(|p| LaneOut::SyncEv(id, p)).unwrap_or_else(LaneOut::Bad),
                        Some(Ok(LaneResponse::Synced(id))) => LaneOut::Synced(id),
                        Some(Ok(LaneResponse::Initialized)) => LaneOut::Bad("initialized on a transient lane".to_string()),
                        Some(Err(e)) => LaneOut::Bad(format!("{e:?}")),
                        None => {
                            log.lock().pulse_closed = Some(now);
                            return;
                        }
                    };
                    let stop = matches!(out, LaneOut::Bad(_));
                    log.lock().pulse.push((now, ticket(), out));
                    if stop {
                        return;
                    }
                }
            }));
        } else {
            readers.push(tokio::spawn(async move {
                let mut rd = FramedRead::new(from_lane, RawMapLaneResponseDecoder::default());
                while let Some(item) = rd.next().await {
                    let now = Instant::now();
                    let key_of = |k: &BytesMut| String::from_utf8_lossy(k.as_ref()).trim_matches('"').to_string();
                    match item {
                        Ok(LaneResponse::SyncEvent(id, MapOperation::Update { key, .. })) => log.lock().map.push((name.clone(), now, id, Some(key_of(&key)))),
                        Ok(LaneResponse::Synced(id)) => log.lock().map.push((name.clone(), now, id, None)),
                        Ok(_) => {}
                        Err(_) => return,
                    }
                }
            }));
        }
    }
    Ok(Component { log, writers, task, readers })
}

/// A meta agent (or a target agent) run by the real agent runtime.
pub struct Hosted {
    pub att_tx: mpsc::Sender<AgentAttachmentRequest>,
    pub stop_tx: Option<trigger::Sender>,
    pub handle: JoinHandle<()>,
    /// (instant, result) of `run_agent`.
    pub finished: Arc<Mutex<Option<(Instant, Result<(), String>)>>>,
    link_drain: JoinHandle<()>,
    _http_tx: mpsc::Sender<swimos_api::agent::HttpLaneRequest>,
}

const NEVER: Duration = Duration::from_secs(1_000_000);

pub fn runtime_config() -> AgentRuntimeConfig {
    AgentRuntimeConfig {
        inactive_timeout: NEVER,
        prune_remote_delay: NEVER,
        shutdown_timeout: Duration::from_secs(30),
        item_init_timeout: Duration::from_secs(5),
        command_output_timeout: NEVER,
        ..Default::default()
    }
}

pub fn host<A: Agent + 'static>(agent: &A, identity: Uuid, route: RouteUri, params: HashMap<String, String>, reporting: Option<NodeReporting>) -> Hosted {
    let (att_tx, att_rx) = mpsc::channel(8);
    let (http_tx, http_rx) = mpsc::channel(4);
    let (link_tx, mut link_rx) = mpsc::channel::<LinkRequest>(8);
    let (stop_tx, stop_rx) = trigger::trigger();
    let config = CombinedAgentConfig { agent_config: AgentConfig::default(), runtime_config: runtime_config() };
    let link_drain = tokio::spawn(async move { while link_rx.recv().await.is_some() {} });
    let descriptor = AgentRouteDescriptor { identity, route, route_params: params };
    let task = AgentRouteTask::new(agent, descriptor, AgentRouteChannels::new(att_rx, http_rx, link_tx), stop_rx, config, reporting);
    let run = task.run_agent();
    let finished = Arc::new(Mutex::new(None));
    let f2 = finished.clone();
    let handle = tokio::spawn(async move {
        let r: Result<(), AgentExecError> = run.await;
        *f2.lock() = Some((Instant::now(), r.map_err(|e| format!("{e}"))));
    });
    Hosted { att_tx, stop_tx: Some(stop_tx), handle, finished, link_drain, _http_tx: http_tx }
}

impl Hosted {
    pub fn stop(&mut self) {
        if let Some(tx) = self.stop_tx.take() {
            tx.trigger();
        }
    }

    pub fn is_finished(&self) -> bool {
        self.finished.lock().is_some()
    }

    pub fn abort(&mut self) {
        self.handle.abort();
        self.link_drain.abort();
    }
}
