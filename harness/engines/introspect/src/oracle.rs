//! Judges one executed case: what the meta lanes published against what the simulated remotes can
//! prove.
//!
//! Time is the paused Tokio clock, so every action of the script and everything it causes in the
//! runtime happens at one virtual instant, and a pulse is received at the instant its snapshot was
//! taken. Ground truth is therefore a function of the instant; at an instant at which the truth
//! changes, every value it passed through is allowed (the order inside one instant is a scheduling
//! matter the oracle does not assume).

use std::collections::BTreeMap;
use std::time::Duration;

use common::{json, CaseOut, Json};
use swimos_meta::WarpUplinkPulse;
use tokio::time::Instant;
use uuid::Uuid;

use crate::meta::{parse_pulse, LaneOut, PulseKind};
use crate::remote::{Frame, FrameKind, ReqKind};
use crate::script::Target;
use crate::world::{MetaObs, Obs};

const P: &str = "C20";

fn ns(obs: &Obs, t: Instant) -> u64 {
    t.saturating_duration_since(obs.start).as_nanos() as u64
}

/// What the remotes can prove about one lane of one agent incarnation.
#[derive(Default, Clone)]
struct Truth {
    /// (instant, ticket, change of the certain count, change of the possible count)
    changes: Vec<(u64, u64, i64, i64)>,
    /// (instant, certain links, possible links) after each change, in order.
    link: Vec<(u64, u64, u64)>,
    ev_lo: Vec<u64>,
    ev_hi: Vec<u64>,
    cmd_lo: Vec<u64>,
    cmd_hi: Vec<u64>,
}

impl Truth {
    fn finish(&mut self) {
        self.changes.sort();
        let (mut lo, mut hi) = (0i64, 0i64);
        self.link.clear();
        for (at, _, dlo, dhi) in &self.changes {
            lo += dlo;
            hi += dhi;
            self.link.push((*at, lo.max(0) as u64, hi.max(0) as u64));
        }
        self.ev_lo.sort();
        self.ev_hi.sort();
        self.cmd_lo.sort();
        self.cmd_hi.sort();
    }

    /// Range of link counts the lane may have had at instant `t`.
    fn link_range(&self, t: u64) -> (u64, u64) {
        let (mut lo, mut hi) = (0u64, 0u64);
        let mut seen_before = false;
        // state in force before t
        for (at, l, h) in self.link.iter().rev() {
            if *at < t {
                lo = *l;
                hi = *h;
                seen_before = true;
                break;
            }
        }
        let _ = seen_before;
        for (at, l, h) in &self.link {
            if *at == t {
                lo = lo.min(*l);
                hi = hi.max(*h);
            }
        }
        (lo, hi)
    }

    fn merge(&mut self, other: &Truth) {
        self.changes.extend(other.changes.iter().cloned());
        self.ev_lo.extend(other.ev_lo.iter());
        self.ev_hi.extend(other.ev_hi.iter());
        self.cmd_lo.extend(other.cmd_lo.iter());
        self.cmd_hi.extend(other.cmd_hi.iter());
    }
}

fn count_lt(v: &[u64], t: u64) -> u64 {
    v.partition_point(|x| *x < t) as u64
}

fn count_le(v: &[u64], t: u64) -> u64 {
    v.partition_point(|x| *x <= t) as u64
}

fn segs(u: &str) -> Vec<&str> {
    u.split('/').filter(|s| !s.is_empty()).collect()
}

/// Relation of a node URI to the other node URIs of the case (facet of the signatures: the registry
/// of the introspection task is a trie over URI segments).
fn uri_class(obs: &Obs, uri: &str) -> &'static str {
    let me = segs(uri);
    let (mut anc, mut desc) = (false, false);
    for a in &obs.cfg.agents {
        let o = segs(&a.uri);
        if o == me {
            continue;
        }
        if o.len() < me.len() && me[..o.len()] == o[..] {
            anc = true;
        }
        if me.len() < o.len() && o[..me.len()] == me[..] {
            desc = true;
        }
    }
    if me.windows(2).any(|w| w[0] == w[1]) {
        return "repeated-segment";
    }
    match (anc, desc) {
        (false, false) => "plain",
        (true, false) => "has-ancestor",
        (false, true) => "has-descendant",
        (true, true) => "has-ancestor-and-descendant",
    }
}

fn error_facet(e: &str) -> &'static str {
    if e.contains("No lane named") {
        "no-such-lane"
    } else if e.contains("No running agent") {
        "no-such-agent"
    } else {
        "other"
    }
}

fn facet(class: &str) -> String {
    if class == "plain" {
        String::new()
    } else {
        format!("/uri={class}")
    }
}

#[derive(Clone, Debug)]
struct Item {
    at: u64,
    ticket: u64,
    /// None: a snapshot that was taken but never shown (initial snapshot of a pulse lane nobody synced with).
    known: Option<(u64, u64, u64)>,
    who: String,
}

fn pulse_json(p: &WarpUplinkPulse) -> Json {
    json!({"linkCount": p.link_count, "eventCount": p.event_count, "eventRate": p.event_rate, "commandCount": p.command_count, "commandRate": p.command_rate})
}

fn expected_rate(count: u64, micros: u128) -> (u64, u64) {
    let scaled = (count as u128).saturating_mul(1_000_000);
    let floor = scaled / micros;
    let ceil = (scaled + micros - 1) / micros;
    (u64::try_from(floor).unwrap_or(u64::MAX), u64::try_from(ceil).unwrap_or(u64::MAX))
}

/// The pulses of one meta agent, in the order they were published: (instant, ticket, is_sync_event, pulse).
fn pulses_of(obs: &Obs, m: &MetaObs, kind: PulseKind, out: &mut CaseOut) -> Vec<(u64, u64, bool, WarpUplinkPulse)> {
    let mut v = vec![];
    if !m.hosted {
        for (at, t, f) in &m.log.pulse {
            match f {
                LaneOut::Std(p) => v.push((ns(obs, *at), *t, false, *p)),
                LaneOut::SyncEv(_, p) => v.push((ns(obs, *at), *t, true, *p)),
                LaneOut::Synced(_) => {}
                LaneOut::Bad(e) => out.violation(P, "pulse/undecodable", "a pulse lane wrote a frame that does not decode as a pulse", json!({"route": m.route, "error": e})),
            }
        }
    } else {
        let events = |fr: &[Frame]| -> Vec<(u64, u64, Result<WarpUplinkPulse, String>)> {
            fr.iter().filter(|f| f.kind == FrameKind::Event && f.lane == "pulse").map(|f| (ns(obs, f.at), f.ticket, parse_pulse(kind, f.body.as_ref()))).collect()
        };
        let std = events(&m.std_observer);
        let syn = events(&m.sync_observer);
        let mut std_by_at: BTreeMap<u64, Vec<WarpUplinkPulse>> = BTreeMap::new();
        for (at, _, p) in &std {
            match p {
                Ok(p) => std_by_at.entry(*at).or_default().push(*p),
                Err(e) => out.violation(P, "pulse/undecodable", "a pulse event does not decode as a pulse", json!({"route": m.route, "error": e})),
            }
        }
        let sync_linked_at_start = m.sync_observer.iter().any(|f| f.kind == FrameKind::Linked && f.lane == "pulse" && f.at == m.t0);
        if sync_linked_at_start {
            // The syncing observer sees the broadcast pulses *and* its sync events in the order the lane
            // wrote them; what it got beyond the broadcast pulses of the same instant (as seen by the
            // observer that only links) are the sync events.
            for (at, t, p) in &syn {
                let Ok(p) = p else { continue };
                let same = std_by_at.entry(*at).or_default();
                if same.first() == Some(p) {
                    same.remove(0);
                    v.push((*at, *t, false, *p));
                } else {
                    v.push((*at, *t, true, *p));
                }
            }
        } else {
            for (at, t, p) in &std {
                if let Ok(p) = p {
                    v.push((*at, *t, false, *p));
                }
            }
        }
    }
    v
}

/// One defect, few signatures: whatever way it was noticed, "the introspection task does not know a
/// running, registered agent / lane" is one signature each; and in the part with related node URIs
/// (where the URI trie of the registration task mixes agents up) every report that is not the
/// agent's own is one signature.
fn canonical(sig: &str, nested: bool, delayed: bool) -> String {
    let base = match sig.find("/uri=") {
        Some(i) => &sig[..i],
        None => sig,
    };
    let prefix = if nested { "nested-uris/" } else { "" };
    if base.contains("error=no-such-agent") {
        format!("{prefix}agent-unknown-to-introspection")
    } else if base.contains("error=no-such-lane") || base.starts_with("lanes-lane/live-lane-missing") {
        format!("{prefix}lane-unknown-to-introspection/task-delayed={delayed}")
    } else if base.starts_with("hosted/meta-agent-runtime-stopped-while-target-runs/kind=lane") || base.starts_with("pulse/undecodable") {
        base.to_string()
    } else if nested {
        "nested-uris/report-not-of-this-agent".to_string()
    } else {
        base.to_string()
    }
}

pub fn judge(obs: &Obs, out: &mut CaseOut, nested: bool) {
    judge_inner(obs, out);
    let delayed = obs.cfg.jitter > 0;
    let mut seen = std::collections::BTreeSet::new();
    let vs = std::mem::take(&mut out.violations);
    for (p, sig, what, detail) in vs {
        let c = canonical(&sig, nested, delayed);
        // one report per signature and case
        if seen.insert(c.clone()) {
            let detail = json!({"rule": sig, "detail": detail});
            out.violations.push((p, c, what, detail));
        }
    }
}

fn judge_inner(obs: &Obs, out: &mut CaseOut) {
    for s in &obs.stuck {
        out.inconclusive(format!("harness: {s}"));
    }
    if !obs.stuck.is_empty() {
        return;
    }
    out.add("steps", obs.steps_run);
    let max_p_ns = obs.cfg.node_interval_us.max(obs.cfg.lane_interval_us) * 1000;

    // ---- ground truth per (incarnation, lane) and per incarnation
    let mut lane_truth: Vec<Vec<Truth>> = obs.incs.iter().map(|i| vec![Truth::default(); i.lanes.len()]).collect();
    for r in &obs.remotes {
        let inc = &obs.incs[r.inc];
        let dropped = r.dropped.map(|d| ns(obs, d));
        for (li, lane) in inc.lanes.iter().enumerate() {
            let t = &mut lane_truth[r.inc][li];
            let mut holds = false;
            for f in r.frames.iter().filter(|f| &f.lane == lane) {
                let at = ns(obs, f.at);
                match f.kind {
                    FrameKind::Linked => {
                        if !holds {
                            holds = true;
                            t.changes.push((at, f.ticket, 1, 1));
                        }
                    }
                    FrameKind::Unlinked => {
                        if holds {
                            holds = false;
                            t.changes.push((at, f.ticket, -1, -1));
                        }
                    }
                    FrameKind::Event => {
                        t.ev_lo.push(at);
                        t.ev_hi.push(at);
                        out.events += 1;
                    }
                    FrameKind::Synced => {}
                }
            }
            if let Some(d) = dropped {
                // The remote went away. Frames the runtime wrote at that very instant may not have been read:
                // a link asked for at that instant may exist, and when the runtime notices that the remote
                // has gone is its own business. Whatever was sent to such a link may have been counted.
                let asked_now = r.sent.iter().filter(|(at, k, l)| l == lane && ns(obs, *at) == d && matches!(k, ReqKind::Link | ReqKind::Sync)).count() as u64;
                if holds || asked_now > 0 {
                    t.changes.push((d, r.dropped_ticket, if holds { -1 } else { 0 }, if holds { 0 } else { 1 }));
                    for (l, e) in &inc.raw.emitted {
                        if *l == li && ns(obs, *e) >= d {
                            t.ev_hi.push(ns(obs, *e));
                        }
                    }
                    for _ in 0..asked_now {
                        t.ev_hi.push(d);
                    }
                    out.count("remote-vanished-while-linked");
                }
            }
            for (at, k, l) in &r.sent {
                if *k == ReqKind::Command && l == lane {
                    let at = ns(obs, *at);
                    t.cmd_hi.push(at);
                    if dropped != Some(at) {
                        t.cmd_lo.push(at);
                    }
                }
            }
        }
    }
    // The runtime counts every targeted answer of a lane (a `Synced` here) as an event sent to a link,
    // whether or not a frame results; the statement does not say that it is one: allowed, not demanded.
    for (i, inc) in obs.incs.iter().enumerate() {
        for (l, at) in &inc.raw.synced {
            lane_truth[i][*l].ev_hi.push(ns(obs, *at));
        }
    }
    let mut agg_truth: Vec<Truth> = vec![];
    for lanes in lane_truth.iter_mut() {
        let mut agg = Truth::default();
        for t in lanes.iter_mut() {
            agg.merge(t);
            t.finish();
        }
        agg.finish();
        agg_truth.push(agg);
    }
    for (i, inc) in obs.incs.iter().enumerate() {
        out.add("events-emitted", inc.raw.emitted.len() as u64);
        out.add("commands-received-by-lanes", inc.raw.commands.len() as u64);
        out.add("link-changes", agg_truth[i].changes.len() as u64);
        if !inc.registered {
            out.violation(P, "register-agent/refused", "register_agent failed while the introspection task runs", json!({"uri": inc.uri}));
        }
        if let Some((_, Err(e))) = &inc.finished {
            out.inconclusive(format!("harness: target agent failed: {e}"));
            return;
        }
    }

    // ---- consumers of each reader
    let mut items: BTreeMap<(usize, Option<usize>), Vec<Item>> = BTreeMap::new();
    let mut tainted: BTreeMap<(usize, Option<usize>), bool> = BTreeMap::new();
    for (mi, m) in obs.metas.iter().enumerate() {
        let (kind, lane, kind_name) = match m.target {
            Target::Node(_) => (PulseKind::Node, None, "node"),
            Target::Lane(_, l) => (PulseKind::Lane, Some(l), "lane"),
            Target::Mesh => {
                judge_mesh(obs, m, out);
                continue;
            }
        };
        out.count(&format!("meta-{kind_name}-started"));
        let class = m.inc.map_or("plain", |i| uri_class(obs, &obs.incs[i].uri));
        if let Err(e) = &m.init {
            if m.target_settled {
                out.violation(
                    P,
                    format!("meta-agent/init-failed/kind={kind_name}/error={}{}", error_facet(e), facet(class)),
                    "a meta agent could not be started for an agent (lane) that is running and was registered for introspection at an earlier instant",
                    json!({"route": m.route, "error": e, "agents": obs.cfg.agents.iter().map(|a| a.uri.clone()).collect::<Vec<_>>()}),
                );
            } else {
                out.count("meta-init-refused-target-absent-or-new");
            }
            continue;
        }
        let Some(i) = m.inc else {
            out.count("meta-started-for-absent-agent");
            continue;
        };
        if !m.target_settled {
            out.count("meta-started-while-target-unsettled");
        }
        let inc = &obs.incs[i];
        let scope = if lane.is_some() { "lane" } else { "aggregate" };
        let key = (i, lane);
        let t0 = ns(obs, m.t0);
        let finished = inc.finished.as_ref().map(|(t, _)| ns(obs, *t));
        if m.hosted {
            out.count("meta-hosted");
            let linked_at_start = m.std_observer.iter().any(|f| f.kind == FrameKind::Linked && f.lane == "pulse" && ns(obs, f.at) == t0);
            if !m.observers_attached || !linked_at_start {
                tainted.insert(key, true);
                out.count("hosted-observer-not-linked");
            }
            // The server runs the meta agents on the ordinary agent runtime: while the target runs, the
            // runtime of its meta agent has no reason to stop (nobody asked it to, nothing timed out).
            let stop_ns = inc.stop_requested.map(|t| ns(obs, t));
            if let Some((at, r)) = &m.hosted_finished {
                let at = ns(obs, *at);
                if m.target_settled && stop_ns.map_or(true, |s| at < s) {
                    out.violation(
                        P,
                        format!("hosted/meta-agent-runtime-stopped-while-target-runs/kind={kind_name}{}", facet(class)),
                        "the agent runtime hosting a meta agent stopped by itself although the introspected agent is still running: its pulse lane reports nothing",
                        json!({"route": m.route, "result": format!("{r:?}"), "stopped_after_ns": at - t0, "linked": linked_at_start}),
                    );
                }
            }
        }
        let pulses = pulses_of(obs, m, kind, out);
        // own sequence of snapshots: the initial one (shown only to a sync) and one per pulse
        let mut last_at = t0;
        let mut last: Option<WarpUplinkPulse> = None; // None: the initial snapshot has not been seen
        let mut initial_seen = false;
        let mut n_std = 0u64;
        let mut own: Vec<Item> = vec![];
        for (at, tk, is_sync, p) in &pulses {
            out.events += 1;
            if *is_sync {
                out.count("sync-event-pulses");
                match (&last, initial_seen || n_std > 0) {
                    (None, false) => {
                        // the initial snapshot, taken at t0
                        initial_seen = true;
                        last = Some(*p);
                        own.push(Item { at: t0, ticket: m.t0_ticket, known: Some((p.link_count, p.event_count, p.command_count)), who: format!("initial snapshot of {}", m.route) });
                        out.count("initial-snapshot-seen-through-sync");
                        out.count("zero-interval-pulses");
                        if p.event_count == 0 && p.event_rate == u64::MAX {
                            out.count("zero-interval-rate-is-max-for-zero-events");
                        }
                    }
                    (Some(l), _) => {
                        if l != p {
                            out.violation(
                                P,
                                format!("sync-event/not-the-last-snapshot/{scope}{}", facet(class)),
                                "the pulse sent in answer to a sync is not the pulse of the last snapshot the lane took (counts appear that no snapshot holds)",
                                json!({"route": m.route, "sync": pulse_json(p), "last": pulse_json(l)}),
                            );
                        } else {
                            out.count("sync-replays-last-pulse");
                        }
                    }
                    (None, true) => {}
                }
                continue;
            }
            n_std += 1;
            out.count(&format!("pulses-{scope}"));
            if !initial_seen && n_std == 1 {
                own.push(Item { at: t0, ticket: m.t0_ticket, known: None, who: format!("unseen initial snapshot of {}", m.route) });
                out.count("initial-snapshot-never-shown");
            }
            // rates
            let diff = Duration::from_nanos(at.saturating_sub(last_at));
            let micros = diff.as_micros();
            if micros == 0 {
                out.count("zero-interval-pulses");
            } else {
                for (field, count, rate) in [("event", p.event_count, p.event_rate), ("command", p.command_count, p.command_rate)] {
                    let (lo, hi) = expected_rate(count, micros);
                    if count > 0 {
                        out.count(&format!("rate-judged-nonzero-{field}"));
                    }
                    if rate < lo || rate > hi {
                        out.violation(
                            P,
                            format!("pulse/rate/{field}/not-count-per-second"),
                            "the rate of a pulse is not its count divided by the time since the lane's previous snapshot",
                            json!({"route": m.route, "count": count, "rate": rate, "interval_us": micros as u64, "expected": [lo, hi]}),
                        );
                    }
                }
                let nominal = match kind {
                    PulseKind::Lane => obs.cfg.lane_interval_us,
                    PulseKind::Node => obs.cfg.node_interval_us,
                };
                let round_ms = |us: u64| (us + 999) / 1000 * 1000;
                if micros as u64 == round_ms(nominal) {
                    out.count(&format!("{kind_name}-pulse-at-configured-interval"));
                } else if kind == PulseKind::Lane && micros as u64 == round_ms(obs.cfg.node_interval_us) {
                    out.count("lane-pulse-at-node-interval");
                } else {
                    out.count("pulse-at-other-interval");
                }
            }
            if let Some(f) = finished {
                if *at > f {
                    out.violation(P, format!("pulse/after-agent-stopped/{scope}{}", facet(class)), "a pulse was published after the agent runtime (and its reporters) had gone", json!({"route": m.route, "pulse": pulse_json(p)}));
                }
            }
            own.push(Item { at: *at, ticket: *tk, known: Some((p.link_count, p.event_count, p.command_count)), who: format!("pulse of {}", m.route) });
            last_at = *at;
            last = Some(*p);
        }
        if n_std == 0 && !initial_seen {
            // the lane took its initial snapshot and published nothing
            own.push(Item { at: t0, ticket: m.t0_ticket, known: None, who: format!("unseen initial snapshot of {}", m.route) });
        }
        items.entry(key).or_default().extend(own);
        // end of life (component mode sees the agent task end)
        if !m.hosted {
            if let Some(f) = finished {
                let bound = f.max(t0) + 2 * max_p_ns + 2_000_000;
                match &m.log.done {
                    Some((at, r)) => {
                        if ns(obs, *at) > bound {
                            out.violation(P, format!("meta-agent/running-after-agent-stopped/kind={kind_name}{}", facet(class)), "the meta agent outlived the introspected agent by more than two pulse intervals", json!({"route": m.route, "late_ns": ns(obs, *at) - f}));
                        } else {
                            out.count("meta-closed-after-agent-stopped");
                        }
                        if r.is_err() {
                            out.count("meta-task-ended-with-error");
                        }
                    }
                    None => out.violation(P, format!("meta-agent/running-after-agent-stopped/kind={kind_name}{}", facet(class)), "the meta agent is still running long after the introspected agent (and its reporters) have gone", json!({"route": m.route})),
                }
            }
            if lane.is_none() {
                judge_lanes_listing(obs, mi, m, i, class, out);
            }
        }
    }
    for h in &obs.hsnaps {
        let inc = &obs.incs[h.inc];
        let class = uri_class(obs, &inc.uri);
        let scope = if h.lane.is_some() { "lane" } else { "aggregate" };
        match &h.snap {
            Ok(Some(s)) => {
                out.count("harness-snapshots");
                items.entry((h.inc, h.lane)).or_default().push(Item { at: ns(obs, h.at), ticket: h.ticket, known: Some((s.link_count, s.event_count, s.command_count)), who: "snapshot through a resolved reader".to_string() });
            }
            Ok(None) => {
                if h.settled {
                    out.violation(P, format!("reader-inactive-while-agent-runs/{scope}{}", facet(class)), "the reader resolved for a running agent is inactive", json!({"uri": inc.uri, "lane": h.lane}));
                }
            }
            Err(e) => {
                if h.settled {
                    out.violation(
                        P,
                        format!("resolve-failed/{scope}/error={}{}", error_facet(e), facet(class)),
                        "the introspection task cannot resolve an agent (lane) that is running and was registered at an earlier instant",
                        json!({"uri": inc.uri, "lane": h.lane.map(|l| inc.lanes[l].clone()), "error": e, "agents": obs.cfg.agents.iter().map(|a| a.uri.clone()).collect::<Vec<_>>()}),
                    );
                } else {
                    out.count("resolve-failed-while-unsettled");
                }
            }
        }
    }

    // ---- every reader: link counts at the snapshots, conservation of the counts over all consumers
    for ((i, lane), mut its) in items {
        let inc = &obs.incs[i];
        let class = uri_class(obs, &inc.uri);
        let truth = match lane {
            Some(l) => &lane_truth[i][l],
            None => &agg_truth[i],
        };
        let scope = if lane.is_some() { "lane" } else { "aggregate" };
        let taint = tainted.get(&(i, lane)).copied().unwrap_or(false);
        its.sort_by_key(|it| (it.at, it.ticket));
        out.nontrivial |= its.iter().any(|it| it.known.map_or(false, |(l, e, c)| l + e + c > 0));
        for it in &its {
            if let Some((link, _, _)) = it.known {
                let (lo, hi) = truth.link_range(it.at);
                out.count(&format!("link-count-judged-{scope}"));
                if link > 0 {
                    out.count("link-count-judged-nonzero");
                }
                if lo == hi {
                    out.count("link-count-judged-exactly");
                }
                if link < lo || link > hi {
                    out.violation(
                        P,
                        format!("pulse/link-count/{scope}/{}{}", if link > hi { "over" } else { "under" }, facet(class)),
                        "the uplink count published in a snapshot differs from the number of remotes linked at that instant",
                        json!({"uri": inc.uri, "lane": lane.map(|l| inc.lanes[l].clone()), "reported": link, "linked": [lo, hi], "at_ns": it.at, "by": it.who}),
                    );
                }
            }
        }
        for (field, g_lo, g_hi, pick) in [("events", &truth.ev_lo, &truth.ev_hi, 1usize), ("commands", &truth.cmd_lo, &truth.cmd_hi, 2usize)] {
            let (mut c_lo, mut c_hi) = (0u64, 0u64);
            let mut k = 0;
            let mut flagged = false;
            while k < its.len() && !flagged {
                let at = its[k].at;
                let mut j = k;
                while j < its.len() && its[j].at == at {
                    match its[j].known {
                        Some(v) => {
                            let v = if pick == 1 { v.1 } else { v.2 };
                            c_lo += v;
                            c_hi += v;
                        }
                        None => {
                            // an unseen snapshot may hold anything counted so far and not yet published
                            c_hi = c_hi.max(count_le(g_hi, at));
                        }
                    }
                    if c_lo > count_le(g_hi, at) {
                        out.violation(
                            P,
                            format!("pulse/{field}/{scope}/overcounted{}", facet(class)),
                            "the counts published for a reader add up to more than what the remotes received / sent up to that instant",
                            json!({"uri": inc.uri, "lane": lane.map(|l| inc.lanes[l].clone()), "published_total": c_lo, "truth_up_to_now": count_le(g_hi, at), "at_ns": at, "by": its[j].who}),
                        );
                        flagged = true;
                        break;
                    }
                    j += 1;
                }
                if !flagged && !taint && c_hi < count_lt(g_lo, at) {
                    out.violation(
                        P,
                        format!("pulse/{field}/{scope}/lost{}", facet(class)),
                        "a snapshot was published although the counts published so far add up to less than what happened strictly before it: counts were lost (or an older snapshot was published)",
                        json!({"uri": inc.uri, "lane": lane.map(|l| inc.lanes[l].clone()), "published_total": c_hi, "truth_before_now": count_lt(g_lo, at), "at_ns": at, "by": its[k].who}),
                    );
                    flagged = true;
                }
                k = j.max(k + 1);
            }
            if !flagged {
                out.add(&format!("{field}-published-{scope}"), c_lo);
                if c_lo == c_hi && c_lo > 0 && g_lo.len() == g_hi.len() && c_lo == g_lo.len() as u64 {
                    out.count(&format!("{field}-conserved-exactly-{scope}"));
                }
            }
        }
    }
    if !obs.task_finished {
        out.count("introspection-task-still-running-after-stop");
    }
}

fn keys_of(m: &MetaObs, lane: &str, id: Uuid) -> Option<Vec<String>> {
    let mut keys = vec![];
    for (l, _, i, k) in &m.log.map {
        if l == lane && *i == id {
            match k {
                Some(k) => keys.push(k.clone()),
                None => return Some(keys),
            }
        }
    }
    None
}

fn judge_lanes_listing(obs: &Obs, _mi: usize, m: &MetaObs, i: usize, class: &str, out: &mut CaseOut) {
    let inc = &obs.incs[i];
    for (at, id) in &m.lanes_syncs {
        let running = inc.started < *at && inc.stop_requested.map_or(true, |s| *at < s);
        let Some(keys) = keys_of(m, "lanes", *id) else {
            out.count("lanes-sync-unanswered");
            continue;
        };
        out.count("lanes-listings");
        if !running || !m.target_settled {
            continue;
        }
        out.events += keys.len() as u64;
        let missing: Vec<&String> = inc.lanes.iter().filter(|l| !keys.contains(l)).collect();
        if !missing.is_empty() {
            out.violation(
                P,
                format!("lanes-lane/live-lane-missing{}", facet(class)),
                "the lanes lane of a node meta agent does not list a lane that is running and was registered at an earlier instant (nothing is reported for it)",
                json!({"route": m.route, "listed": keys, "missing": missing}),
            );
        } else {
            out.count("lanes-listing-complete");
        }
    }
}

fn judge_mesh(obs: &Obs, m: &MetaObs, out: &mut CaseOut) {
    // Not part of the statement of C20: observed only.
    out.count("meta-mesh-started");
    if m.init.is_err() {
        out.count("meta-mesh-init-failed");
        return;
    }
    for (k, (at, id)) in m.lanes_syncs.iter().enumerate() {
        let lane = if k % 2 == 0 { "nodes" } else { "nodes#/" };
        let Some(keys) = keys_of(m, lane, *id) else {
            out.count("mesh-sync-unanswered");
            continue;
        };
        out.events += keys.len() as u64;
        if lane != "nodes" {
            out.count("mesh-nodes-count-listings");
            continue;
        }
        // certainly registered (earlier instant, not yet asked to stop) / possibly registered (same instant)
        let sure: Vec<&String> = obs.incs.iter().filter(|i| i.registered && i.started < *at && i.stop_requested.map_or(true, |s| *at < s)).map(|i| &i.uri).collect();
        let maybe: Vec<&String> = obs.incs.iter().filter(|i| i.registered && i.started <= *at && i.stop_requested.map_or(true, |s| *at <= s)).map(|i| &i.uri).collect();
        if sure.iter().all(|u| keys.contains(u)) && keys.iter().all(|k| maybe.contains(&k)) {
            out.count("mesh-listing-matches");
        } else {
            out.count("mesh-listing-differs");
            out.log(|| format!("mesh listing {keys:?} expected at least {sure:?} at most {maybe:?}"));
        }
    }
}
