//! Simulated remotes at the byte-channel boundary of `AgentAttachmentRequest::TwoWay`: a framed
//! request writer and a reader task that logs every response frame with the virtual instant (paused
//! clock) and a ticket. Readers always drain at once, so a frame's instant is the instant the
//! runtime wrote it.

use std::sync::Arc;
use std::time::Duration;

use bytes::Bytes;
use common::ticket;
use futures::{SinkExt, StreamExt};
use parking_lot::Mutex;
use swimos_api::address::RelativeAddress;
use swimos_messages::protocol::{Notification, RawRequestMessageEncoder, RawResponseMessageDecoder, RequestMessage};
use swimos_runtime::agent::{AgentAttachmentRequest, DisconnectionReason};
use swimos_utilities::byte_channel::{byte_channel, ByteWriter};
use swimos_utilities::trigger::{self, promise};
use tokio::sync::mpsc;
use tokio::task::JoinHandle;
use tokio::time::Instant;
use tokio_util::codec::{FramedRead, FramedWrite};
use uuid::Uuid;

#[derive(Clone, Copy, Debug, PartialEq, Eq)]
pub enum FrameKind {
    Linked,
    Synced,
    Unlinked,
    Event,
}

#[derive(Clone, Debug)]
pub struct Frame {
    pub at: Instant,
    pub ticket: u64,
    pub kind: FrameKind,
    pub lane: String,
    pub body: Bytes,
}

#[derive(Default)]
pub struct FrameLog {
    pub frames: Vec<Frame>,
    /// The runtime closed the channel / a frame failed to decode.
    pub closed: Option<Instant>,
    pub decode_error: Option<String>,
}

pub type SharedFrames = Arc<Mutex<FrameLog>>;

#[derive(Clone, Copy, Debug, PartialEq, Eq)]
pub enum ReqKind {
    Link,
    Sync,
    Unlink,
    Command,
}

pub struct Remote {
    pub id: Uuid,
    pub node: String,
    writer: Option<FramedWrite<ByteWriter, RawRequestMessageEncoder>>,
    reader: Option<JoinHandle<()>>,
    pub frames: SharedFrames,
    /// (instant, kind, lane) of every request completely written.
    pub sent: Vec<(Instant, ReqKind, String)>,
    /// Instant at which the harness dropped both halves.
    pub dropped: Option<Instant>,
    pub dropped_ticket: u64,
    pub completion: Arc<Mutex<Option<(Instant, Option<DisconnectionReason>)>>>,
    pub attached: bool,
}

pub const STEP_TIMEOUT: Duration = Duration::from_secs(5);

fn nz(n: usize) -> std::num::NonZeroUsize {
    std::num::NonZeroUsize::new(n.max(1)).unwrap()
}

impl Remote {
    /// Attach a new remote to an agent runtime. `Err` when the runtime did not confirm (stopped).
    pub async fn attach(att_tx: &mpsc::Sender<AgentAttachmentRequest>, id: Uuid, node: &str) -> Remote {
        let (req_tx, req_rx) = byte_channel(nz(1 << 14));
        let (resp_tx, resp_rx) = byte_channel(nz(1 << 16));
        let (comp_tx, comp_rx) = promise::promise();
        let (done_tx, done_rx) = trigger::trigger();
        let frames: SharedFrames = Arc::new(Mutex::new(FrameLog::default()));
        let log = frames.clone();
        let reader = tokio::spawn(async move {
            let mut framed = FramedRead::new(resp_rx, RawResponseMessageDecoder);
            loop {
                match framed.next().await {
                    Some(Ok(msg)) => {
                        let (kind, body) = match msg.envelope {
                            Notification::Linked => (FrameKind::Linked, Bytes::new()),
                            Notification::Synced => (FrameKind::Synced, Bytes::new()),
                            Notification::Unlinked(b) => (FrameKind::Unlinked, b.unwrap_or_default()),
                            Notification::Event(b) => (FrameKind::Event, b),
                        };
                        log.lock().frames.push(Frame { at: Instant::now(), ticket: ticket(), kind, lane: msg.path.lane.as_str().to_string(), body });
                    }
                    Some(Err(e)) => {
                        let mut g = log.lock();
                        g.decode_error = Some(format!("{e:?}"));
                        g.closed = Some(Instant::now());
                        return;
                    }
                    None => {
                        log.lock().closed = Some(Instant::now());
                        return;
                    }
                }
            }
        });
        let completion = Arc::new(Mutex::new(None));
        let c2 = completion.clone();
        tokio::spawn(async move {
            let r = comp_rx.await;
            *c2.lock() = Some((Instant::now(), r.ok()));
        });
        let req = AgentAttachmentRequest::with_confirmation(id, (resp_tx, req_rx), comp_tx, done_tx);
        let mut attached = false;
        if att_tx.send(req).await.is_ok() {
            if let Ok(Ok(())) = tokio::time::timeout(STEP_TIMEOUT, done_rx).await {
                attached = true;
            }
        }
        Remote {
            id,
            node: node.to_string(),
            writer: Some(FramedWrite::new(req_tx, RawRequestMessageEncoder)),
            reader: Some(reader),
            frames,
            sent: vec![],
            dropped: None,
            dropped_ticket: 0,
            completion,
            attached,
        }
    }

    pub fn alive(&self) -> bool {
        self.attached && self.writer.is_some() && self.completion.lock().is_none() && self.frames.lock().closed.is_none()
    }

    /// Write one request; returns false when the runtime no longer reads (or the write got stuck).
    pub async fn send(&mut self, kind: ReqKind, lane: &str) -> bool {
        let Some(w) = self.writer.as_mut() else { return false };
        let path = RelativeAddress::new(self.node.as_str(), lane);
        let body: &[u8] = b"1";
        let msg: RequestMessage<&str, &[u8]> = match kind {
            ReqKind::Link => RequestMessage::link(self.id, path),
            ReqKind::Sync => RequestMessage::sync(self.id, path),
            ReqKind::Unlink => RequestMessage::unlink(self.id, path),
            ReqKind::Command => RequestMessage::command(self.id, path, body),
        };
        match tokio::time::timeout(STEP_TIMEOUT, w.send(msg)).await {
            Ok(Ok(())) => {
                self.sent.push((Instant::now(), kind, lane.to_string()));
                true
            }
            _ => {
                self.writer = None;
                false
            }
        }
    }

    /// Drop both halves of the connection.
    pub fn drop_io(&mut self) {
        if self.dropped.is_none() {
            self.dropped = Some(Instant::now());
            self.dropped_ticket = ticket();
        }
        self.writer = None;
        if let Some(r) = self.reader.take() {
            r.abort();
        }
    }
}
