//! Engine `introspect` (C20): the layer that actually *reports* the uplink statistics.
//!
//! The real `swimos_introspection` machinery (`register_introspection`: registration task, URI
//! forest, `IntrospectionResolver`, node / lane / mesh meta agents with their pulse lanes and
//! `UplinkSnapshot::make_pulse`) runs next to ground truth: target agents hosted by the real agent
//! runtime with the `NodeReporting` the resolver hands out (the server's wiring), simulated remotes
//! that link, sync, unlink, command and vanish, agents that stop and restart.
//!
//! Parts:
//!  * `pulse-fn`     – `UplinkSnapshot::make_pulse` as a function: counts carried over, rates are
//!                     count per second of the interval (saturating), zero interval does not panic.
//!  * `meta-lanes`   – meta agents run against a harness `AgentContext` (every `LaneResponse` of the
//!                     pulse lanes seen at its virtual instant).
//!  * `meta-hosted`  – meta agents hosted by the real agent runtime; simulated remotes link to the
//!                     `pulse` lanes and the received events are judged.
//!  * `meta-nested`  – as the two above, with node URIs that are prefixes of each other or repeat a
//!                     segment (the registration task keeps agents in a trie over URI segments);
//!                     signatures of this part are folded into `nested-uris/*`.
//!
//! `--witness 1..5` prints hand-written witnesses; `--show-part P --show-case N` prints one case.

mod meta;
mod oracle;
mod raw;
mod remote;
mod script;
mod world;

use std::time::Duration;

use common::{json, CaseOut, Rng, Session};
use swimos_runtime::agent::reporting::UplinkSnapshot;

const P: &str = "C20";

fn pulse_fn_case(rng: &mut Rng, out: &mut CaseOut) {
    let pick = |rng: &mut Rng| -> u64 {
        match rng.below(8) {
            0 => 0,
            1 => rng.below(10),
            2 => rng.below(100_000),
            3 => u64::MAX - rng.below(3),
            4 => 1u64 << rng.below(64),
            5 => u64::MAX / 1_000_000 + rng.below(3),
            _ => rng.next_u64() >> rng.below(64),
        }
    };
    let snap = UplinkSnapshot { link_count: pick(rng), event_count: pick(rng), command_count: pick(rng) };
    let diff = match rng.below(8) {
        0 => Duration::ZERO,
        1 => Duration::from_nanos(rng.below(1000)),
        2 => Duration::from_micros(rng.range(1, 10)),
        3 => Duration::from_millis(rng.range(1, 10_000)),
        4 => Duration::from_secs(rng.range(1, 1 << 40)),
        5 => Duration::MAX,
        _ => Duration::from_nanos(rng.next_u64() >> rng.below(64)),
    };
    let p = snap.make_pulse(diff);
    out.events += 1;
    out.nontrivial = true;
    out.sig(&(snap.link_count.leading_zeros(), snap.event_count.leading_zeros(), snap.command_count.leading_zeros(), diff.as_micros().leading_zeros()));
    if p.link_count != snap.link_count || p.event_count != snap.event_count || p.command_count != snap.command_count {
        let which = if p.link_count != snap.link_count { "link-count" } else if p.event_count != snap.event_count { "event-count" } else { "command-count" };
        out.violation(P, format!("make-pulse/{which}-not-carried-over"), "a pulse does not carry the counts of its snapshot", json!({"snapshot": format!("{snap:?}"), "pulse": format!("{p:?}")}));
    }
    let micros = diff.as_micros();
    if micros == 0 {
        // nothing is said about a rate over no time: only that it is produced without a panic
        out.count("zero-interval");
        return;
    }
    for (field, count, rate) in [("event", snap.event_count, p.event_rate), ("command", snap.command_count, p.command_rate)] {
        let scaled = (count as u128) * 1_000_000;
        let lo = u64::try_from(scaled / micros).unwrap_or(u64::MAX);
        let hi = u64::try_from((scaled + micros - 1) / micros).unwrap_or(u64::MAX);
        if lo == u64::MAX {
            out.count("rate-saturated");
        }
        if count > 0 && lo == 0 {
            out.count("rate-below-one");
        }
        if rate < lo || rate > hi {
            out.violation(
                P,
                format!("make-pulse/rate/{field}/not-count-per-second"),
                "the rate of a pulse is not its count divided by the interval in seconds",
                json!({"count": count, "micros": micros.to_string(), "rate": rate, "expected": [lo, hi]}),
            );
        }
    }
}

fn world_case(hosted: bool, nested: bool, rng: &mut Rng, out: &mut CaseOut, show: bool) {
    let hosted = hosted || (nested && rng.chance(1, 3));
    let (cfg, steps) = script::generate(rng, hosted, nested);
    if show {
        eprintln!("cfg = {cfg:#?}");
        for (i, s) in steps.iter().enumerate() {
            eprintln!("  {i:3}: {s:?}");
        }
    }
    let obs = world::run_case(&cfg, &steps, rng);
    if show {
        for (i, inc) in obs.incs.iter().enumerate() {
            eprintln!("inc {i}: {} started {:?} stop {:?} finished {:?}", inc.uri, inc.started - obs.start, inc.stop_requested.map(|t| t - obs.start), inc.finished.as_ref().map(|(t, r)| (*t - obs.start, r.clone())));
        }
        for (i, r) in obs.remotes.iter().enumerate() {
            eprintln!("remote {i} of inc {} attached={} dropped={:?}", r.inc, r.attached, r.dropped.map(|t| t - obs.start));
            for f in &r.frames {
                eprintln!("    {:?} {:?} {} {:?}", f.at - obs.start, f.kind, f.lane, f.body);
            }
        }
        for m in &obs.metas {
            eprintln!("meta {} hosted={} t0={:?} settled={} init={:?} done={:?} hosted_finished={:?}", m.route, m.hosted, m.t0 - obs.start, m.target_settled, m.init, m.log.done.as_ref().map(|(t, r)| (*t - obs.start, r.clone())), m.hosted_finished.as_ref().map(|(t, r)| (*t - obs.start, r.clone())));
            for (at, _, f) in &m.log.pulse {
                eprintln!("    {:?} {:?}", *at - obs.start, f);
            }
            for f in &m.std_observer {
                eprintln!("    std-observer {:?} {:?} {} {:?}", f.at - obs.start, f.kind, f.lane, f.body);
            }
            for f in &m.sync_observer {
                eprintln!("    sync-observer {:?} {:?} {} {:?}", f.at - obs.start, f.kind, f.lane, f.body);
            }
            for (l, at, id, k) in &m.log.map {
                eprintln!("    map {l} {:?} {id} {k:?}", *at - obs.start);
            }
        }
        for h in &obs.hsnaps {
            eprintln!("hsnap inc {} lane {:?} at {:?}: {:?}", h.inc, h.lane, h.at - obs.start, h.snap);
        }
    }
    out.sig(&format!("{steps:?}"));
    out.set_sample(json!({
        "agents": cfg.agents.iter().map(|a| json!({"uri": a.uri, "lanes": a.lanes.len()})).collect::<Vec<_>>(),
        "node_interval_us": cfg.node_interval_us, "lane_interval_us": cfg.lane_interval_us, "steps": steps.len(),
        "metas": obs.metas.iter().map(|m| m.route.clone()).collect::<Vec<_>>(),
    }));
    oracle::judge(&obs, out, nested);
}

/// Hand-written witnesses (`--witness N`), run verbosely outside the parts.
fn witness(n: u64) {
    use remote::ReqKind;
    use script::{AgentCfg, Cfg, Step, Target};
    let two = |u0: &str, u1: &str| Cfg {
        hosted: false,
        node_interval_us: 2000,
        lane_interval_us: 3000,
        agents: vec![AgentCfg { uri: u0.to_string(), lanes: vec!["l0".to_string()] }, AgentCfg { uri: u1.to_string(), lanes: vec!["l0".to_string()] }],
        remotes: vec![0, 1],
        jitter: 0,
        reg_channel: 8,
    };
    let ms = |n: u64| Step::Sleep(n * 1000);
    let (cfg, steps) = match n {
        // "/a" then "/a/a": the second registration replaces the first in the URI trie
        1 => (two("/a", "/a/a"), vec![Step::StartAgent(0), ms(1), Step::StartAgent(1), ms(1), Step::Attach(1), Step::Req(1, ReqKind::Link, 0), ms(1), Step::HarnessSnapshot(Target::Node(0)), Step::HarnessSnapshot(Target::Node(1))]),
        // "/a/b" then "/a/b/c": the second registration is dropped
        2 => (two("/a/b", "/a/b/c"), vec![Step::StartAgent(0), ms(1), Step::StartAgent(1), ms(1), Step::HarnessSnapshot(Target::Node(0)), Step::HarnessSnapshot(Target::Node(1))]),
        // "/a/b" then "/a": the second registration is dropped
        3 => (two("/a/b", "/a"), vec![Step::StartAgent(0), ms(1), Step::StartAgent(1), ms(1), Step::HarnessSnapshot(Target::Node(0)), Step::HarnessSnapshot(Target::Node(1))]),
        // "/a" and "/a/b"; "/a" stops and starts again: the old entry is never removed, the new one is dropped
        4 => (two("/a", "/a/b"), vec![Step::StartAgent(0), ms(1), Step::StartAgent(1), ms(1), Step::StopAgent(0), ms(1), Step::StartAgent(0), ms(1), Step::HarnessSnapshot(Target::Node(0))]),
        // a lane meta agent on the real agent runtime
        _ => {
            let mut c = two("/x", "/y");
            c.hosted = true;
            (c, vec![Step::StartAgent(0), ms(1), Step::Attach(0), Step::Req(0, ReqKind::Link, 0), ms(1), Step::StartMeta { target: Target::Lane(0, 0), sync_at_start: true }, ms(10)])
        }
    };
    let mut rng = Rng::new(n);
    let obs = world::run_case(&cfg, &steps, &mut rng);
    for (i, s) in steps.iter().enumerate() {
        println!("  {i:2}: {s:?}");
    }
    for h in &obs.hsnaps {
        println!("snapshot through the resolver for {} at {:?}: {:?}", obs.incs[h.inc].uri, h.at - obs.start, h.snap);
    }
    for m in &obs.metas {
        println!("meta agent {} hosted={} init={:?} runtime finished={:?}", m.route, m.hosted, m.init, m.hosted_finished.as_ref().map(|(t, r)| (*t - obs.start, r.clone())));
        for f in &m.sync_observer {
            println!("    observer {:?} {:?} {} {:?}", f.at - obs.start, f.kind, f.lane, f.body);
        }
    }
    for (i, r) in obs.remotes.iter().enumerate() {
        for f in &r.frames {
            println!("remote {i} of {}: {:?} {:?} {}", obs.incs[r.inc].uri, f.at - obs.start, f.kind, f.lane);
        }
    }
}

fn main() {
    let mut session = Session::new("introspect");
    if let Some(n) = session.args.extra_u64("witness") {
        witness(n);
        std::process::exit(0);
    }
    if session.prop() != P {
        session.note(format!("engine introspect serves {P} only"));
        session.finish();
    }
    let show_part = session.args.extra.get("show-part").cloned();
    let show_case = session.args.extra_u64("show-case");
    let n = session.args.budget(300_000, 5_000_000);
    session.part(
        "pulse-fn",
        "UplinkSnapshot::make_pulse over boundary-heavy snapshots and intervals: counts carried over, each rate within [floor, ceil] of count*1e6/micros saturated at u64::MAX; non-trivial: every case",
        false,
        n,
        |_case, rng, out| pulse_fn_case(rng, out),
    );
    for (name, hosted, nested, quick, thorough) in [("meta-lanes", false, false, 20_000u64, 300_000u64), ("meta-hosted", true, false, 12_000, 200_000), ("meta-nested", false, true, 8_000, 100_000)] {
        let n = session.args.budget(quick, thorough);
        let show = if show_part.as_deref() == Some(name) { show_case } else { None };
        session.part(
            name,
            "real register_introspection task + meta agents beside target agents on the real runtime and simulated remotes, paused clock: link count of every published snapshot within the range the remotes prove for that instant; published event/command counts of all consumers of a reader add up to what remotes received/sent (bounds per instant); rates = count per second of the interval between the lane's snapshots; sync events replay the last snapshot; meta agents start for every settled running agent/lane and end within two intervals of the agent's end; non-trivial: some published snapshot had a non-zero field",
            false,
            n,
            |case, rng, out| world_case(hosted, nested, rng, out, show == Some(case)),
        );
    }
    session.finish();
}
