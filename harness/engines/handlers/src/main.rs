//! Engine `handlers` (property C06): generated handler programs on a fixed derived agent, run by
//! the real agent runtime, compared event by event with a reference interpreter of the documented
//! handler semantics.

mod agentdef;
mod program;
mod reference;
mod run;

use common::{json, CaseOut, Json, Rng, Session};

use program::{gen_program, gen_script, Ev, Lane, Node, Program, Step};
use reference::{End, Policy, RefRun};
use run::{Obs, RunCfg};

const PROP: &str = "C06";
/// Longest expected trace a case may have (larger programs are regenerated).
const TRACE_BUDGET: usize = 1500;

fn lane_kind(ev: &Ev) -> &'static str {
    match ev {
        Ev::OnEvent { lane, .. } | Ev::OnSet { lane, .. } | Ev::Get { lane, .. } | Ev::Set { lane, .. } | Ev::FinalV { lane, .. } => Lane::Val(*lane).kind(),
        Ev::OnUpdate { lane, .. }
        | Ev::OnRemove { lane, .. }
        | Ev::OnClear { lane, .. }
        | Ev::GetMap { lane, .. }
        | Ev::Update { lane, .. }
        | Ev::Remove { lane, .. }
        | Ev::Clear { lane, .. }
        | Ev::FinalM { lane, .. } => Lane::Map(*lane).kind(),
        Ev::Command { .. } | Ev::Command2 { .. } | Ev::Cmd2 { .. } => "command",
        Ev::OnCue | Ev::Cue { .. } => Lane::Dem.kind(),
        Ev::OnCueKey { .. } | Ev::CueKey { .. } | Ev::Keys => Lane::DemMap.kind(),
        _ => "none",
    }
}

fn result_matches(exp: &RefRun, obs: &Obs) -> bool {
    match (&obs.result, exp.end) {
        (Some(Ok(())), End::Clean) => true,
        (Some(Err(_)), End::Failed) | (Some(Err(_)), End::FailedToStart) => true,
        _ => false,
    }
}

/// Same lifecycle entry (event kind, lane, key, new value) differing only in the previous
/// value / previous entry / previous map handed to the handler.
fn only_previous_differs(e: &Ev, o: &Ev) -> bool {
    match (e, o) {
        (Ev::OnSet { lane: a, new: n1, prev: p1 }, Ev::OnSet { lane: b, new: n2, prev: p2 }) => a == b && n1 == n2 && p1 != p2,
        (Ev::OnUpdate { lane: a, key: k1, new: n1, prev: p1, map: m1 }, Ev::OnUpdate { lane: b, key: k2, new: n2, prev: p2, map: m2 }) => {
            a == b && k1 == k2 && n1 == n2 && m1 == m2 && p1 != p2
        }
        (Ev::OnRemove { lane: a, key: k1, prev: p1, map: m1 }, Ev::OnRemove { lane: b, key: k2, prev: p2, map: m2 }) => a == b && k1 == k2 && m1 == m2 && p1 != p2,
        (Ev::OnClear { lane: a, prev: p1 }, Ev::OnClear { lane: b, prev: p2 }) => a == b && p1 != p2,
        _ => false,
    }
}

/// Same read leaf observing a different state.
fn only_read_differs(e: &Ev, o: &Ev) -> bool {
    match (e, o) {
        (Ev::Get { node: a, lane: l1, v: v1 }, Ev::Get { node: b, lane: l2, v: v2 }) => a == b && l1 == l2 && v1 != v2,
        (Ev::GetMap { node: a, lane: l1, map: m1 }, Ev::GetMap { node: b, lane: l2, map: m2 }) => a == b && l1 == l2 && m1 != m2,
        _ => false,
    }
}

/// Coarse class of an observed event, for signatures (keeps the number of signatures per defect
/// small): the kind for lane-triggered handlers, otherwise only the role.
fn class(ev: Option<&Ev>) -> &'static str {
    match ev {
        None => "end",
        Some(e) if e.is_trigger() => e.kind(),
        Some(Ev::Start | Ev::Stop | Ev::Command { .. } | Ev::Resume { .. } | Ev::OnTimer { .. } | Ev::LaneOpened { .. }) => "top-level-handler",
        Some(Ev::FinalV { .. } | Ev::FinalM { .. }) => "final-probe",
        Some(_) => "leaf",
    }
}

/// Name the rule broken by the first divergence between the expected and the observed trace.
/// Signatures carry kinds only (event kinds, lane kinds, combinator kinds), never ids or values.
fn classify(prog: &Program, exp: &RefRun, obs: &Obs) -> (String, String, usize) {
    let (e, o) = (&exp.trace, &obs.trace);
    let i = e.iter().zip(o.iter()).take_while(|(a, b)| a == b).count();
    let (x, y) = (e.get(i), o.get(i));
    let sig_what: (String, &str) = match (x, y) {
        (None, None) => (String::new(), ""),
        (None, Some(_)) if exp.failed_at == Some(i) => ("handler-ran-after-fail".into(), "a handler executed after a failure was reached"),
        (None, Some(_)) if o[..i].contains(&Ev::Stop) => ("on-stop-not-last".into(), "a handler executed after on_stop and everything it triggered had completed"),
        (_, Some(y)) if i == 0 && *y != Ev::Start => ("on-start-not-first".into(), "a handler ran before on_start"),
        // ---- rules of the extension (new signature prefixes) -----------------------------------
        (x, Some(Ev::OnTimer { .. })) if !matches!(x, Some(Ev::OnTimer { .. })) => (
            format!("timer/on_timer-not-due/expected={}", class(x)),
            "on_timer ran where no timer is due: inside the handler that scheduled it (or another handler), before its delay had elapsed, twice, or after the agent stopped",
        ),
        (Some(Ev::OnTimer { .. }), y) if !matches!(y, Some(Ev::OnTimer { .. })) => {
            (format!("timer/on_timer-missing-or-late/observed={}", class(y)), "a scheduled timer event was due but on_timer did not run before the agent went on to later work")
        }
        (Some(Ev::OnTimer { .. }), Some(Ev::OnTimer { .. })) => ("timer/on_timer-wrong-id".into(), "on_timer ran with an id other than that of the timer that was due"),
        (x, Some(Ev::LaneOpened { .. })) if !matches!(x, Some(Ev::LaneOpened { .. })) => (
            format!("open-lane/on_done-handler-unexpected/expected={}", class(x)),
            "the handler made by the on_done callback of open_lane ran inside on_start, twice, or out of the order of the requests",
        ),
        (Some(Ev::LaneOpened { .. }), y) if !matches!(y, Some(Ev::LaneOpened { .. })) => (
            format!("open-lane/on_done-handler-missing-or-late/observed={}", class(y)),
            "the handler made by the on_done callback of open_lane did not run after on_start, before the agent took its first command",
        ),
        (Some(x @ Ev::CtxRead { .. }), Some(y @ Ev::CtxRead { .. })) if x.node() == y.node() => (
            "contextual-function-read-wrong-state".into(),
            "the function of and_then_contextual read, from the agent it was handed, a value the item did not hold when the first action had completed",
        ),
        (Some(x), Some(y)) if only_previous_differs(x, y) => {
            (format!("previous-value-wrong/{}/{}", lane_kind(x), x.kind()), "a lifecycle handler received a previous value/entry that is not the one replaced")
        }
        (Some(x), Some(y)) if only_read_differs(x, y) => {
            (format!("stale-read/{}", lane_kind(x)), "a read did not observe the state left by the handlers that the documented order runs before it")
        }
        (Some(Ev::FinalV { .. }), Some(Ev::FinalV { .. })) | (Some(Ev::FinalM { .. }), Some(Ev::FinalM { .. })) => {
            (format!("final-state-mismatch/{}", lane_kind(x.unwrap())), "final lane state differs from the documented semantics")
        }
        (Some(x), y) if x.is_trigger() => match y {
            Some(y) if y.is_trigger() && y.kind() != x.kind() => {
                (format!("trigger-order/expected={}/observed={}", x.kind(), y.kind()), "lane lifecycle handlers ran in an order other than the documented one")
            }
            Some(y) if y.is_trigger() => (format!("trigger-arguments-wrong/{}", x.kind()), "a lane lifecycle handler received arguments that do not describe the change that triggered it"),
            _ => (
                format!("trigger-missing-or-late/{}/observed={}", x.kind(), class(y)),
                "the handler triggered by a lane change did not run before the modifying handler went on",
            ),
        },
        (x, Some(y)) if y.is_trigger() => {
            (format!("trigger-unexpected/{}/expected={}", y.kind(), class(x)), "a lane lifecycle handler ran where none is due (duplicate, or out of order)")
        }
        (Some(x), y) => {
            let comb = x.node().map(|n| prog.parent_kind(n)).unwrap_or("entry");
            (format!("trace-mismatch/expected={}/observed={}/under={comb}", x.kind(), class(y)), "handler activity out of the documented order")
        }
        (None, Some(y)) => (format!("trace-mismatch/expected=end/observed={}", class(Some(y))), "more handler activity than the documented semantics produce"),
    };
    (sig_what.0, sig_what.1.to_string(), i)
}

fn window(t: &[Ev], i: usize) -> Vec<String> {
    let lo = i.saturating_sub(6);
    let hi = (i + 6).min(t.len());
    t[lo..hi].iter().enumerate().map(|(j, e)| format!("{}{:?}", if lo + j == i { ">> " } else { "   " }, e)).collect()
}

fn detail(prog: &Program, script: &[Step], cfg: &RunCfg, exp: &RefRun, obs: &Obs, at: usize) -> Json {
    json!({
        "program": prog.describe(),
        "script": script.iter().map(|s| format!("{s:?}")).collect::<Vec<_>>(),
        "config": format!("{cfg:?}"),
        "first_difference_at": at,
        "expected_around": window(&exp.trace, at),
        "observed_around": window(&obs.trace, at),
        "expected_len": exp.trace.len(),
        "observed_len": obs.trace.len(),
        "expected_end": format!("{:?}", exp.end),
        "observed_result": format!("{:?}", obs.result),
        "sends_refused": obs.sends_refused,
    })
}

fn run_one(rng: &mut Rng, out: &mut CaseOut, lenient_external_fail: bool, mutation: u32) {
    // Generate (program, script) whose documented execution fits the trace budget.
    let mut generated = None;
    for _ in 0..12 {
        let prog = gen_program(rng);
        let script = gen_script(rng, &prog);
        let exp = reference::run(&prog, &script, Policy { mutation, ..Policy::DOCUMENTED }, TRACE_BUDGET);
        // The deviation policy may run longer (it carries on after a swallowed failure).
        let alt = reference::run(&prog, &script, Policy { external_fail_fatal: false, ..Policy::DOCUMENTED }, TRACE_BUDGET);
        if exp.overflow || alt.overflow {
            out.count("generated-oversize-regenerated");
            continue;
        }
        // The order of two timers due at the same instant is not documented.
        if exp.stats.timer_ties > 0 || alt.stats.timer_ties > 0 {
            out.count("generated-timer-tie-regenerated");
            continue;
        }
        generated = Some((prog, script, exp));
        break;
    }
    let Some((prog, script, exp)) = generated else {
        out.inconclusive("could not generate a program within the trace budget");
        return;
    };
    let cfg = RunCfg::gen(rng);
    judge(&prog, &script, &cfg, exp, rng, out, lenient_external_fail, mutation);
}

/// Run (program, script) on the real runtime and compare with the expected run.
#[allow(clippy::too_many_arguments)]
fn judge(prog: &Program, script: &[Step], cfg: &RunCfg, exp: RefRun, rng: &mut Rng, out: &mut CaseOut, lenient_external_fail: bool, mutation: u32) {
    let obs = run::run_case(prog.clone(), script, cfg, rng);

    // ---- evidence -------------------------------------------------------------------------
    out.events += obs.trace.len() as u64;
    for ev in &obs.trace {
        out.sig(&ev.kind());
        if let Some(n) = ev.node() {
            out.sig(&prog.parent_kind(n));
        }
    }
    out.sig(&format!("{:?}", exp.end));
    for ev in &obs.trace {
        match ev {
            Ev::Resume { .. } | Ev::FinalV { .. } | Ev::FinalM { .. } => {}
            e if e.node().is_some() => out.count(&format!("leaf-executed/{}", e.kind())),
            e if e.is_trigger() => out.count(&format!("handler-entered/{}/{}", e.kind(), lane_kind(e))),
            e => out.count(&format!("handler-entered/{}", e.kind())),
        }
    }
    // Combinator nodes do not log; count those on the path of executed leaves once per execution
    // of a direct child leaf.
    for ev in &obs.trace {
        if let Some(n) = ev.node() {
            if !matches!(ev, Ev::Resume { .. }) {
                let pk = prog.parent_kind(n);
                if pk != "root" {
                    out.count(&format!("leaf-under/{pk}"));
                }
            }
        }
    }
    for d in 1..10 {
        out.add(&format!("cascade-depth/{d}"), exp.stats.depth_hist[d]);
    }
    out.count(&format!("case-max-cascade-depth/{}", exp.stats.max_depth));
    out.add("suspended-futures-completed", obs.fired);
    out.add("suspended-futures-left-pending", obs.gates_left as u64);
    out.add("set-to-same-value", exp.stats.same_value_sets);
    out.add("clear-of-empty-map", exp.stats.clear_empty);
    out.add("remove-of-absent-key", exp.stats.remove_absent);
    out.add("inputs-handled(expected)", exp.stats.inputs_handled);
    out.add("sync-requests-handled(expected)", exp.stats.syncs);
    out.add("sends-refused-after-agent-end", obs.sends_refused);
    out.count(match exp.end {
        End::Clean => "case-end(expected)/clean-stop",
        End::Failed => "case-end(expected)/agent-failed",
        End::FailedToStart => "case-end(expected)/failed-to-start(stop-in-on_start)",
    });
    // ---- evidence for the extension (expected = what the documented semantics execute) -------
    out.add("ext/program-with-extension-node-kinds", prog.ext as u64);
    for (kind, n) in &exp.stats.ext_nodes {
        out.add(&format!("ext/node-executed(expected)/{kind}"), *n);
    }
    out.add("ext/and_then_try-function-failed(expected)", exp.stats.try_fn_failed);
    out.add("ext/option-none-completed(expected)", exp.stats.opt_none);
    out.add("ext/sequentially-element-failed(expected)", exp.stats.seq_element_failed);
    out.add("ext/join-operand-failed(expected)", exp.stats.join_operand_failed);
    out.add("ext/timers-scheduled(expected)", exp.stats.timers_scheduled);
    out.add("ext/timers-fired(expected)", exp.stats.timers_fired);
    out.add("ext/timers-still-pending-when-agent-ended(expected)", exp.stats.timers_dropped_at_stop);
    out.add("ext/demand-cue(expected)", exp.stats.cues);
    out.add("ext/demand-sync-request(expected)", exp.stats.demand_syncs);
    out.add("ext/demand-map-cue_key(expected)", exp.stats.cue_keys);
    out.add("ext/demand-map-sync-request(expected)", exp.stats.demand_map_syncs);
    out.add("ext/lanes-whose-external-name-differs-from-the-lifecycle-name", agentdef::renamed_lanes());
    out.add("ext/open_lane-on_done-handler(expected)", exp.stats.lanes_opened);
    out.add("ext/open_lane-request-completed-ok(observed)", obs.lanes_opened.iter().filter(|b| **b).count() as u64);
    out.add("ext/open_lane-request-completed-with-error(observed)", obs.lanes_opened.iter().filter(|b| !**b).count() as u64);
    out.add("case-with-fail-reached", (exp.stats.fails_reached > 0) as u64);
    out.add("case-with-stop-reached", (exp.stats.stops_reached > 0) as u64);
    out.add("case-with-jitter", (cfg.jitter_per_mille > 0) as u64);
    let bursts = script.windows(2).filter(|w| matches!(w, [Step::Send(_), Step::Send(_)])).count() as u64;
    out.add("burst-adjacent-sends", bursts);
    out.nontrivial = exp.stats.max_depth >= 1 && obs.trace.len() >= 4;
    out.set_sample(json!({
        "program": prog.describe().into_iter().take(8).collect::<Vec<_>>(),
        "script": script.iter().take(12).map(|s| format!("{s:?}")).collect::<Vec<_>>(),
        "config": format!("{cfg:?}"),
        "observed_trace_len": obs.trace.len(),
        "max_cascade_depth": exp.stats.max_depth,
        "result": format!("{:?}", obs.result),
    }));
    if out.verbose {
        eprintln!("config {cfg:?}");
        for l in prog.describe() {
            eprintln!("  {l}");
        }
        eprintln!("script {script:?}");
        eprintln!("expected end {:?}; observed result {:?}", exp.end, obs.result);
        let n = exp.trace.len().max(obs.trace.len());
        for i in 0..n {
            let (e, o) = (exp.trace.get(i), obs.trace.get(i));
            eprintln!("{} {:3} exp {:<70} obs {}", if e == o { " " } else { "!" }, i, e.map(|x| format!("{x:?}")).unwrap_or_default(), o.map(|x| format!("{x:?}")).unwrap_or_default());
        }
    }

    // ---- verdict --------------------------------------------------------------------------
    if !obs.stuck.is_empty() {
        out.inconclusive(format!("stuck: {}", obs.stuck[0]));
        return;
    }
    if exp.trace == obs.trace && result_matches(&exp, &obs) {
        return;
    }
    // Where the documentation can be read two ways the implementation may follow either reading,
    // consistently over the whole run; the known deviation gets its own signature. Candidates
    // are tried in the order of the number of readings that differ from the documented one.
    let has_closure = prog.any_node(|n| matches!(n, Node::AndThenCtx(..) | Node::AndThenTry(..)));
    let has_cue_key = prog.any_node(|n| matches!(n, Node::CueKey(_))) || script.iter().any(|s| matches!(s, Step::Send(program::Input::Sync(Lane::DemMap))));
    let both = [true, false];
    let mut candidates = vec![];
    for same in both {
        for clear in both {
            for fatal in both {
                for closure in &both[..if has_closure { 2 } else { 1 }] {
                    for nested in &both[..if has_cue_key { 2 } else { 1 }] {
                        candidates.push(Policy {
                            same_value_set_triggers: same,
                            clear_empty_triggers: clear,
                            external_fail_fatal: fatal,
                            mutation,
                            closure_after_triggers: *closure,
                            cue_key_always_nested: *nested,
                        });
                    }
                }
            }
        }
    }
    let deviations = |p: &Policy| [p.same_value_set_triggers, p.clear_empty_triggers, p.external_fail_fatal, p.closure_after_triggers, p.cue_key_always_nested].iter().filter(|b| !**b).count();
    candidates.sort_by_key(deviations);
    let mut tie_seen = false;
    for policy in candidates {
        if policy == (Policy { mutation, ..Policy::DOCUMENTED }) {
            continue;
        }
        let alt = reference::run(prog, script, policy, TRACE_BUDGET * 2);
        tie_seen |= alt.stats.timer_ties > 0;
        if alt.overflow || alt.stats.timer_ties > 0 {
            continue;
        }
        match alt.stats.tainted_at {
            // Judged up to the point where the agent carried on with an item that still holds a
            // change never reported to its handlers (see `Stats::tainted_at`).
            Some(k) if obs.trace.len() >= k && alt.trace[..k] == obs.trace[..k] => {
                out.count("unjudged/rest-of-run-after-swallowed-failure-that-lost-the-handlers-of-a-change");
            }
            Some(_) => continue,
            None if alt.trace != obs.trace || !result_matches(&alt, &obs) => continue,
            None => {}
        }
        if !policy.same_value_set_triggers {
            out.count("tolerated/set-to-same-value-does-not-trigger");
        }
        if !policy.clear_empty_triggers {
            out.count("tolerated/clear-of-empty-map-does-not-trigger");
        }
        if !policy.closure_after_triggers {
            out.count("tolerated/function-of-and_then_contextual-or-try-applied-before-the-handlers-of-the-first-actions-last-change");
            out.add("observed/change-whose-handlers-never-ran-because-and_then_try-function-failed-first", alt.stats.trigger_dropped_by_failed_try);
        }
        if !policy.cue_key_always_nested {
            out.count("tolerated/on_cue_key-deferred-while-an-earlier-value-is-unwritten");
            out.add("observed/cue_key-whose-on_cue_key-was-put-off-until-after-the-write(not-nested)", alt.stats.cue_keys_deferred - alt.stats.cue_keys_coalesced.min(alt.stats.cue_keys_deferred));
            out.add("observed/cue_key-of-a-key-already-queued(coalesced)", alt.stats.cue_keys_coalesced);
            out.add("observed/demand-map-lane-asked-for-its-handler-after-a-completed-write", alt.stats.demand_map_event_after_write);
            out.add("observed/demand-map-synced-message", alt.stats.demand_map_synced);
        }
        if !policy.external_fail_fatal && lenient_external_fail {
            out.count("tolerated/fail-in-remote-command-handler-not-fatal");
        } else if !policy.external_fail_fatal {
            // Everything else follows the documentation; only the failure was not fatal.
            let at = exp.trace.len();
            out.violation(
                PROP,
                "fail-not-fatal/handler-started-by-remote-command",
                "a handler failed (context.fail) while handling a command frame from a remote; the rest of that handler chain was dropped but the agent task carried on handling later events instead of failing",
                detail(prog, script, cfg, &exp, &obs, at),
            );
        }
        return;
    }
    if tie_seen {
        out.inconclusive("two timers due at the same instant under one of the tolerated readings (their order is not documented)");
        return;
    }
    if exp.trace == obs.trace {
        let sig = match exp.end {
            End::Clean => "result-mismatch/expected=ok",
            End::Failed => "result-mismatch/expected=error/fail-reached",
            End::FailedToStart => "result-mismatch/expected=error/stop-in-on-start",
        };
        out.violation(PROP, sig, "the handlers ran as documented but the agent task ended with the wrong kind of result", detail(prog, script, cfg, &exp, &obs, exp.trace.len()));
        return;
    }
    let (sig, what, at) = classify(prog, &exp, &obs);
    out.violation(PROP, sig, what, detail(prog, script, cfg, &exp, &obs, at));
}

fn main() {
    let mut s = Session::new("handlers");
    let n = s.args.budget(100_000, 3_000_000);
    // `--lenient-external-fail 1`: do not report the known deviation "a failure in a handler
    // started by a remote command does not fail the agent" (the rest of the run is still checked
    // against the semantics with that one change).
    let lenient = s.args.extra_u64("lenient-external-fail").unwrap_or(0) == 1;
    s.part(
        "generated-programs",
        "seeded handler program (event -> tree over set_value/update/remove/clear/command/get_value/get_map/effect/and_then/followed_by/suspend/fail/stop, acyclic over 3 value lanes + a value store, 2 map lanes + a map store, 2 command lanes; in 3 of 10 programs also and_then_contextual/and_then_try/join/join3/Option/SideEffects/Sequentially/get_parameter/with_parameters/get_agent_uri/schedule_timer_event with on_timer trees/cue on a demand lane/cue_key on a demand-map lane/open_lane in on_start) interpreted into real boxed EventHandlers on a derived agent run by AgentRouteTask; 1-8 remote frames (commands to the command/value/map lanes and sync requests; settled and same-lane bursts), suspended futures completed one at a time at quiescence, the paused clock advanced by 2 ms per quiescence (timer delays 0 or odd), poll jitter; observed trace, task result and final lane states compared with a reference interpreter of the documented semantics; non-trivial when at least one lifecycle handler was triggered from inside another handler; distinct by the sequence of (event kind, enclosing combinator) observed",
        false,
        n,
        |_i, rng, out| run_one(rng, out, lenient, 0),
    );
    // `--witness 1` (never part of a check): the minimal hand-written witness of the known
    // deviation, printed verbosely.
    if s.args.extra_u64("witness") == Some(1) {
        s.part("witness-fail-not-fatal", "hand-written minimal program", false, 1, |_i, rng, out| {
            out.verbose = true;
            let mut prog = Program::default();
            prog.n_progs = 1;
            let fail = prog.push(program::Node::Fail);
            prog.table.insert(program::Event::Command(0), fail);
            let cmd = program::Input::Cmd { prog: 0, arg: 1 };
            let script = vec![Step::Send(cmd), Step::Settle, Step::Send(cmd), Step::Settle];
            let cfg = RunCfg { cap_in: 4096, lane_in_buf: 4096, lane_out_buf: 4096, jitter_per_mille: 0 };
            let exp = reference::run(&prog, &script, Policy::DOCUMENTED, TRACE_BUDGET);
            judge(&prog, &script, &cfg, exp, rng, out, false, 0);
        });
    }
    // `--witness 2..` (never part of a check): hand-written programs of the extension.
    if let Some(w @ 2..=9) = s.args.extra_u64("witness") {
        s.part("witness-extension", "hand-written minimal program", false, 1, move |_i, rng, out| {
            out.verbose = true;
            let mut prog = Program::default();
            prog.n_progs = 1;
            prog.ext = true;
            let cmd = program::Input::Cmd { prog: 0, arg: 1 };
            let mut script = vec![Step::Send(cmd), Step::Settle];
            match w {
                // A `stop` reached inside the nested on_cue_key; on_stop cues again.
                2 | 3 => {
                    let a = prog.push(program::Node::CueKey(program::Key::Const(0)));
                    prog.table.insert(program::Event::Command(0), a);
                    let b = prog.push(program::Node::SetValue(2, program::Expr::Const(1)));
                    prog.table.insert(program::Event::OnCueKey, b);
                    let c = prog.push(program::Node::Stop);
                    prog.table.insert(program::Event::OnEvent(2), c);
                    let d = prog.push(program::Node::CueKey(program::Key::Const(if w == 2 { 0 } else { 1 })));
                    prog.table.insert(program::Event::Stop, d);
                }
                // and_then_try whose function fails after a change: the change's handlers.
                4 => {
                    let a = prog.push(program::Node::SetValue(1, program::Expr::Const(4)));
                    let b = prog.push(program::Node::Effect);
                    let t = prog.push(program::Node::AndThenTry(a, 2, b));
                    prog.link(t, a);
                    prog.link(t, b);
                    prog.table.insert(program::Event::Command(0), t);
                    let e = prog.push(program::Node::Effect);
                    prog.table.insert(program::Event::OnSet(1), e);
                    let cmd1 = program::Input::SetV { lane: 1, v: 4 };
                    script.extend([Step::Send(cmd1), Step::Settle]);
                }
                _ => {}
            }
            let cfg = RunCfg { cap_in: 4096, lane_in_buf: 4096, lane_out_buf: 4096, jitter_per_mille: 0 };
            let exp = reference::run(&prog, &script, Policy::DOCUMENTED, TRACE_BUDGET);
            judge(&prog, &script, &cfg, exp, rng, out, true, 0);
        });
    }
    // `--self-test 1` (never part of a check): the *reference* is given deliberately wrong
    // semantics; each mutation must be noticed and named by the comparison.
    if s.args.extra_u64("self-test") == Some(1) {
        for mutation in 1..=5u32 {
            s.part(&format!("self-test-mutation-{mutation}"), "reference interpreter deliberately wrong; violations expected", false, 2_000, move |_i, rng, out| run_one(rng, out, true, mutation));
        }
    }
    s.finish()
}
