//! Runs one (program, script) through the real agent runtime: `AgentRouteTask::run_agent` driving
//! `AgentModel<HAgent, HLifecycle>` on a current-thread Tokio runtime with a paused clock. The
//! inputs are WARP command frames written by a simulated remote into the byte channel handed to
//! `AgentAttachmentRequest`; suspended futures are completed by the harness at quiescence.

use std::collections::HashMap;
use std::num::NonZeroUsize;
use std::time::Duration;

use common::jitter::Jitter;
use common::Rng;
use futures::SinkExt;
use swimos::agent::agent_model::AgentModel;
use swimos_api::address::RelativeAddress;
use swimos_api::agent::{AgentConfig, LaneConfig};
use swimos_messages::protocol::{RawRequestMessageEncoder, RequestMessage};
use swimos_runtime::agent::{
    AgentAttachmentRequest, AgentExecError, AgentRouteChannels, AgentRouteDescriptor, AgentRouteTask, AgentRuntimeConfig, CombinedAgentConfig,
};
use swimos_utilities::byte_channel::{byte_channel, ByteWriter};
use swimos_utilities::trigger::{self, promise};
use tokio::io::AsyncReadExt;
use tokio::sync::mpsc;
use tokio::task::JoinHandle;
use tokio_util::codec::FramedWrite;
use uuid::Uuid;

use crate::agentdef::{external_name, HAgent, HLifecycle, Shared, CMD, DEMAND, DEMAND_MAP, MAP_LANES, VAL_LANES};
use crate::program::{Ev, Input, Lane, Program, Step, PARAM_ZONE};

pub const NODE: &str = "/node";

#[derive(Clone, Debug)]
pub struct RunCfg {
    /// Remote -> runtime byte channel capacity.
    pub cap_in: usize,
    /// Runtime <-> agent lane buffers.
    pub lane_in_buf: usize,
    pub lane_out_buf: usize,
    pub jitter_per_mille: u64,
}

impl RunCfg {
    pub fn gen(rng: &mut Rng) -> RunCfg {
        RunCfg {
            cap_in: *rng.pick(&[8usize, 16, 64, 256, 4096]),
            lane_in_buf: *rng.pick(&[16usize, 64, 4096]),
            lane_out_buf: *rng.pick(&[16usize, 64, 4096]),
            jitter_per_mille: *rng.pick(&[0u64, 0, 100, 300, 600]),
        }
    }
}

pub struct Obs {
    pub trace: Vec<Ev>,
    /// `Some(Ok)` / `Some(Err(text))`: how the `run_agent` future ended; `None`: it did not end.
    pub result: Option<Result<(), String>>,
    /// Harness-side trouble that makes the case inconclusive.
    pub stuck: Vec<String>,
    pub fired: u64,
    pub sends_refused: u64,
    pub gates_left: usize,
    /// Results handed to the `on_done` callbacks of `open_lane` (observation only).
    pub lanes_opened: Vec<bool>,
}

fn nz(n: usize) -> NonZeroUsize {
    NonZeroUsize::new(n.max(1)).unwrap()
}

fn runtime_config() -> AgentRuntimeConfig {
    AgentRuntimeConfig {
        // Virtual-time barriers must never trip the runtime's own timeouts.
        inactive_timeout: Duration::from_secs(1_000_000),
        prune_remote_delay: Duration::from_secs(1_000_000),
        shutdown_timeout: Duration::from_secs(30),
        item_init_timeout: Duration::from_secs(5),
        command_output_timeout: Duration::from_secs(1_000_000),
        ..Default::default()
    }
}

const STEP_TIMEOUT: Duration = Duration::from_secs(20);

async fn settle() {
    // Paused clock: virtual time advances only when no task is runnable, so this returns exactly
    // at quiescence.
    // `SETTLE_MS` = 2: handlers started by the harness run at even milliseconds, generated timer
    // delays are 0 or odd, so a timer never becomes due at the instant the harness wakes up.
    tokio::time::sleep(Duration::from_millis(crate::reference::SETTLE_MS)).await;
}

/// The *external* name of a lane (the harness plays a remote).
pub fn lane_name(lane: Lane) -> &'static str {
    external_name(match lane {
        Lane::Val(i) => VAL_LANES[i as usize],
        Lane::Map(i) => MAP_LANES[i as usize],
        Lane::Dem => DEMAND,
        Lane::DemMap => DEMAND_MAP,
        _ => CMD,
    })
}

pub fn body_of(input: &Input) -> (&'static str, String) {
    match *input {
        Input::Sync(lane) => (lane_name(lane), String::new()),
        Input::Cmd { prog, arg } => (lane_name(Lane::Cmd), format!("@run{{prog:{prog},arg:{arg}}}")),
        Input::SetV { lane, v } => (lane_name(Lane::Val(lane)), format!("{v}")),
        Input::Upd { lane, k, v } => (lane_name(Lane::Map(lane)), format!("@update(key:{k}) {v}")),
        Input::Rem { lane, k } => (lane_name(Lane::Map(lane)), format!("@remove(key:{k})")),
        Input::Clr { lane } => (lane_name(Lane::Map(lane)), "@clear".to_string()),
    }
}

struct Remote {
    id: Uuid,
    framed: Option<FramedWrite<ByteWriter, RawRequestMessageEncoder>>,
    refused: u64,
}

impl Remote {
    async fn send(&mut self, input: &Input) {
        let Some(framed) = self.framed.as_mut() else {
            self.refused += 1;
            return;
        };
        let (lane, body) = body_of(input);
        let path = RelativeAddress::new(NODE, lane);
        let msg: RequestMessage<&str, &[u8]> = match input {
            Input::Sync(_) => RequestMessage::sync(self.id, path),
            _ => RequestMessage::command(self.id, path, body.as_bytes()),
        };
        match tokio::time::timeout(STEP_TIMEOUT, framed.send(msg)).await {
            Ok(Ok(())) => {}
            // The runtime closed its reading half or no longer drains it (the agent has stopped
            // or failed): nothing more can be sent. Whether that was expected is decided by the
            // trace comparison, not here.
            _ => {
                self.framed = None;
                self.refused += 1;
            }
        }
    }
}

fn fire(sh: &Shared, i: usize) -> bool {
    let gate = {
        let mut g = sh.gates.lock();
        if g.is_empty() {
            return false;
        }
        let n = g.len();
        g.remove(i % n)
    };
    let _ = gate.tx.send(());
    true
}

pub fn run_case(prog: Program, script: &[Step], cfg: &RunCfg, rng: &mut Rng) -> Obs {
    let rt = tokio::runtime::Builder::new_current_thread().enable_time().start_paused(true).build().expect("tokio runtime");
    let sh = Shared::new(prog);
    let sh2 = sh.clone();
    let jitter_rng = rng.fork();
    let cfg = cfg.clone();
    let obs = rt.block_on(async move {
        let sh = sh2;
        let mut stuck = vec![];
        let lifecycle = HLifecycle { sh: sh.clone() };
        let agent = AgentModel::new(HAgent::default, lifecycle.with_timer());
        let (att_tx, att_rx) = mpsc::channel(8);
        let (_http_tx, http_rx) = mpsc::channel(1);
        let (link_tx, mut link_rx) = mpsc::channel(8);
        let (stop_tx, stop_rx) = trigger::trigger();
        let lane_conf = LaneConfig { input_buffer_size: nz(cfg.lane_in_buf), output_buffer_size: nz(cfg.lane_out_buf), transient: true };
        let config = CombinedAgentConfig {
            agent_config: AgentConfig { default_lane_config: Some(lane_conf), ..Default::default() },
            runtime_config: runtime_config(),
        };
        let identity = Uuid::from_u128(0xC06);
        // Route parameters for `get_parameter` / `with_parameters`.
        let mut route_params = HashMap::new();
        route_params.insert("id".to_string(), sh.prog.param_id.to_string());
        route_params.insert("zone".to_string(), PARAM_ZONE.to_string());
        let descriptor = AgentRouteDescriptor { identity, route: NODE.parse().expect("route uri"), route_params };
        let task = AgentRouteTask::new(&agent, descriptor, AgentRouteChannels::new(att_rx, http_rx, link_tx), stop_rx, config, None);
        // Poll-level jitter on the whole agent (runtime + agent task): only delays polls.
        let handle: JoinHandle<Result<(), AgentExecError>> = tokio::spawn(Jitter::new(task.run_agent(), jitter_rng, cfg.jitter_per_mille));
        // The agent never opens links in this engine; drain requests defensively.
        let link_drain = tokio::spawn(async move { while link_rx.recv().await.is_some() {} });
        settle().await;

        // Attach the remote (unless the agent already ended in `on_start`).
        let id = Uuid::from_u128(0x1000);
        let mut remote = Remote { id, framed: None, refused: 0 };
        let mut reader_task = None;
        let mut _completion = None;
        if !handle.is_finished() {
            let (req_tx, req_rx) = byte_channel(nz(cfg.cap_in));
            let (resp_tx, mut resp_rx) = byte_channel(nz(4096));
            let (comp_tx, comp_rx) = promise::promise();
            let (att_done_tx, att_done_rx) = trigger::trigger();
            let req = AgentAttachmentRequest::with_confirmation(id, (resp_tx, req_rx), comp_tx, att_done_tx);
            _completion = Some(comp_rx);
            reader_task = Some(tokio::spawn(async move {
                let mut buf = [0u8; 1024];
                while let Ok(n) = resp_rx.read(&mut buf).await {
                    if n == 0 {
                        break;
                    }
                }
            }));
            if att_tx.send(req).await.is_ok() {
                match tokio::time::timeout(STEP_TIMEOUT, att_done_rx).await {
                    Ok(Ok(())) => remote.framed = Some(FramedWrite::new(req_tx, RawRequestMessageEncoder)),
                    Ok(Err(_)) => {}
                    Err(_) => {
                        if !handle.is_finished() {
                            stuck.push("attachment of the remote was not confirmed".to_string());
                        }
                    }
                }
            }
        }

        let mut fired = 0u64;
        'script: for step in script {
            match step {
                Step::Send(input) => remote.send(input).await,
                Step::Settle => settle().await,
                Step::Fire(i) => {
                    if fire(&sh, *i as usize) {
                        fired += 1;
                    }
                }
                Step::FireAll(n) => {
                    for _ in 0..*n {
                        if !fire(&sh, 0) {
                            break;
                        }
                        fired += 1;
                        settle().await;
                        if handle.is_finished() {
                            break 'script;
                        }
                    }
                }
            }
            if handle.is_finished() {
                break;
            }
        }
        settle().await;
        settle().await;
        // Clean shutdown (a no-op for an agent that already ended).
        stop_tx.trigger();
        let result = match tokio::time::timeout(Duration::from_secs(120), handle).await {
            Ok(Ok(r)) => Some(r.map_err(|e| format!("{e}"))),
            Ok(Err(join_err)) => Some(Err(format!("agent task panicked: {join_err}"))),
            Err(_) => {
                stuck.push("agent did not stop within 120 virtual seconds of the stop signal".to_string());
                None
            }
        };
        settle().await;
        if let Some(r) = reader_task {
            r.abort();
        }
        link_drain.abort();
        let gates_left = sh.gates.lock().len();
        let trace = sh.trace.lock().clone();
        let lanes_opened = sh.lanes_opened.lock().clone();
        Obs { trace, result, stuck, fired, sends_refused: remote.refused, gates_left, lanes_opened }
    });
    // Dropping the runtime drops any still-suspended futures; the gates go with `sh`.
    drop(rt);
    obs
}
