//! Reference interpreter of the *documented* handler semantics (docs/event_handler.md "How event
//! handlers are executed", docs/lifecycle.md, and the rustdoc of `HandlerContext::{stop, fail}`):
//!
//! * a handler runs until it completes, fails, or yields having modified a lane; on a
//!   modification the handlers attached to that lane run *recursively until they complete or
//!   fail*, then the original handler resumes (depth-first);
//! * value lane: `on_event(new)` first, then `on_set(new, previous)`; map lane: `on_update(map
//!   after, key, previous, new)`, `on_remove(map after, key, previous)` only "when an entry is
//!   removed", `on_clear(previous map)`;
//! * `on_start` first; `on_stop` last (plus whatever it triggers);
//! * a failure stops *all* execution and the agent fails (no `on_stop`);
//! * `stop`: the executing handler terminates, `on_stop` still runs; in `on_start` the agent fails
//!   to start; in `on_stop` the agent stops immediately;
//! * a suspended future's handler is run "as with any other event handler" when it completes.
//!
//! Extension (coverage gaps 17/18), from the rustdoc of `HandlerActionExt`, `HandlerContext`,
//! `join`/`join3`, `Sequentially`, `SideEffects`, `Option<H>` and docs/lifecycle.md:
//!
//! * `and_then_contextual` / `and_then_try`: the first action runs to completion (with everything
//!   it triggers), the function is applied to its result, then the resulting action runs; a
//!   failing function is a failure of the handler;
//! * `join`/`join3`/`Sequentially`: the operands run in the order given, a failure ends the whole;
//! * `Option<H>`: `None` completes at once; `SideEffects` draws its items in order;
//! * `schedule_timer_event(d, id)`: `on_timer(id)` runs as a handler of its own once `d` has
//!   elapsed - after the scheduling handler has completed, never inside it; nothing once the agent
//!   has stopped. Virtual time: the harness advances the paused clock by 2 ms per `Settle`, the
//!   delays are 0 or odd, so a deadline never coincides with a step of the harness;
//! * demand lane: `on_cue` "triggers when it is explicitly cued or an external sync request is
//!   received" - like the handlers of any other lane, nested at the `cue`; demand-map lane:
//!   `on_cue_key(k)` "triggers each time a key of the map is cued";
//! * `open_lane(name, on_done)` in `on_start`: the handler made by `on_done` "will be executed when
//!   the request completes" - a handler of its own after `on_start` (handlers never overlap), in
//!   the order of the requests, before the agent takes its first command.
//!
//! `Policy` isolates the points where the documentation can be read two ways (tolerated either
//! way, see `main.rs`) and one known deviation of the implementation (reported under its own
//! signature so that it does not mask everything else).

use std::collections::BTreeMap;

use crate::program::{
    combine2, combine3, map_digest, param_result, try_fails, Ev, Event, Input, Lane, MapSnap, Node, NodeId, Program, Step, N_MAP, N_VAL, PARAM_NAMES, PARAM_ZONE, SYNC_KEY,
};

/// The route the agent runs at (`get_agent_uri`).
pub const AGENT_URI: &str = "/node";

#[derive(Clone, Copy, Debug, PartialEq, Eq)]
pub struct Policy {
    /// "A value lane generates events each time a new value is set": a set to the current value
    /// still triggers `on_event`/`on_set` (documented reading: true).
    pub same_value_set_triggers: bool,
    /// "`on_clear`: triggered when the contents of the map are cleared": clearing an empty map
    /// still triggers (documented reading: true).
    pub clear_empty_triggers: bool,
    /// "Fail with an error. In this case all execution will stop and the agent will fail."
    /// false = a failure reached while handling a command *received from a remote* only aborts
    /// that handler chain and the agent carries on (not documented anywhere).
    pub external_fail_fatal: bool,
    /// Self-test only (`--self-test 1`): deliberately *wrong* semantics, to see that the
    /// comparison notices and names them. 0 = none; 1 = on_set before on_event; 2 = on_set gets
    /// the new value as previous; 3 = on_update never gets a previous value; 4 = a failure in a
    /// resumed suspended handler is not fatal; 5 = value-lane handlers triggered twice.
    pub mutation: u32,
    /// `and_then_contextual(f)` / `and_then_try(f)`: "the first handler action runs to completion,
    /// the function is applied to the result". true = the handlers triggered by the first
    /// action's *last* change have run when the function is applied (the handler "resumes" only
    /// after them); false = the function is applied in the step in which the first action
    /// completes, before that last change is reported to the agent - the function sees the state
    /// before those handlers, and if it fails they never run.
    pub closure_after_triggers: bool,
    /// "`on_cue_key`: This triggers each time a key of the map is cued." true = nested at every
    /// `cue_key`, like the handlers of every other lane; false = only the first `cue_key` of a
    /// top-level handler runs nested, the others are queued (one entry per key) and their
    /// `on_cue_key` runs as a handler of its own once the value computed before has been written.
    pub cue_key_always_nested: bool,
}

impl Policy {
    pub const DOCUMENTED: Policy = Policy {
        same_value_set_triggers: true,
        clear_empty_triggers: true,
        external_fail_fatal: true,
        mutation: 0,
        closure_after_triggers: true,
        cue_key_always_nested: true,
    };
}

#[derive(Clone, Copy, Debug, PartialEq, Eq)]
pub enum End {
    /// `on_stop` ran (to completion or to a `stop`): clean result.
    Clean,
    /// A failure was reached: the agent task must end with an error.
    Failed,
    /// `stop` during `on_start`: documented as "it will fail to start at all".
    FailedToStart,
}

#[derive(Clone, Debug, Default)]
pub struct Stats {
    pub max_depth: u32,
    /// Histogram of the nesting depth at which lifecycle handlers were entered.
    pub depth_hist: [u64; 10],
    pub fails_reached: u64,
    pub fails_swallowed: u64,
    pub stops_reached: u64,
    pub fired: u64,
    pub same_value_sets: u64,
    pub clear_empty: u64,
    pub remove_absent: u64,
    pub inputs_handled: u64,
    pub suspends: u64,
    pub syncs: u64,
    // ---- extension ------------------------------------------------------------------------------
    /// Executions per combinator kind of the extension (keys are `Node::kind()`).
    pub ext_nodes: BTreeMap<&'static str, u64>,
    pub try_fn_failed: u64,
    /// A change whose handlers never ran because the `and_then_try` function failed first
    /// (`closure_after_triggers == false` only).
    pub trigger_dropped_by_failed_try: u64,
    /// The function of `and_then_contextual`/`and_then_try` was applied while the handlers of the
    /// first action's last change were still to run (only counted when that makes a difference to
    /// the order, i.e. there was such a change).
    pub closure_with_pending_trigger: u64,
    pub opt_none: u64,
    pub seq_element_failed: u64,
    pub join_operand_failed: u64,
    pub timers_scheduled: u64,
    pub timers_fired: u64,
    pub timers_dropped_at_stop: u64,
    /// Two timers were due at the same instant (the case is regenerated: their order is not
    /// documented).
    pub timer_ties: u64,
    pub cues: u64,
    pub cue_keys: u64,
    pub cue_keys_deferred: u64,
    pub cue_keys_coalesced: u64,
    pub demand_syncs: u64,
    pub demand_map_syncs: u64,
    /// (`cue_key_always_nested == false`) `synced` messages; times the lane was asked for its
    /// next handler after a completed write.
    pub demand_map_synced: u64,
    pub demand_map_event_after_write: u64,
    pub lanes_opened: u64,
    /// Trace length at the first point where a handler chain that had *lost* the handlers of a
    /// change (see `trigger_dropped_by_failed_try`) failed and the agent carried on nevertheless
    /// (`external_fail_fatal == false`). The item then still holds the unreported change; what the
    /// next handlers of that item are told is outside anything the documentation describes, so
    /// the run is judged up to here only.
    pub tainted_at: Option<usize>,
}

#[derive(Clone, Debug)]
pub struct RefRun {
    pub trace: Vec<Ev>,
    pub end: End,
    pub stats: Stats,
    /// The step budget was exhausted (the case is regenerated, never judged).
    pub overflow: bool,
    /// Index in `trace` after which nothing may be observed because a failure was reached.
    pub failed_at: Option<usize>,
}

enum Abort {
    Fail,
    Stop,
    Budget,
}

struct Pending {
    node: NodeId,
    child: NodeId,
    env: i64,
}

/// The lifecycle handlers owed to a change that has been applied to the state.
enum Trig {
    None,
    Val { lane: u8, v: i64, prev: i64 },
    Upd { lane: u8, key: i32, prev: Option<i64>, v: i64, map: MapSnap },
    Rem { lane: u8, key: i32, prev: i64, map: MapSnap },
    Clr { lane: u8, prev: MapSnap },
    Cmd2 { v: i64 },
    Cue,
    CueKey { key: i32 },
}

/// Virtual milliseconds the harness lets pass per `Settle`.
pub const SETTLE_MS: u64 = 2;

struct Machine<'a> {
    prog: &'a Program,
    policy: Policy,
    vals: [i64; N_VAL],
    maps: [BTreeMap<i32, i64>; N_MAP],
    trace: Vec<Ev>,
    pending: Vec<Pending>,
    depth: u32,
    budget: usize,
    stats: Stats,
    /// Virtual time (ms since the agent started).
    now: u64,
    /// Scheduled timers: (deadline, id), in scheduling order.
    timers: Vec<(u64, u8)>,
    /// `on_done` handlers of `open_lane` requests made in `on_start`.
    opened: Vec<(NodeId, NodeId)>,
    /// Demand-map lane, `cue_key_always_nested == false`: a computed value waits to be written.
    dm_pending: bool,
    /// ... and the keys cued meanwhile (one entry per key, in the order first cued).
    dm_queue: Vec<i32>,
    /// ... a remote has asked to sync and `keys` has not run yet; the keys still owed to syncing
    /// remotes (one queue per request); whose turn it is (cued keys / synced keys); the next queue.
    dm_sync_requested: bool,
    dm_sync_queues: Vec<Vec<i32>>,
    dm_sync_turn: bool,
    dm_sync_index: usize,
    /// A change lost its handlers in the handler chain running now.
    dropped_in_chain: bool,
    /// ... and the lane has been reported as having something to write since the last write
    /// (reports made during `on_start` are not kept: the agent is not writing yet).
    dm_dirty: bool,
}

fn snap(m: &BTreeMap<i32, i64>) -> MapSnap {
    m.iter().map(|(k, v)| (*k, *v)).collect()
}

impl<'a> Machine<'a> {
    fn log(&mut self, ev: Ev) -> Result<(), Abort> {
        if self.trace.len() >= self.budget {
            return Err(Abort::Budget);
        }
        self.trace.push(ev);
        Ok(())
    }

    /// Run the handler attached to a lifecycle event: its entry record, then its tree (if any).
    fn handler(&mut self, event: Event, entry: Ev, env: i64) -> Result<(), Abort> {
        self.log(entry)?;
        if let Some(root) = self.prog.table.get(&event).copied() {
            self.exec(root, env)?;
        }
        Ok(())
    }

    /// A handler triggered by a lane change: runs nested inside the handler that made the change.
    fn triggered(&mut self, event: Event, entry: Ev, env: i64) -> Result<(), Abort> {
        self.depth += 1;
        self.stats.max_depth = self.stats.max_depth.max(self.depth);
        self.stats.depth_hist[(self.depth as usize).min(9)] += 1;
        let r = self.handler(event, entry, env);
        self.depth -= 1;
        r
    }

    // Every change is split into `apply_*` (the state changes; says which handlers are owed) and
    // `fire` (runs them, nested in the handler that made the change).

    fn apply_set(&mut self, lane: u8, v: i64) -> Trig {
        let prev = std::mem::replace(&mut self.vals[lane as usize], v);
        if prev == v {
            self.stats.same_value_sets += 1;
            if !self.policy.same_value_set_triggers {
                return Trig::None;
            }
        }
        Trig::Val { lane, v, prev }
    }

    fn apply_update(&mut self, lane: u8, key: i32, v: i64) -> Trig {
        let mut prev = self.maps[lane as usize].insert(key, v);
        if self.policy.mutation == 3 {
            prev = None;
        }
        Trig::Upd { lane, key, prev, v, map: snap(&self.maps[lane as usize]) }
    }

    fn apply_remove(&mut self, lane: u8, key: i32) -> Trig {
        match self.maps[lane as usize].remove(&key) {
            Some(prev) => Trig::Rem { lane, key, prev, map: snap(&self.maps[lane as usize]) },
            None => {
                // "Triggered when an entry is removed": nothing was removed.
                self.stats.remove_absent += 1;
                Trig::None
            }
        }
    }

    fn apply_clear(&mut self, lane: u8) -> Trig {
        let prev = std::mem::take(&mut self.maps[lane as usize]);
        if prev.is_empty() {
            self.stats.clear_empty += 1;
            if !self.policy.clear_empty_triggers {
                return Trig::None;
            }
        }
        Trig::Clr { lane, prev: snap(&prev) }
    }

    fn fire(&mut self, t: Trig) -> Result<(), Abort> {
        match t {
            Trig::None => Ok(()),
            Trig::Val { lane, v, prev } => {
                // on_event first, then on_set with the replaced value; both run to completion
                // before the modifying handler resumes.
                match self.policy.mutation {
                    1 => {
                        self.triggered(Event::OnSet(lane), Ev::OnSet { lane, new: v, prev: Some(prev) }, v)?;
                        return self.triggered(Event::OnEvent(lane), Ev::OnEvent { lane, new: v }, v);
                    }
                    2 => {
                        self.triggered(Event::OnEvent(lane), Ev::OnEvent { lane, new: v }, v)?;
                        return self.triggered(Event::OnSet(lane), Ev::OnSet { lane, new: v, prev: Some(v) }, v);
                    }
                    5 => {
                        self.triggered(Event::OnEvent(lane), Ev::OnEvent { lane, new: v }, v)?;
                        self.triggered(Event::OnSet(lane), Ev::OnSet { lane, new: v, prev: Some(prev) }, v)?;
                    }
                    _ => {}
                }
                self.triggered(Event::OnEvent(lane), Ev::OnEvent { lane, new: v }, v)?;
                self.triggered(Event::OnSet(lane), Ev::OnSet { lane, new: v, prev: Some(prev) }, v)
            }
            Trig::Upd { lane, key, prev, v, map } => self.triggered(Event::OnUpdate(lane), Ev::OnUpdate { lane, key, prev, new: v, map }, v),
            Trig::Rem { lane, key, prev, map } => self.triggered(Event::OnRemove(lane), Ev::OnRemove { lane, key, prev, map }, prev),
            Trig::Clr { lane, prev } => {
                let n = prev.len() as i64;
                self.triggered(Event::OnClear(lane), Ev::OnClear { lane, prev }, n)
            }
            Trig::Cmd2 { v } => self.triggered(Event::Command2, Ev::Command2 { arg: v }, v),
            Trig::Cue => self.triggered(Event::OnCue, Ev::OnCue, 0),
            Trig::CueKey { key } => {
                if self.policy.cue_key_always_nested {
                    return self.triggered(Event::OnCueKey, Ev::OnCueKey { key }, key as i64);
                }
                // The other reading: one value at a time. A key cued while a computed value is
                // still to be written is queued (one entry per key).
                self.dm_dirty = true;
                if !self.dm_queue.contains(&key) {
                    self.dm_queue.push(key);
                } else {
                    self.stats.cue_keys_coalesced += 1;
                }
                if self.dm_pending {
                    self.stats.cue_keys_deferred += 1;
                }
                self.dm_item_event(true)
            }
        }
    }

    /// Reading `cue_key_always_nested == false`: the lane is asked for its next handler - after a
    /// `cue_key` or a sync request (`nested`: inside the handler that made it) or after a write
    /// that left work behind (a handler of its own). Nothing while a value waits to be written;
    /// else `keys` for a new sync request; else the next queued entry, cued keys and the keys owed
    /// to syncing remotes taking turns; a sync whose keys are all sent ends with a `synced`
    /// message, which is written like a value but computed by no handler.
    fn dm_item_event(&mut self, nested: bool) -> Result<(), Abort> {
        loop {
            if self.dm_pending {
                return Ok(());
            }
            if self.dm_sync_requested {
                self.dm_sync_requested = false;
                self.dm_handler(nested, |m| m.log(Ev::Keys))?;
                self.dm_sync_queues.push(vec![SYNC_KEY]);
                self.dm_dirty = true;
                continue;
            }
            let turn_of_cued = !self.dm_sync_turn;
            self.dm_sync_turn = !self.dm_sync_turn;
            if (turn_of_cued && !self.dm_queue.is_empty()) || self.dm_sync_queues.is_empty() {
                if self.dm_queue.is_empty() {
                    return Ok(());
                }
                let key = self.dm_queue.remove(0);
                // A key that has just been cued is no longer owed to a syncing remote.
                for q in &mut self.dm_sync_queues {
                    if let Some(i) = q.iter().position(|k| *k == key) {
                        q.remove(i);
                    }
                }
                return self.dm_handler(nested, |m| m.cue_key_one_at_a_time(key));
            }
            let i = self.dm_sync_index;
            if self.dm_sync_queues[i].is_empty() {
                self.dm_sync_queues.remove(i);
                if self.dm_sync_index >= self.dm_sync_queues.len() {
                    self.dm_sync_index = 0;
                }
                self.stats.demand_map_synced += 1;
                self.dm_pending = true;
                self.dm_dirty = true;
                return Ok(());
            }
            let key = self.dm_sync_queues[i].remove(0);
            self.dm_sync_index = (i + 1) % self.dm_sync_queues.len();
            return self.dm_handler(nested, |m| m.cue_key_one_at_a_time(key));
        }
    }

    fn dm_handler(&mut self, nested: bool, f: impl FnOnce(&mut Self) -> Result<(), Abort>) -> Result<(), Abort> {
        if nested {
            self.depth += 1;
            self.stats.max_depth = self.stats.max_depth.max(self.depth);
            self.stats.depth_hist[(self.depth as usize).min(9)] += 1;
        }
        let r = f(self);
        if nested {
            self.depth -= 1;
        }
        r
    }

    /// `on_cue_key` under the reading `cue_key_always_nested == false`: the value counts as
    /// computed (and waiting to be written) as soon as the handler's own last step is done -
    /// before the handlers owed to a change made by that last step have run.
    fn cue_key_one_at_a_time(&mut self, key: i32) -> Result<(), Abort> {
        self.log(Ev::OnCueKey { key })?;
        let owed = match self.prog.table.get(&Event::OnCueKey).copied() {
            Some(root) => self.exec_inner(root, key as i64, true)?.1,
            None => Trig::None,
        };
        self.dm_pending = true;
        self.fire(owed)
    }

    fn set_value(&mut self, lane: u8, v: i64) -> Result<(), Abort> {
        let t = self.apply_set(lane, v);
        self.fire(t)
    }

    fn update(&mut self, lane: u8, key: i32, v: i64) -> Result<(), Abort> {
        let t = self.apply_update(lane, key, v);
        self.fire(t)
    }

    fn remove(&mut self, lane: u8, key: i32) -> Result<(), Abort> {
        let t = self.apply_remove(lane, key);
        self.fire(t)
    }

    fn clear(&mut self, lane: u8) -> Result<(), Abort> {
        let t = self.apply_clear(lane);
        self.fire(t)
    }

    fn exec(&mut self, id: NodeId, env: i64) -> Result<i64, Abort> {
        self.exec_inner(id, env, false).map(|(r, _)| r)
    }

    /// A modifying leaf: in `tail` mode the handlers it owes are handed back instead of run.
    fn modified(&mut self, r: i64, t: Trig, tail: bool) -> Result<(i64, Trig), Abort> {
        if tail {
            Ok((r, t))
        } else {
            self.fire(t)?;
            Ok((r, Trig::None))
        }
    }

    /// The first operand of `and_then_contextual` / `and_then_try`, up to the point where the
    /// function is applied. Documented reading: everything the operand triggers has run. Other
    /// reading (`closure_after_triggers == false`): the handlers owed to the operand's *last*
    /// change (a change made by its final step) are still to run.
    fn first_operand(&mut self, a: NodeId, env: i64) -> Result<(i64, Trig), Abort> {
        let (r, t) = self.exec_inner(a, env, !self.policy.closure_after_triggers)?;
        if !matches!(t, Trig::None) {
            self.stats.closure_with_pending_trigger += 1;
        }
        Ok((r, t))
    }

    /// Execute a tree. `tail`: the handlers owed to a change made by the *final* step of the tree
    /// are not run but returned (used only for the non-documented reading of `first_operand`).
    fn exec_inner(&mut self, id: NodeId, env: i64, tail: bool) -> Result<(i64, Trig), Abort> {
        let node = self.prog.node(id);
        if !matches!(
            node,
            Node::Effect
                | Node::GetValue(_)
                | Node::GetMap(_)
                | Node::SetValue(..)
                | Node::Update(..)
                | Node::Remove(..)
                | Node::Clear(_)
                | Node::Command2(_)
                | Node::Fail
                | Node::Stop
                | Node::Suspend(_)
                | Node::FollowedBy(..)
                | Node::AndThen(..)
        ) {
            *self.stats.ext_nodes.entry(node.kind()).or_insert(0) += 1;
        }
        let plain = |r: i64| Ok((r, Trig::None));
        match node {
            Node::Effect => {
                self.log(Ev::Effect { node: id })?;
                plain(env)
            }
            Node::GetValue(lane) => {
                let v = self.vals[lane as usize];
                self.log(Ev::Get { node: id, lane, v })?;
                plain(v)
            }
            Node::GetMap(lane) => {
                let map = snap(&self.maps[lane as usize]);
                let d = map_digest(&map);
                self.log(Ev::GetMap { node: id, lane, map })?;
                plain(d)
            }
            Node::SetValue(lane, e) => {
                let v = e.eval(env);
                self.log(Ev::Set { node: id, lane, v })?;
                let t = self.apply_set(lane, v);
                self.modified(v, t, tail)
            }
            Node::Update(lane, k, e) => {
                let (key, v) = (k.eval(env), e.eval(env));
                self.log(Ev::Update { node: id, lane, key, v })?;
                let t = self.apply_update(lane, key, v);
                self.modified(v, t, tail)
            }
            Node::Remove(lane, k) => {
                let key = k.eval(env);
                self.log(Ev::Remove { node: id, lane, key })?;
                let t = self.apply_remove(lane, key);
                self.modified(env, t, tail)
            }
            Node::Clear(lane) => {
                self.log(Ev::Clear { node: id, lane })?;
                let t = self.apply_clear(lane);
                self.modified(env, t, tail)
            }
            Node::Command2(e) => {
                let v = e.eval(env);
                self.log(Ev::Cmd2 { node: id, v })?;
                self.modified(v, Trig::Cmd2 { v }, tail)
            }
            Node::Fail => {
                self.log(Ev::Fail { node: id })?;
                self.stats.fails_reached += 1;
                Err(Abort::Fail)
            }
            Node::Stop => {
                self.log(Ev::StopLeaf { node: id })?;
                self.stats.stops_reached += 1;
                Err(Abort::Stop)
            }
            Node::Suspend(child) => {
                self.log(Ev::Suspend { node: id })?;
                self.stats.suspends += 1;
                self.pending.push(Pending { node: id, child, env });
                plain(env)
            }
            Node::FollowedBy(a, b) => {
                self.exec(a, env)?;
                self.exec_inner(b, env, tail)
            }
            Node::AndThen(a, b) => {
                let r = self.exec(a, env)?;
                self.exec_inner(b, r, tail)
            }
            // ---- extension: the other documented combinators -----------------------------------
            Node::AndThenCtx(a, lane, b) => {
                let (r, owed) = self.first_operand(a, env)?;
                // The function is applied: it reads the item from the agent it is given.
                let v = self.vals[lane as usize];
                self.fire(owed)?;
                self.log(Ev::CtxRead { node: id, lane, v })?;
                self.exec_inner(b, r, tail)
            }
            Node::AndThenTry(a, modulus, b) => {
                let (r, owed) = self.first_operand(a, env)?;
                if try_fails(modulus, r) {
                    // "returns an error if the function fails".
                    self.stats.try_fn_failed += 1;
                    self.stats.fails_reached += 1;
                    if !matches!(owed, Trig::None) {
                        self.stats.trigger_dropped_by_failed_try += 1;
                        self.dropped_in_chain = true;
                    }
                    // (A key that was cued stays queued although its report was lost.)
                    if let Trig::CueKey { key } = owed {
                        if !self.policy.cue_key_always_nested && !self.dm_queue.contains(&key) {
                            self.dm_queue.push(key);
                        }
                    }
                    return Err(Abort::Fail);
                }
                self.fire(owed)?;
                self.exec_inner(b, r, tail)
            }
            Node::Join(a, b) => {
                let x = self.exec(a, env).inspect_err(|e| self.stats.join_operand_failed += matches!(e, Abort::Fail) as u64)?;
                let (y, t) = self.exec_inner(b, env, tail).inspect_err(|e| self.stats.join_operand_failed += matches!(e, Abort::Fail) as u64)?;
                Ok((combine2(x, y), t))
            }
            Node::Join3(a, b, c) => {
                let x = self.exec(a, env).inspect_err(|e| self.stats.join_operand_failed += matches!(e, Abort::Fail) as u64)?;
                let y = self.exec(b, env).inspect_err(|e| self.stats.join_operand_failed += matches!(e, Abort::Fail) as u64)?;
                let (z, t) = self.exec_inner(c, env, tail).inspect_err(|e| self.stats.join_operand_failed += matches!(e, Abort::Fail) as u64)?;
                Ok((combine3(x, y, z), t))
            }
            Node::Opt(None) => {
                self.stats.opt_none += 1;
                plain(env)
            }
            Node::Opt(Some(c)) => self.exec_inner(c, env, tail),
            Node::Effects(n) => {
                for i in 0..n {
                    self.log(Ev::EffectItem { node: id, i })?;
                }
                plain(env.wrapping_add(n as i64))
            }
            Node::Seq(i) => {
                // "runs a sequence of event handlers"; an element that fails ends the sequence.
                let children = self.prog.seqs[i as usize].clone();
                let mut owed = Trig::None;
                for (j, c) in children.iter().enumerate() {
                    let last = j + 1 == children.len();
                    let (_, t) = self.exec_inner(*c, env, tail && last).inspect_err(|e| self.stats.seq_element_failed += matches!(e, Abort::Fail) as u64)?;
                    owed = t;
                }
                Ok((env, owed))
            }
            Node::GetParam(name) => {
                let value = match PARAM_NAMES[name as usize] {
                    "id" => Some(self.prog.param_id.to_string()),
                    "zone" => Some(PARAM_ZONE.to_string()),
                    _ => None,
                };
                let r = param_result(&value);
                self.log(Ev::Param { node: id, name, value })?;
                plain(r)
            }
            Node::WithParams => {
                let pid = self.prog.param_id;
                self.log(Ev::Params { node: id, n: 2, id: pid })?;
                plain(2000 + pid)
            }
            Node::GetUri => {
                self.log(Ev::Uri { node: id, uri: AGENT_URI.to_string() })?;
                plain(env)
            }
            Node::Timer { delay, id: timer } => {
                self.log(Ev::TimerSet { node: id, id: timer, delay })?;
                self.stats.timers_scheduled += 1;
                self.timers.push((self.now + delay as u64, timer));
                plain(env)
            }
            // ---- extension: other lane kinds ----------------------------------------------------
            Node::Cue => {
                self.log(Ev::Cue { node: id })?;
                self.stats.cues += 1;
                self.modified(env, Trig::Cue, tail)
            }
            Node::CueKey(k) => {
                let key = k.eval(env);
                self.log(Ev::CueKey { node: id, key })?;
                self.stats.cue_keys += 1;
                self.modified(env, Trig::CueKey { key }, tail)
            }
            Node::OpenLane(child) => {
                self.log(Ev::OpenLane { node: id })?;
                self.opened.push((id, child));
                plain(env)
            }
        }
    }

    /// A command received from a remote: the lane's own handler (no leaf record) plus what it
    /// triggers.
    fn input(&mut self, input: Input) -> Result<(), Abort> {
        self.stats.inputs_handled += 1;
        match input {
            Input::Cmd { prog, arg } => self.handler(Event::Command(prog), Ev::Command { prog, arg }, arg),
            Input::SetV { lane, v } => self.set_value(lane, v),
            Input::Upd { lane, k, v } => self.update(lane, k, v),
            Input::Rem { lane, k } => self.remove(lane, k),
            Input::Clr { lane } => self.clear(lane),
            // A demand lane has no state: "triggers when it is explicitly cued or an external
            // sync request is received".
            Input::Sync(Lane::Dem) => {
                self.stats.demand_syncs += 1;
                self.fire(Trig::Cue)
            }
            // "`keys`: triggers each time a downlink attempts to sync with the lane", then
            // `on_cue_key` "once for each defined key".
            Input::Sync(Lane::DemMap) => {
                self.stats.demand_map_syncs += 1;
                if self.policy.cue_key_always_nested {
                    self.triggered(Event::Keys, Ev::Keys, 0)?;
                    self.triggered(Event::OnCueKey, Ev::OnCueKey { key: SYNC_KEY }, SYNC_KEY as i64)
                } else {
                    self.dm_sync_requested = true;
                    self.dm_dirty = true;
                    self.dm_item_event(true)
                }
            }
            // No state change: no lifecycle handler.
            Input::Sync(_) => {
                self.stats.syncs += 1;
                Ok(())
            }
        }
    }

    fn fire_gate(&mut self, i: usize) -> Option<Result<(), Abort>> {
        if self.pending.is_empty() {
            return None;
        }
        let p = self.pending.remove(i % self.pending.len());
        self.stats.fired += 1;
        Some((|| {
            self.log(Ev::Resume { node: p.node })?;
            self.exec(p.child, p.env).map(|_| ())
        })())
    }
}

/// What the loop over the script does after a top-level handler ended.
#[derive(Clone, Copy, PartialEq, Eq)]
enum Next {
    Continue,
    Shutdown,
    Dead,
    Overflow,
}

impl<'a> Machine<'a> {
    /// `external`: the handler was started by a command frame from a remote.
    fn classify(&mut self, r: Result<(), Abort>, external: bool) -> Next {
        let dropped = std::mem::take(&mut self.dropped_in_chain);
        if dropped && matches!(r, Err(Abort::Fail)) && external && !self.policy.external_fail_fatal && self.stats.tainted_at.is_none() {
            self.stats.tainted_at = Some(self.trace.len());
        }
        match r {
            Ok(()) => Next::Continue,
            Err(Abort::Stop) => Next::Shutdown,
            Err(Abort::Budget) => Next::Overflow,
            Err(Abort::Fail) => {
                if (external && !self.policy.external_fail_fatal) || (!external && self.policy.mutation == 4) {
                    self.stats.fails_swallowed += 1;
                    Next::Continue
                } else {
                    Next::Dead
                }
            }
        }
    }

    /// After a top-level handler (`cue_key_always_nested == false` only): the computed value is
    /// written, then the keys cued meanwhile get their `on_cue_key`, one value at a time, each as
    /// a handler of its own.
    fn after_top_level(&mut self, mut next: Next) -> Next {
        if !std::mem::take(&mut self.dm_dirty) {
            return next;
        }
        while next == Next::Continue && self.dm_pending {
            self.dm_pending = false;
            if self.dm_queue.is_empty() && self.dm_sync_queues.is_empty() && !self.dm_sync_requested {
                break;
            }
            self.stats.demand_map_event_after_write += 1;
            let r = self.dm_item_event(false);
            // (Reported again as having something to write by the handler itself.)
            next = self.classify(r, false);
        }
        next
    }

    /// The harness lets `ms` of virtual time pass with the agent quiescent: the timers that become
    /// due run in the order of their deadlines, each `on_timer` as a handler of its own.
    fn advance(&mut self, ms: u64) -> Next {
        let target = self.now + ms;
        let mut next = Next::Continue;
        while next == Next::Continue {
            let Some(deadline) = self.timers.iter().map(|t| t.0).filter(|d| *d <= target).min() else { break };
            let due: Vec<usize> = (0..self.timers.len()).filter(|i| self.timers[*i].0 == deadline).collect();
            if due.len() > 1 {
                self.stats.timer_ties += 1;
            }
            let (_, id) = self.timers.remove(due[0]);
            self.now = self.now.max(deadline);
            self.stats.timers_fired += 1;
            let r = self.handler(Event::Timer(id), Ev::OnTimer { id: id as u64 }, id as i64);
            next = self.classify(r, false);
            next = self.after_top_level(next);
        }
        if next == Next::Continue {
            self.now = target;
        }
        next
    }
}

pub fn run(prog: &Program, script: &[Step], policy: Policy, budget: usize) -> RefRun {
    let mut m = Machine {
        prog,
        policy,
        vals: [0; N_VAL],
        maps: Default::default(),
        trace: vec![],
        pending: vec![],
        depth: 0,
        budget,
        stats: Stats::default(),
        now: 0,
        timers: vec![],
        opened: vec![],
        dm_pending: false,
        dm_queue: vec![],
        dm_dirty: false,
        dm_sync_requested: false,
        dm_sync_queues: vec![],
        dm_sync_turn: false,
        dm_sync_index: 0,
        dropped_in_chain: false,
    };
    let done = |mut m: Machine, end: End, overflow: bool| {
        let failed_at = if end == End::Failed { Some(m.trace.len()) } else { None };
        m.stats.timers_dropped_at_stop = m.timers.len() as u64;
        RefRun { trace: m.trace, end, stats: m.stats, overflow, failed_at }
    };
    // on_start, then the handlers of the `open_lane` requests it made (still part of starting:
    // a failure or `stop` there fails the start as well).
    let mut started = m.handler(Event::Start, Ev::Start, 0);
    if started.is_ok() {
        for (node, child) in std::mem::take(&mut m.opened) {
            m.stats.lanes_opened += 1;
            started = (|| {
                m.log(Ev::LaneOpened { node })?;
                m.exec(child, 0).map(|_| ())
            })();
            if started.is_err() {
                break;
            }
        }
    }
    match started {
        Ok(()) => {}
        Err(Abort::Fail) => return done(m, End::Failed, false),
        Err(Abort::Stop) => return done(m, End::FailedToStart, false),
        Err(Abort::Budget) => return done(m, End::Clean, true),
    }
    // (Other reading of `cue_key` only: what was reported during the start is not written.)
    m.dm_dirty = false;
    // The harness waits for quiescence before it attaches the remote.
    let mut next = m.advance(SETTLE_MS);
    if next == Next::Continue {
        'script: for step in script {
            match *step {
                Step::Settle => next = m.advance(SETTLE_MS),
                Step::Send(input) => {
                    let r = m.input(input);
                    // (The known deviation concerns command frames only; a sync request can only
                    // fail in the `on_cue` it triggers, and that is fatal as documented.)
                    next = m.classify(r, !matches!(input, Input::Sync(_)));
                    next = m.after_top_level(next);
                }
                Step::Fire(i) => {
                    if let Some(r) = m.fire_gate(i as usize) {
                        next = m.classify(r, false);
                        next = m.after_top_level(next);
                    }
                }
                Step::FireAll(n) => {
                    for _ in 0..n {
                        match m.fire_gate(0) {
                            Some(r) => {
                                next = m.classify(r, false);
                                next = m.after_top_level(next);
                            }
                            None => break,
                        }
                        if next == Next::Continue {
                            next = m.advance(SETTLE_MS);
                        }
                        if next != Next::Continue {
                            break;
                        }
                    }
                }
            }
            if next != Next::Continue {
                break 'script;
            }
        }
        // The harness settles twice before it asks the agent to stop.
        for _ in 0..2 {
            if next == Next::Continue {
                next = m.advance(SETTLE_MS);
            }
        }
    }
    match next {
        Next::Dead => return done(m, End::Failed, false),
        Next::Overflow => return done(m, End::Clean, true),
        Next::Continue | Next::Shutdown => {}
    }
    // on_stop, then the fixed probe of the final lane states (part of the same handler, so it is
    // skipped if the tree ends in `stop`/`fail`).
    match m.handler(Event::Stop, Ev::Stop, 0) {
        Ok(()) => {
            for lane in 0..N_VAL as u8 {
                let v = m.vals[lane as usize];
                m.trace.push(Ev::FinalV { lane, v });
            }
            for lane in 0..N_MAP as u8 {
                let map = snap(&m.maps[lane as usize]);
                m.trace.push(Ev::FinalM { lane, map });
            }
            done(m, End::Clean, false)
        }
        Err(Abort::Stop) => done(m, End::Clean, false),
        Err(Abort::Fail) => done(m, End::Failed, false),
        Err(Abort::Budget) => done(m, End::Clean, true),
    }
}
