//! Reference interpreter of the *documented* handler semantics (docs/event_handler.md "How event
//! handlers are executed", docs/lifecycle.md, and the rustdoc of `HandlerContext::{stop, fail}`):
//!
//! * a handler runs until it completes, fails, or yields having modified a lane; on a
//!   modification the handlers attached to that lane run *recursively until they complete or
//!   fail*, then the original handler resumes (depth-first);
//! * value lane: `on_event(new)` first, then `on_set(new, previous)`; map lane: `on_update(map
//!   after, key, previous, new)`, `on_remove(map after, key, previous)` only "when an entry is
//!   removed", `on_clear(previous map)`;
//! * `on_start` first; `on_stop` last (plus whatever it triggers);
//! * a failure stops *all* execution and the agent fails (no `on_stop`);
//! * `stop`: the executing handler terminates, `on_stop` still runs; in `on_start` the agent fails
//!   to start; in `on_stop` the agent stops immediately;
//! * a suspended future's handler is run "as with any other event handler" when it completes.
//!
//! `Policy` isolates the points where the documentation can be read two ways (tolerated either
//! way, see `main.rs`) and one known deviation of the implementation (reported under its own
//! signature so that it does not mask everything else).

use std::collections::BTreeMap;

use crate::program::{map_digest, Ev, Event, Input, MapSnap, Node, NodeId, Program, Step, N_MAP, N_VAL};

#[derive(Clone, Copy, Debug, PartialEq, Eq)]
pub struct Policy {
    /// "A value lane generates events each time a new value is set": a set to the current value
    /// still triggers `on_event`/`on_set` (documented reading: true).
    pub same_value_set_triggers: bool,
    /// "`on_clear`: triggered when the contents of the map are cleared": clearing an empty map
    /// still triggers (documented reading: true).
    pub clear_empty_triggers: bool,
    /// "Fail with an error. In this case all execution will stop and the agent will fail."
    /// false = a failure reached while handling a command *received from a remote* only aborts
    /// that handler chain and the agent carries on (not documented anywhere).
    pub external_fail_fatal: bool,
    /// Self-test only (`--self-test 1`): deliberately *wrong* semantics, to see that the
    /// comparison notices and names them. 0 = none; 1 = on_set before on_event; 2 = on_set gets
    /// the new value as previous; 3 = on_update never gets a previous value; 4 = a failure in a
    /// resumed suspended handler is not fatal; 5 = value-lane handlers triggered twice.
    pub mutation: u32,
}

impl Policy {
    pub const DOCUMENTED: Policy = Policy { same_value_set_triggers: true, clear_empty_triggers: true, external_fail_fatal: true, mutation: 0 };
}

#[derive(Clone, Copy, Debug, PartialEq, Eq)]
pub enum End {
    /// `on_stop` ran (to completion or to a `stop`): clean result.
    Clean,
    /// A failure was reached: the agent task must end with an error.
    Failed,
    /// `stop` during `on_start`: documented as "it will fail to start at all".
    FailedToStart,
}

#[derive(Clone, Debug, Default)]
pub struct Stats {
    pub max_depth: u32,
    /// Histogram of the nesting depth at which lifecycle handlers were entered.
    pub depth_hist: [u64; 10],
    pub fails_reached: u64,
    pub fails_swallowed: u64,
    pub stops_reached: u64,
    pub fired: u64,
    pub same_value_sets: u64,
    pub clear_empty: u64,
    pub remove_absent: u64,
    pub inputs_handled: u64,
    pub suspends: u64,
    pub syncs: u64,
}

#[derive(Clone, Debug)]
pub struct RefRun {
    pub trace: Vec<Ev>,
    pub end: End,
    pub stats: Stats,
    /// The step budget was exhausted (the case is regenerated, never judged).
    pub overflow: bool,
    /// Index in `trace` after which nothing may be observed because a failure was reached.
    pub failed_at: Option<usize>,
}

enum Abort {
    Fail,
    Stop,
    Budget,
}

struct Pending {
    node: NodeId,
    child: NodeId,
    env: i64,
}

struct Machine<'a> {
    prog: &'a Program,
    policy: Policy,
    vals: [i64; N_VAL],
    maps: [BTreeMap<i32, i64>; N_MAP],
    trace: Vec<Ev>,
    pending: Vec<Pending>,
    depth: u32,
    budget: usize,
    stats: Stats,
}

fn snap(m: &BTreeMap<i32, i64>) -> MapSnap {
    m.iter().map(|(k, v)| (*k, *v)).collect()
}

impl<'a> Machine<'a> {
    fn log(&mut self, ev: Ev) -> Result<(), Abort> {
        if self.trace.len() >= self.budget {
            return Err(Abort::Budget);
        }
        self.trace.push(ev);
        Ok(())
    }

    /// Run the handler attached to a lifecycle event: its entry record, then its tree (if any).
    fn handler(&mut self, event: Event, entry: Ev, env: i64) -> Result<(), Abort> {
        self.log(entry)?;
        if let Some(root) = self.prog.table.get(&event).copied() {
            self.exec(root, env)?;
        }
        Ok(())
    }

    /// A handler triggered by a lane change: runs nested inside the handler that made the change.
    fn triggered(&mut self, event: Event, entry: Ev, env: i64) -> Result<(), Abort> {
        self.depth += 1;
        self.stats.max_depth = self.stats.max_depth.max(self.depth);
        self.stats.depth_hist[(self.depth as usize).min(9)] += 1;
        let r = self.handler(event, entry, env);
        self.depth -= 1;
        r
    }

    fn set_value(&mut self, lane: u8, v: i64) -> Result<(), Abort> {
        let prev = std::mem::replace(&mut self.vals[lane as usize], v);
        if prev == v {
            self.stats.same_value_sets += 1;
            if !self.policy.same_value_set_triggers {
                return Ok(());
            }
        }
        // on_event first, then on_set with the replaced value; both run to completion before the
        // modifying handler resumes.
        match self.policy.mutation {
            1 => {
                self.triggered(Event::OnSet(lane), Ev::OnSet { lane, new: v, prev: Some(prev) }, v)?;
                return self.triggered(Event::OnEvent(lane), Ev::OnEvent { lane, new: v }, v);
            }
            2 => {
                self.triggered(Event::OnEvent(lane), Ev::OnEvent { lane, new: v }, v)?;
                return self.triggered(Event::OnSet(lane), Ev::OnSet { lane, new: v, prev: Some(v) }, v);
            }
            5 => {
                self.triggered(Event::OnEvent(lane), Ev::OnEvent { lane, new: v }, v)?;
                self.triggered(Event::OnSet(lane), Ev::OnSet { lane, new: v, prev: Some(prev) }, v)?;
            }
            _ => {}
        }
        self.triggered(Event::OnEvent(lane), Ev::OnEvent { lane, new: v }, v)?;
        self.triggered(Event::OnSet(lane), Ev::OnSet { lane, new: v, prev: Some(prev) }, v)
    }

    fn update(&mut self, lane: u8, key: i32, v: i64) -> Result<(), Abort> {
        let mut prev = self.maps[lane as usize].insert(key, v);
        if self.policy.mutation == 3 {
            prev = None;
        }
        let map = snap(&self.maps[lane as usize]);
        self.triggered(Event::OnUpdate(lane), Ev::OnUpdate { lane, key, prev, new: v, map }, v)
    }

    fn remove(&mut self, lane: u8, key: i32) -> Result<(), Abort> {
        match self.maps[lane as usize].remove(&key) {
            Some(prev) => {
                let map = snap(&self.maps[lane as usize]);
                self.triggered(Event::OnRemove(lane), Ev::OnRemove { lane, key, prev, map }, prev)
            }
            None => {
                // "Triggered when an entry is removed": nothing was removed.
                self.stats.remove_absent += 1;
                Ok(())
            }
        }
    }

    fn clear(&mut self, lane: u8) -> Result<(), Abort> {
        let prev = std::mem::take(&mut self.maps[lane as usize]);
        if prev.is_empty() {
            self.stats.clear_empty += 1;
            if !self.policy.clear_empty_triggers {
                return Ok(());
            }
        }
        let n = prev.len() as i64;
        self.triggered(Event::OnClear(lane), Ev::OnClear { lane, prev: snap(&prev) }, n)
    }

    fn exec(&mut self, id: NodeId, env: i64) -> Result<i64, Abort> {
        match self.prog.node(id) {
            Node::Effect => {
                self.log(Ev::Effect { node: id })?;
                Ok(env)
            }
            Node::GetValue(lane) => {
                let v = self.vals[lane as usize];
                self.log(Ev::Get { node: id, lane, v })?;
                Ok(v)
            }
            Node::GetMap(lane) => {
                let map = snap(&self.maps[lane as usize]);
                let d = map_digest(&map);
                self.log(Ev::GetMap { node: id, lane, map })?;
                Ok(d)
            }
            Node::SetValue(lane, e) => {
                let v = e.eval(env);
                self.log(Ev::Set { node: id, lane, v })?;
                self.set_value(lane, v)?;
                Ok(v)
            }
            Node::Update(lane, k, e) => {
                let (key, v) = (k.eval(env), e.eval(env));
                self.log(Ev::Update { node: id, lane, key, v })?;
                self.update(lane, key, v)?;
                Ok(v)
            }
            Node::Remove(lane, k) => {
                let key = k.eval(env);
                self.log(Ev::Remove { node: id, lane, key })?;
                self.remove(lane, key)?;
                Ok(env)
            }
            Node::Clear(lane) => {
                self.log(Ev::Clear { node: id, lane })?;
                self.clear(lane)?;
                Ok(env)
            }
            Node::Command2(e) => {
                let v = e.eval(env);
                self.log(Ev::Cmd2 { node: id, v })?;
                self.triggered(Event::Command2, Ev::Command2 { arg: v }, v)?;
                Ok(v)
            }
            Node::Fail => {
                self.log(Ev::Fail { node: id })?;
                self.stats.fails_reached += 1;
                Err(Abort::Fail)
            }
            Node::Stop => {
                self.log(Ev::StopLeaf { node: id })?;
                self.stats.stops_reached += 1;
                Err(Abort::Stop)
            }
            Node::Suspend(child) => {
                self.log(Ev::Suspend { node: id })?;
                self.stats.suspends += 1;
                self.pending.push(Pending { node: id, child, env });
                Ok(env)
            }
            Node::FollowedBy(a, b) => {
                self.exec(a, env)?;
                self.exec(b, env)
            }
            Node::AndThen(a, b) => {
                let r = self.exec(a, env)?;
                self.exec(b, r)
            }
        }
    }

    /// A command received from a remote: the lane's own handler (no leaf record) plus what it
    /// triggers.
    fn input(&mut self, input: Input) -> Result<(), Abort> {
        self.stats.inputs_handled += 1;
        match input {
            Input::Cmd { prog, arg } => self.handler(Event::Command(prog), Ev::Command { prog, arg }, arg),
            Input::SetV { lane, v } => self.set_value(lane, v),
            Input::Upd { lane, k, v } => self.update(lane, k, v),
            Input::Rem { lane, k } => self.remove(lane, k),
            Input::Clr { lane } => self.clear(lane),
            // No state change: no lifecycle handler.
            Input::Sync(_) => {
                self.stats.syncs += 1;
                Ok(())
            }
        }
    }

    fn fire(&mut self, i: usize) -> Option<Result<(), Abort>> {
        if self.pending.is_empty() {
            return None;
        }
        let p = self.pending.remove(i % self.pending.len());
        self.stats.fired += 1;
        Some((|| {
            self.log(Ev::Resume { node: p.node })?;
            self.exec(p.child, p.env).map(|_| ())
        })())
    }
}

/// What the loop over the script does after a top-level handler ended.
enum Next {
    Continue,
    Shutdown,
    Dead,
    Overflow,
}

pub fn run(prog: &Program, script: &[Step], policy: Policy, budget: usize) -> RefRun {
    let mut m = Machine {
        prog,
        policy,
        vals: [0; N_VAL],
        maps: Default::default(),
        trace: vec![],
        pending: vec![],
        depth: 0,
        budget,
        stats: Stats::default(),
    };
    let done = |m: Machine, end: End, overflow: bool| {
        let failed_at = if end == End::Failed { Some(m.trace.len()) } else { None };
        RefRun { trace: m.trace, end, stats: m.stats, overflow, failed_at }
    };
    match m.handler(Event::Start, Ev::Start, 0) {
        Ok(()) => {}
        Err(Abort::Fail) => return done(m, End::Failed, false),
        Err(Abort::Stop) => return done(m, End::FailedToStart, false),
        Err(Abort::Budget) => return done(m, End::Clean, true),
    }
    let mut next = Next::Continue;
    // `external`: the handler was started by a command frame from a remote.
    let classify = |m: &mut Machine, r: Result<(), Abort>, external: bool| match r {
        Ok(()) => Next::Continue,
        Err(Abort::Stop) => Next::Shutdown,
        Err(Abort::Budget) => Next::Overflow,
        Err(Abort::Fail) => {
            if (external && !m.policy.external_fail_fatal) || (!external && m.policy.mutation == 4) {
                m.stats.fails_swallowed += 1;
                Next::Continue
            } else {
                Next::Dead
            }
        }
    };
    'script: for step in script {
        match *step {
            Step::Settle => {}
            Step::Send(input) => {
                let r = m.input(input);
                next = classify(&mut m, r, true);
            }
            Step::Fire(i) => {
                if let Some(r) = m.fire(i as usize) {
                    next = classify(&mut m, r, false);
                }
            }
            Step::FireAll(n) => {
                for _ in 0..n {
                    match m.fire(0) {
                        Some(r) => next = classify(&mut m, r, false),
                        None => break,
                    }
                    if !matches!(next, Next::Continue) {
                        break;
                    }
                }
            }
        }
        if !matches!(next, Next::Continue) {
            break 'script;
        }
    }
    match next {
        Next::Dead => return done(m, End::Failed, false),
        Next::Overflow => return done(m, End::Clean, true),
        Next::Continue | Next::Shutdown => {}
    }
    // on_stop, then the fixed probe of the final lane states (part of the same handler, so it is
    // skipped if the tree ends in `stop`/`fail`).
    match m.handler(Event::Stop, Ev::Stop, 0) {
        Ok(()) => {
            for lane in 0..N_VAL as u8 {
                let v = m.vals[lane as usize];
                m.trace.push(Ev::FinalV { lane, v });
            }
            for lane in 0..N_MAP as u8 {
                let map = snap(&m.maps[lane as usize]);
                m.trace.push(Ev::FinalM { lane, map });
            }
            done(m, End::Clean, false)
        }
        Err(Abort::Stop) => done(m, End::Clean, false),
        Err(Abort::Fail) => done(m, End::Failed, false),
        Err(Abort::Budget) => done(m, End::Clean, true),
    }
}
