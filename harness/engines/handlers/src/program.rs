//! Handler programs: a table `event -> handler tree` over the combinators documented in
//! `docs/event_handler.md`, the trace vocabulary shared by the real lifecycle and the reference
//! interpreter, the input scripts, and the seeded generators for all of them.
//!
//! Acyclicity: the lanes are totally ordered (`Lane::order`); a tree attached to an event of lane
//! `i` only modifies lanes `j > i`, so every cascade of triggered handlers terminates (the docs say
//! explicitly that there is no guard against infinite chains).

use std::collections::BTreeMap;

use common::Rng;

/// Value-like items: value lanes v0, v1, v2 and the value store s0 (index 3).
pub const N_VAL: usize = 4;
/// Map-like items: map lanes m0 (HashMap), m1 (BTreeMap) and the map store ms0 (index 2).
pub const N_MAP: usize = 3;
/// The items a remote can address (the stores are internal to the agent).
pub const N_VAL_LANES: usize = 3;
pub const N_MAP_LANES: usize = 2;
/// Keys of the map lanes are drawn from `0..KEYS` so that removes hit and updates overwrite.
pub const KEYS: i64 = 3;

pub type NodeId = u32;

#[derive(Clone, Copy, Debug, PartialEq, Eq, Hash)]
pub enum Lane {
    Cmd,
    Val(u8),
    Map(u8),
    Cmd2,
    /// The demand lane `d0` (`context.cue`, `on_cue`).
    Dem,
    /// The demand-map lane `dm0` (`context.cue_key`, `on_cue_key`).
    DemMap,
}

impl Lane {
    /// Position in the acyclicity order:
    /// cmd < v0 < m0 < d0 < v1 < m1 < dm0 < v2 < s0 < ms0 < cmd2.
    pub fn order(self) -> usize {
        match self {
            Lane::Cmd => 0,
            Lane::Val(0) => 10,
            Lane::Map(0) => 20,
            Lane::Dem => 25,
            Lane::Val(1) => 30,
            Lane::Map(1) => 40,
            Lane::DemMap => 45,
            Lane::Val(2) => 50,
            Lane::Val(_) => 60,
            Lane::Map(_) => 70,
            Lane::Cmd2 => 80,
        }
    }

    /// Kind of item, for signatures.
    pub fn kind(self) -> &'static str {
        match self {
            Lane::Cmd | Lane::Cmd2 => "command",
            Lane::Val(i) if (i as usize) < N_VAL_LANES => "value",
            Lane::Val(_) => "value-store",
            Lane::Map(i) if (i as usize) < N_MAP_LANES => "map",
            Lane::Map(_) => "map-store",
            Lane::Dem => "demand",
            Lane::DemMap => "demand-map",
        }
    }
}

/// Value written by a modifying leaf: a constant, the handler's input (the event argument or the
/// result handed over by `and_then`), or the input plus a constant.
#[derive(Clone, Copy, Debug, PartialEq, Eq, Hash)]
pub enum Expr {
    Const(i64),
    Env,
    EnvPlus(i64),
}

impl Expr {
    pub fn eval(self, env: i64) -> i64 {
        match self {
            Expr::Const(c) => c,
            Expr::Env => env,
            Expr::EnvPlus(c) => env.wrapping_add(c),
        }
    }
}

#[derive(Clone, Copy, Debug, PartialEq, Eq, Hash)]
pub enum Key {
    Const(i32),
    EnvMod,
}

impl Key {
    pub fn eval(self, env: i64) -> i32 {
        match self {
            Key::Const(k) => k,
            Key::EnvMod => env.rem_euclid(KEYS) as i32,
        }
    }
}

#[derive(Clone, Copy, Debug, PartialEq, Eq, Hash)]
pub enum Node {
    /// `context.effect(..)`; completes with the input.
    Effect,
    /// `context.get_value(v<i>)`; completes with the value read.
    GetValue(u8),
    /// `context.get_map(m<i>)`; completes with a digest of the map read.
    GetMap(u8),
    /// `context.set_value(v<i>, e)`; completes with the value written.
    SetValue(u8, Expr),
    /// `context.update(m<i>, k, e)`; completes with the value written.
    Update(u8, Key, Expr),
    /// `context.remove(m<i>, k)`; completes with the input.
    Remove(u8, Key),
    /// `context.clear(m<i>)`; completes with the input.
    Clear(u8),
    /// `context.command(cmd2, e)`; completes with the value sent.
    Command2(Expr),
    /// `context.fail(..)`.
    Fail,
    /// `context.stop()`.
    Stop,
    /// `context.suspend(fut)` where `fut` completes (when the harness fires its gate) with the
    /// handler for the child tree; completes immediately with the input.
    Suspend(NodeId),
    /// `a.followed_by(b)`: both get the same input; completes with `b`'s result.
    FollowedBy(NodeId, NodeId),
    /// `a.and_then(|r| b(r))`: `b`'s input is `a`'s result.
    AndThen(NodeId, NodeId),
    // ---- extension (coverage gap 17): the other documented combinators -------------------------
    /// `a.and_then_contextual(|agent, r| ..)`: like `and_then`, and the function reads value item
    /// `v<lane>` directly from the agent it is given (recorded when the resulting handler runs).
    AndThenCtx(NodeId, u8, NodeId),
    /// `a.and_then_try(|r| ..)`: the function fails (`Err(EventHandlerError::EffectError)`) when
    /// `modulus > 0 && r mod modulus == 0`, otherwise it produces `b(r)`.
    AndThenTry(NodeId, u8, NodeId),
    /// `join(a, b)`: both get the same input; completes with `combine2` of the two results.
    Join(NodeId, NodeId),
    /// `join3(a, b, c)`.
    Join3(NodeId, NodeId, NodeId),
    /// `Option<H>` as a handler: `Some(child)` runs the child and completes with its result,
    /// `None` completes at once (with the input).
    Opt(Option<NodeId>),
    /// `SideEffects` over an iterator of `n` logging items; completes with input + n.
    Effects(u8),
    /// `Sequentially::new([..])` over the handlers of `Program::seqs[i]` (each discarded);
    /// completes with the input.
    Seq(u32),
    /// `context.get_parameter(PARAM_NAMES[i])`; completes with `param_result`.
    GetParam(u8),
    /// `context.with_parameters(..)`; completes with `count * 1000 + id`.
    WithParams,
    /// `context.get_agent_uri()`; completes with the input.
    GetUri,
    /// `context.schedule_timer_event(delay ms, id)`; completes with the input.
    Timer { delay: u8, id: u8 },
    // ---- extension (coverage gap 18): other lane kinds ------------------------------------------
    /// `context.cue(d0)`; completes with the input.
    Cue,
    /// `context.cue_key(dm0, k)`; completes with the input.
    CueKey(Key),
    /// `context.open_value_lane("dyn<id>", on_done)` where `on_done` produces the handler for the
    /// child tree (only generated for `on_start`); completes with the input.
    OpenLane(NodeId),
}

/// Names asked for by `GetParam`; the agent runs with the route parameters `id` and `zone`.
pub const PARAM_NAMES: [&str; 3] = ["id", "zone", "missing"];
pub const PARAM_ZONE: &str = "north";
/// The one key the `keys` handler of the demand-map lane reports to a syncing remote.
pub const SYNC_KEY: i32 = 1;

pub fn combine2(a: i64, b: i64) -> i64 {
    a.wrapping_mul(3).wrapping_add(b)
}

pub fn combine3(a: i64, b: i64, c: i64) -> i64 {
    a.wrapping_mul(5).wrapping_add(b.wrapping_mul(3)).wrapping_add(c)
}

/// The completion value of a `GetParam` node, from what `get_parameter` returned.
pub fn param_result(v: &Option<String>) -> i64 {
    match v {
        None => -1,
        Some(s) => s.parse::<i64>().unwrap_or(s.len() as i64),
    }
}

pub fn try_fails(modulus: u8, r: i64) -> bool {
    modulus > 0 && r.rem_euclid(modulus as i64) == 0
}

impl Node {
    pub fn kind(&self) -> &'static str {
        match self {
            Node::Effect => "effect",
            Node::GetValue(_) => "get_value",
            Node::GetMap(_) => "get_map",
            Node::SetValue(..) => "set_value",
            Node::Update(..) => "update",
            Node::Remove(..) => "remove",
            Node::Clear(_) => "clear",
            Node::Command2(_) => "command",
            Node::Fail => "fail",
            Node::Stop => "stop",
            Node::Suspend(_) => "suspend",
            Node::FollowedBy(..) => "followed_by",
            Node::AndThen(..) => "and_then",
            Node::AndThenCtx(..) => "and_then_contextual",
            Node::AndThenTry(..) => "and_then_try",
            Node::Join(..) => "join",
            Node::Join3(..) => "join3",
            Node::Opt(_) => "option",
            Node::Effects(_) => "side_effects",
            Node::Seq(_) => "sequentially",
            Node::GetParam(_) => "get_parameter",
            Node::WithParams => "with_parameters",
            Node::GetUri => "get_agent_uri",
            Node::Timer { .. } => "schedule_timer_event",
            Node::Cue => "cue",
            Node::CueKey(_) => "cue_key",
            Node::OpenLane(_) => "open_lane",
        }
    }
}

#[derive(Clone, Copy, Debug, PartialEq, Eq, Hash, PartialOrd, Ord)]
pub enum Event {
    Start,
    Stop,
    /// `on_command(cmd)` for program id `p`.
    Command(u32),
    /// `on_command(cmd2)`.
    Command2,
    OnEvent(u8),
    OnSet(u8),
    OnUpdate(u8),
    OnRemove(u8),
    OnClear(u8),
    /// `on_timer(id)`.
    Timer(u8),
    /// `on_cue(d0)`.
    OnCue,
    /// `on_cue_key(dm0)`.
    OnCueKey,
    /// `keys(dm0)` (never has a tree: it reports the fixed key set).
    Keys,
}

impl Event {
    /// Acyclicity rank of the lane owning the event (`on_start`/`on_stop` rank like `cmd`).
    pub fn owner_order(self) -> usize {
        match self {
            Event::Start | Event::Stop | Event::Command(_) | Event::Timer(_) => Lane::Cmd.order(),
            Event::OnCue => Lane::Dem.order(),
            Event::OnCueKey | Event::Keys => Lane::DemMap.order(),
            Event::Command2 => Lane::Cmd2.order(),
            Event::OnEvent(i) | Event::OnSet(i) => Lane::Val(i).order(),
            Event::OnUpdate(i) | Event::OnRemove(i) | Event::OnClear(i) => Lane::Map(i).order(),
        }
    }
}

#[derive(Clone, Debug, Default)]
pub struct Program {
    pub nodes: Vec<Node>,
    /// Parent of each node (for signatures: "combinator at that node").
    pub parent: Vec<Option<NodeId>>,
    pub table: BTreeMap<Event, NodeId>,
    pub n_progs: u32,
    /// Children of the `Seq` nodes.
    pub seqs: Vec<Vec<NodeId>>,
    /// Value of the route parameter `id` the agent is started with.
    pub param_id: i64,
    /// The program uses node kinds of the extension (a fraction of the programs).
    pub ext: bool,
    /// The program cues keys of the demand-map lane (so a remote may also sync that lane).
    pub cues_keys: bool,
}

impl Program {
    pub fn push(&mut self, n: Node) -> NodeId {
        self.nodes.push(n);
        self.parent.push(None);
        (self.nodes.len() - 1) as NodeId
    }

    pub fn link(&mut self, parent: NodeId, child: NodeId) {
        self.parent[child as usize] = Some(parent);
    }

    pub fn node(&self, id: NodeId) -> Node {
        self.nodes[id as usize]
    }

    /// Kind of the combinator directly above a node ("root" for the root of an event's tree).
    pub fn parent_kind(&self, id: NodeId) -> &'static str {
        match self.parent.get(id as usize).copied().flatten() {
            Some(p) => self.nodes[p as usize].kind(),
            None => "root",
        }
    }

    pub fn render(&self, id: NodeId) -> String {
        match self.node(id) {
            Node::Suspend(c) => format!("#{id}:suspend({})", self.render(c)),
            Node::FollowedBy(a, b) => format!("#{id}:followed_by({}, {})", self.render(a), self.render(b)),
            Node::AndThen(a, b) => format!("#{id}:and_then({}, {})", self.render(a), self.render(b)),
            Node::AndThenCtx(a, l, b) => format!("#{id}:and_then_contextual({}, reads v{l}, {})", self.render(a), self.render(b)),
            Node::AndThenTry(a, m, b) => format!("#{id}:and_then_try({}, fails if r%{m}==0, {})", self.render(a), self.render(b)),
            Node::Join(a, b) => format!("#{id}:join({}, {})", self.render(a), self.render(b)),
            Node::Join3(a, b, c) => format!("#{id}:join3({}, {}, {})", self.render(a), self.render(b), self.render(c)),
            Node::Opt(Some(c)) => format!("#{id}:Some({})", self.render(c)),
            Node::Seq(i) => {
                let cs: Vec<String> = self.seqs[i as usize].iter().map(|c| self.render(*c)).collect();
                format!("#{id}:sequentially[{}]", cs.join(", "))
            }
            Node::OpenLane(c) => format!("#{id}:open_lane(on_done: {})", self.render(c)),
            n => format!("#{id}:{n:?}"),
        }
    }

    pub fn any_node(&self, f: impl Fn(&Node) -> bool) -> bool {
        self.nodes.iter().any(f)
    }

    /// The order of some handlers of this program relative to a *following* input is not fixed by
    /// the documentation (a timer that is due at once; a demand-map key cued while an earlier one
    /// is still to be written): its inputs are sent one at a time, each followed by quiescence.
    pub fn needs_settled_inputs(&self) -> bool {
        self.any_node(|n| matches!(n, Node::CueKey(_) | Node::Timer { delay: 0, .. }))
    }

    pub fn describe(&self) -> Vec<String> {
        self.table.iter().map(|(e, r)| format!("{e:?} => {}", self.render(*r))).collect()
    }
}

// ------------------------------------------------------------------------------------------------
// Trace vocabulary.

pub type MapSnap = Vec<(i32, i64)>;

/// One observation. Lifecycle entries carry the arguments the lifecycle method received; leaves
/// carry the node id and what they read/wrote. Everything is logged from inside a
/// `context.effect` (or a `map` closure of a read), i.e. when the handler *executes*, never when
/// the lifecycle method merely builds the handler.
#[derive(Clone, Debug, PartialEq, Eq, Hash)]
pub enum Ev {
    Start,
    Stop,
    Command { prog: u32, arg: i64 },
    Command2 { arg: i64 },
    OnEvent { lane: u8, new: i64 },
    OnSet { lane: u8, new: i64, prev: Option<i64> },
    OnUpdate { lane: u8, key: i32, prev: Option<i64>, new: i64, map: MapSnap },
    OnRemove { lane: u8, key: i32, prev: i64, map: MapSnap },
    OnClear { lane: u8, prev: MapSnap },
    Effect { node: NodeId },
    Get { node: NodeId, lane: u8, v: i64 },
    GetMap { node: NodeId, lane: u8, map: MapSnap },
    Set { node: NodeId, lane: u8, v: i64 },
    Update { node: NodeId, lane: u8, key: i32, v: i64 },
    Remove { node: NodeId, lane: u8, key: i32 },
    Clear { node: NodeId, lane: u8 },
    Cmd2 { node: NodeId, v: i64 },
    Fail { node: NodeId },
    StopLeaf { node: NodeId },
    Suspend { node: NodeId },
    Resume { node: NodeId },
    /// Final lane states read by a fixed probe appended to the `on_stop` handler.
    FinalV { lane: u8, v: i64 },
    FinalM { lane: u8, map: MapSnap },
    // ---- extension ------------------------------------------------------------------------------
    OnTimer { id: u64 },
    OnCue,
    OnCueKey { key: i32 },
    /// The `keys` handler of the demand-map lane ran (a remote syncs).
    Keys,
    /// The handler produced by the `on_done` callback of `open_lane` started.
    LaneOpened { node: NodeId },
    /// What the function of `and_then_contextual` read from the agent when it was applied.
    CtxRead { node: NodeId, lane: u8, v: i64 },
    /// Item `i` of a `SideEffects` iterator was drawn.
    EffectItem { node: NodeId, i: u8 },
    Param { node: NodeId, name: u8, value: Option<String> },
    Params { node: NodeId, n: u32, id: i64 },
    Uri { node: NodeId, uri: String },
    TimerSet { node: NodeId, id: u8, delay: u8 },
    Cue { node: NodeId },
    CueKey { node: NodeId, key: i32 },
    OpenLane { node: NodeId },
}

impl Ev {
    pub fn kind(&self) -> &'static str {
        match self {
            Ev::Start => "on_start",
            Ev::Stop => "on_stop",
            Ev::Command { .. } => "on_command",
            Ev::Command2 { .. } => "on_command2",
            Ev::OnEvent { .. } => "on_event",
            Ev::OnSet { .. } => "on_set",
            Ev::OnUpdate { .. } => "on_update",
            Ev::OnRemove { .. } => "on_remove",
            Ev::OnClear { .. } => "on_clear",
            Ev::Effect { .. } => "effect",
            Ev::Get { .. } => "get_value",
            Ev::GetMap { .. } => "get_map",
            Ev::Set { .. } => "set_value",
            Ev::Update { .. } => "update",
            Ev::Remove { .. } => "remove",
            Ev::Clear { .. } => "clear",
            Ev::Cmd2 { .. } => "command",
            Ev::Fail { .. } => "fail",
            Ev::StopLeaf { .. } => "stop",
            Ev::Suspend { .. } => "suspend",
            Ev::Resume { .. } => "resume",
            Ev::FinalV { .. } => "final_value",
            Ev::FinalM { .. } => "final_map",
            Ev::OnTimer { .. } => "on_timer",
            Ev::OnCue => "on_cue",
            Ev::OnCueKey { .. } => "on_cue_key",
            Ev::Keys => "keys",
            Ev::LaneOpened { .. } => "lane_opened",
            Ev::CtxRead { .. } => "contextual_read",
            Ev::EffectItem { .. } => "side_effects",
            Ev::Param { .. } => "get_parameter",
            Ev::Params { .. } => "with_parameters",
            Ev::Uri { .. } => "get_agent_uri",
            Ev::TimerSet { .. } => "schedule_timer_event",
            Ev::Cue { .. } => "cue",
            Ev::CueKey { .. } => "cue_key",
            Ev::OpenLane { .. } => "open_lane",
        }
    }

    pub fn node(&self) -> Option<NodeId> {
        match self {
            Ev::Effect { node }
            | Ev::Get { node, .. }
            | Ev::GetMap { node, .. }
            | Ev::Set { node, .. }
            | Ev::Update { node, .. }
            | Ev::Remove { node, .. }
            | Ev::Clear { node, .. }
            | Ev::Cmd2 { node, .. }
            | Ev::Fail { node }
            | Ev::StopLeaf { node }
            | Ev::Suspend { node }
            | Ev::Resume { node }
            | Ev::CtxRead { node, .. }
            | Ev::EffectItem { node, .. }
            | Ev::Param { node, .. }
            | Ev::Params { node, .. }
            | Ev::Uri { node, .. }
            | Ev::TimerSet { node, .. }
            | Ev::Cue { node }
            | Ev::CueKey { node, .. }
            | Ev::OpenLane { node } => Some(*node),
            _ => None,
        }
    }

    /// Entry of a lifecycle handler triggered by a lane change.
    pub fn is_trigger(&self) -> bool {
        matches!(
            self,
            Ev::OnEvent { .. } | Ev::OnSet { .. } | Ev::OnUpdate { .. } | Ev::OnRemove { .. } | Ev::OnClear { .. } | Ev::Command2 { .. } | Ev::OnCue | Ev::OnCueKey { .. } | Ev::Keys
        )
    }
}

pub fn map_digest(m: &[(i32, i64)]) -> i64 {
    let mut d = m.len() as i64;
    for (k, v) in m {
        d = d.wrapping_add((*k as i64).wrapping_mul(31)).wrapping_add(*v);
    }
    d
}

// ------------------------------------------------------------------------------------------------
// Inputs.

/// A command sent by the simulated remote.
#[derive(Clone, Copy, Debug, PartialEq, Eq, Hash)]
pub enum Input {
    /// To the command lane `cmd`: run program `prog` with argument `arg`.
    Cmd { prog: u32, arg: i64 },
    /// Directly to a value lane.
    SetV { lane: u8, v: i64 },
    /// Directly to a map lane.
    Upd { lane: u8, k: i32, v: i64 },
    Rem { lane: u8, k: i32 },
    Clr { lane: u8 },
    /// A sync request for a value or map lane: handled by a handler of the agent that marks the
    /// lane as having data to write but must *not* trigger the lane's lifecycle handlers.
    Sync(Lane),
}

impl Input {
    pub fn lane(&self) -> Lane {
        match self {
            Input::Cmd { .. } => Lane::Cmd,
            Input::SetV { lane, .. } => Lane::Val(*lane),
            Input::Upd { lane, .. } | Input::Rem { lane, .. } | Input::Clr { lane } => Lane::Map(*lane),
            Input::Sync(lane) => *lane,
        }
    }
}

#[derive(Clone, Copy, Debug, PartialEq, Eq, Hash)]
pub enum Step {
    Send(Input),
    /// Wait for quiescence (2 ms of virtual time on the paused clock).
    Settle,
    /// Complete the `i % pending`-th pending suspended future (no-op if none is pending). Always
    /// between two `Settle`s: the order of a completion relative to commands is determined only
    /// at quiescence.
    Fire(u32),
    /// Complete pending suspended futures oldest first, settling after each, at most `n` times.
    FireAll(u32),
}

// ------------------------------------------------------------------------------------------------
// Generators.

struct TreeGen<'a> {
    rng: &'a mut Rng,
    prog: &'a mut Program,
    owner: usize,
    /// Per-mille probability that a leaf is `fail` / `stop`.
    abort_pm: u64,
    suspend_pm: u64,
    /// Weight of modifying leaves relative to reads (out of 100).
    modify_w: u64,
    budget: usize,
    /// Node kinds of the extension may be generated.
    ext: bool,
    /// `schedule_timer_event` may be generated: only in trees that start at a time decided by the
    /// harness (`on_start`, `on_stop`, `on_command(cmd)`, and futures they suspend), never in
    /// `on_timer` or lane handlers (those could be reached from a timer), so that a deadline never
    /// coincides with a step of the harness.
    timers_ok: bool,
    /// `open_lane` may be generated: `on_start` only, not in a suspended future (that runs after
    /// initialisation) and not inside another `on_done` handler.
    open_ok: bool,
    /// A program has either `cue_key` nodes or timers that are due at once, never both: both ask
    /// for "a handler of its own as soon as the current one has completed" and nothing documents
    /// which of the two comes first.
    cue_key_ok: bool,
}

impl<'a> TreeGen<'a> {
    fn expr(&mut self) -> Expr {
        match self.rng.below(10) {
            0..=3 => Expr::Const(self.rng.range_i64(0, 5)),
            4..=5 => Expr::Const(self.rng.range_i64(-1000, 1000)),
            6..=7 => Expr::Env,
            _ => Expr::EnvPlus(self.rng.range_i64(1, 9)),
        }
    }

    fn key(&mut self) -> Key {
        if self.rng.chance(1, 4) {
            Key::EnvMod
        } else {
            Key::Const(self.rng.below(KEYS as u64) as i32)
        }
    }

    /// Lanes this tree may modify (strictly above its owner in the order).
    fn targets(&self) -> Vec<Lane> {
        let mut all = vec![Lane::Val(0), Lane::Map(0), Lane::Val(1), Lane::Map(1), Lane::Val(2), Lane::Val(3), Lane::Map(2), Lane::Cmd2];
        if self.ext {
            all.insert(2, Lane::Dem);
            if self.cue_key_ok {
                all.insert(5, Lane::DemMap);
            }
        }
        all.retain(|l| l.order() > self.owner);
        all
    }

    /// A leaf of the extension: route parameters, agent URI, `SideEffects`, a timer.
    fn ext_leaf(&mut self) -> NodeId {
        let n = match self.rng.below(10) {
            0..=1 => Node::Effects(self.rng.below(4) as u8),
            2..=3 => Node::GetParam(self.rng.below(PARAM_NAMES.len() as u64) as u8),
            4 => Node::WithParams,
            5 => Node::GetUri,
            _ if self.timers_ok => {
                let delays: &[u8] = if self.cue_key_ok { &[1, 1, 3, 3, 5, 7] } else { &[0, 0, 1, 1, 3, 3, 5, 7] };
                Node::Timer { delay: *self.rng.pick(delays), id: self.rng.below(3) as u8 }
            }
            _ => Node::Effects(self.rng.below(3) as u8),
        };
        self.prog.push(n)
    }

    fn leaf(&mut self) -> NodeId {
        self.budget = self.budget.saturating_sub(1);
        if self.rng.below(1000) < self.abort_pm {
            let n = if self.rng.bool() { Node::Fail } else { Node::Stop };
            return self.prog.push(n);
        }
        if self.ext && self.rng.chance(1, 5) {
            return self.ext_leaf();
        }
        let targets = self.targets();
        if !targets.is_empty() && self.rng.below(100) < self.modify_w {
            // Bias towards the nearest lanes so that long cascades occur, but reach all of them.
            let t = if self.rng.chance(1, 2) { targets[0] } else { *self.rng.pick(&targets) };
            let n = match t {
                Lane::Val(i) => Node::SetValue(i, self.expr()),
                Lane::Map(i) => match self.rng.below(10) {
                    0..=5 => Node::Update(i, self.key(), self.expr()),
                    6..=8 => Node::Remove(i, self.key()),
                    _ => Node::Clear(i),
                },
                Lane::Dem => Node::Cue,
                Lane::DemMap => Node::CueKey(self.key()),
                _ => Node::Command2(self.expr()),
            };
            return self.prog.push(n);
        }
        let n = match self.rng.below(10) {
            0..=1 => Node::Effect,
            2..=6 => Node::GetValue(self.rng.below(N_VAL as u64) as u8),
            _ => Node::GetMap(self.rng.below(N_MAP as u64) as u8),
        };
        self.prog.push(n)
    }

    fn tree(&mut self, depth_left: u32) -> NodeId {
        if depth_left == 0 || self.budget <= 2 || self.rng.chance(3, 10) {
            return self.leaf();
        }
        self.budget -= 1;
        if self.rng.below(1000) < self.suspend_pm {
            let open_ok = std::mem::replace(&mut self.open_ok, false);
            let c = self.tree(depth_left - 1);
            self.open_ok = open_ok;
            let id = self.prog.push(Node::Suspend(c));
            self.prog.link(id, c);
            return id;
        }
        if self.ext && self.rng.chance(2, 5) {
            return self.ext_tree(depth_left);
        }
        let a = self.tree(depth_left - 1);
        let b = self.tree(depth_left - 1);
        let n = if self.rng.chance(2, 5) { Node::AndThen(a, b) } else { Node::FollowedBy(a, b) };
        let id = self.prog.push(n);
        self.prog.link(id, a);
        self.prog.link(id, b);
        id
    }
}

impl<'a> TreeGen<'a> {
    fn add(&mut self, n: Node, children: &[NodeId]) -> NodeId {
        let id = self.prog.push(n);
        for c in children {
            self.prog.link(id, *c);
        }
        id
    }

    /// A combinator of the extension (the budget for this node is already taken).
    fn ext_tree(&mut self, depth_left: u32) -> NodeId {
        let d = depth_left - 1;
        match self.rng.below(if self.open_ok { 13 } else { 11 }) {
            0..=1 => {
                let a = self.tree(d);
                let lane = self.rng.below(N_VAL as u64) as u8;
                let b = self.tree(d);
                self.add(Node::AndThenCtx(a, lane, b), &[a, b])
            }
            2..=3 => {
                let a = self.tree(d);
                let modulus = *self.rng.pick(&[0u8, 2, 2, 3, 5]);
                let b = self.tree(d);
                self.add(Node::AndThenTry(a, modulus, b), &[a, b])
            }
            4..=5 => {
                let a = self.tree(d);
                let b = self.tree(d);
                self.add(Node::Join(a, b), &[a, b])
            }
            6 => {
                let a = self.tree(d);
                let b = self.tree(d);
                let c = self.tree(d);
                self.add(Node::Join3(a, b, c), &[a, b, c])
            }
            7..=8 => {
                if self.rng.chance(1, 3) {
                    self.add(Node::Opt(None), &[])
                } else {
                    let c = self.tree(d);
                    self.add(Node::Opt(Some(c)), &[c])
                }
            }
            9..=10 => {
                let n = self.rng.below(4) as usize;
                let cs: Vec<NodeId> = (0..n).map(|_| self.tree(d)).collect();
                self.prog.seqs.push(cs.clone());
                let i = (self.prog.seqs.len() - 1) as u32;
                self.add(Node::Seq(i), &cs)
            }
            _ => {
                // The `on_done` handler runs after `on_start`, still during initialisation.
                self.open_ok = false;
                let c = self.tree(d);
                self.open_ok = true;
                self.add(Node::OpenLane(c), &[c])
            }
        }
    }
}

pub const MAX_DEPTH: u32 = 5;
pub const MAX_NODES: usize = 25;

/// Generate a program. Sizes: command trees up to `MAX_NODES` nodes / depth `MAX_DEPTH`; lifecycle
/// trees are smaller the deeper their lane sits (the cascade multiplies them).
pub fn gen_program(rng: &mut Rng) -> Program {
    let mut prog = Program::default();
    prog.n_progs = rng.range(1, 3) as u32;
    let abort_pm = *rng.pick(&[0u64, 0, 0, 0, 10, 25, 60]);
    let suspend_pm = *rng.pick(&[0u64, 60, 120, 250]);
    let lifecycle_density = *rng.pick(&[40u64, 60, 80, 95]);
    // The node kinds of the extension appear in a fraction of the programs only, so that the
    // workload of the original node kinds keeps its size.
    prog.ext = rng.chance(3, 10);
    prog.param_id = rng.range_i64(0, 99);
    let cue_key_ok = rng.bool();
    let mut events: Vec<Event> = vec![Event::Start, Event::Stop, Event::Command2];
    if prog.ext {
        events.extend([Event::Timer(0), Event::Timer(1), Event::OnCue, Event::OnCueKey]);
    }
    for p in 0..prog.n_progs {
        events.push(Event::Command(p));
    }
    for i in 0..N_VAL as u8 {
        events.push(Event::OnEvent(i));
        events.push(Event::OnSet(i));
    }
    for i in 0..N_MAP as u8 {
        events.push(Event::OnUpdate(i));
        events.push(Event::OnRemove(i));
        events.push(Event::OnClear(i));
    }
    for ev in events {
        let (present_pc, max_nodes, modify_w) = match ev {
            Event::Command(_) => (100, MAX_NODES - MAX_DEPTH as usize, 45),
            Event::Start | Event::Stop => (60, 12, 35),
            Event::Command2 => (70, 5, 0),
            Event::Timer(_) => (70, 8, 40),
            Event::OnCue | Event::OnCueKey => (80, 6, 35),
            _ => (lifecycle_density, 9, 35),
        };
        if rng.below(100) >= present_pc {
            continue;
        }
        let budget = rng.range(1, max_nodes as u64) as usize;
        // `on_start` must usually succeed or nothing else is observable.
        let abort = if ev == Event::Start { abort_pm / 4 } else { abort_pm };
        let depth = if budget <= 2 { 1 } else { rng.range(1, MAX_DEPTH as u64) as u32 };
        let before = prog.nodes.len();
        let root = {
            let ext = prog.ext;
            let timers_ok = matches!(ev, Event::Start | Event::Stop | Event::Command(_));
            let mut g = TreeGen {
                rng,
                prog: &mut prog,
                owner: ev.owner_order(),
                abort_pm: abort,
                suspend_pm,
                modify_w,
                budget,
                ext,
                timers_ok,
                open_ok: ev == Event::Start,
                cue_key_ok,
            };
            g.tree(depth)
        };
        // A tree overshoots its budget by at most two leaves per level of the recursion.
        debug_assert!(prog.nodes.len() - before <= MAX_NODES + 2 * MAX_DEPTH as usize);
        prog.table.insert(ev, root);
    }
    prog.cues_keys = prog.any_node(|n| matches!(n, Node::CueKey(_)));
    prog
}

fn gen_input(rng: &mut Rng, prog: &Program, lane: Option<Lane>) -> Input {
    // A sync request for the demand lane: "triggers when it is explicitly cued or an external
    // sync request is received".
    if prog.ext && (lane == Some(Lane::Dem) || (lane.is_none() && rng.chance(1, 16))) {
        return Input::Sync(Lane::Dem);
    }
    // A sync request for the demand-map lane ("`keys`: triggers each time a downlink attempts to
    // sync with the lane", then `on_cue_key` "once for each defined key"): only in programs that
    // cue keys themselves (their inputs are sent one at a time, see `needs_settled_inputs`).
    if prog.cues_keys && (lane == Some(Lane::DemMap) || (lane.is_none() && rng.chance(1, 8))) {
        return Input::Sync(Lane::DemMap);
    }
    let lane = lane.unwrap_or_else(|| match rng.below(100) {
        0..=69 => Lane::Cmd,
        70..=84 => Lane::Val(rng.below(N_VAL_LANES as u64) as u8),
        _ => Lane::Map(rng.below(N_MAP_LANES as u64) as u8),
    });
    match lane {
        Lane::Val(_) | Lane::Map(_) if rng.chance(1, 8) => Input::Sync(lane),
        Lane::Val(i) => Input::SetV { lane: i, v: rng.range_i64(0, 6) },
        Lane::Map(i) => match rng.below(10) {
            0..=5 => Input::Upd { lane: i, k: rng.below(KEYS as u64) as i32, v: rng.range_i64(0, 50) },
            6..=8 => Input::Rem { lane: i, k: rng.below(KEYS as u64) as i32 },
            _ => Input::Clr { lane: i },
        },
        // Program ids one past the end exercise `on_command` with no tree attached.
        _ => {
            let extra = if rng.chance(1, 10) { 1 } else { 0 };
            Input::Cmd { prog: rng.below(prog.n_progs as u64 + extra) as u32, arg: rng.range_i64(-3, 40) }
        }
    }
}

/// 1..=8 commands in settled and burst segments. A burst sends 2..4 commands to the *same* lane
/// without waiting in between: commands of one remote to one lane travel through one byte channel,
/// so their order is fixed; commands to different lanes are merged by the agent's `SelectAll` in
/// an order the documentation does not fix, so they are always separated by a `Settle`.
pub fn gen_script(rng: &mut Rng, prog: &Program) -> Vec<Step> {
    let n_cmds = rng.range(1, 8) as usize;
    let mut script = vec![];
    let mut sent = 0;
    let bursts_ok = !prog.needs_settled_inputs();
    // Often populate the maps first (one same-lane burst per map) so that later removes and
    // clears find entries.
    if n_cmds >= 3 && rng.bool() {
        let lane = rng.below(N_MAP_LANES as u64) as u8;
        for _ in 0..2 {
            script.push(Step::Send(Input::Upd { lane, k: rng.below(KEYS as u64) as i32, v: rng.range_i64(0, 50) }));
            if !bursts_ok {
                script.push(Step::Settle);
            }
        }
        script.push(Step::Settle);
        sent += 2;
    }
    while sent < n_cmds {
        if bursts_ok && n_cmds - sent >= 2 && rng.chance(3, 10) {
            let k = (rng.range(2, 4) as usize).min(n_cmds - sent);
            let first = gen_input(rng, prog, None);
            script.push(Step::Send(first));
            for _ in 1..k {
                script.push(Step::Send(gen_input(rng, prog, Some(first.lane()))));
            }
            sent += k;
        } else {
            script.push(Step::Send(gen_input(rng, prog, None)));
            sent += 1;
        }
        script.push(Step::Settle);
        for _ in 0..rng.below(3) {
            script.push(Step::Fire(rng.below(4) as u32));
            script.push(Step::Settle);
        }
    }
    if rng.bool() {
        script.push(Step::FireAll(rng.range(1, 12) as u32));
    }
    // Let virtual time pass so that timers scheduled late still become due.
    if prog.any_node(|n| matches!(n, Node::Timer { .. })) && rng.chance(2, 3) {
        for _ in 0..rng.range(1, 4) {
            script.push(Step::Settle);
        }
    }
    script
}
