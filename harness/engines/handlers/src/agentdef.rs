//! The fixed derived agent (3 value lanes, 2 map lanes, a value store and a map store, a command
//! lane carrying (program id, argument), a second command lane only commanded from handlers) and
//! its `#[lifecycle]`, whose methods look the event up in the program table and *interpret* the
//! tree into boxed, real `EventHandler`s built only from the documented combinators. Leaves log into the shared trace
//! from inside `context.effect` closures (or the `map` closure of a read), i.e. when executed.

use std::collections::{BTreeMap, HashMap};
use std::sync::Arc;
use std::time::Duration;

use parking_lot::Mutex;
use swimos::agent::agent_lifecycle::item_event::ItemEvent;
use swimos::agent::agent_lifecycle::on_init::OnInit;
use swimos::agent::agent_lifecycle::on_start::OnStart;
use swimos::agent::agent_lifecycle::on_stop::OnStop;
use swimos::agent::agent_lifecycle::on_timer::OnTimer;
use swimos::agent::agent_lifecycle::HandlerContext;
use swimos::agent::event_handler::{
    join, join3, ActionContext, BoxEventHandler, BoxHandlerAction, EventHandler, EventHandlerError, HandlerAction, HandlerActionExt, Sequentially, SideEffects,
};
use swimos::agent::lanes::{CommandLane, DemandLane, DemandMapLane, MapLane, ValueLane};
use swimos::agent::stores::{MapStore, ValueStore};
use swimos::agent::{lifecycle, projections, AgentLaneModel};
use swimos_agent::AgentMetadata;
use swimos_form::Form;
use tokio::sync::oneshot;

use crate::program::{combine2, combine3, map_digest, param_result, try_fails, Ev, Event, MapSnap, Node, NodeId, Program, N_MAP, N_VAL, PARAM_NAMES};

pub const CMD: &str = "cmd";
pub const VAL_LANES: [&str; 3] = ["v0", "v1", "v2"];
pub const MAP_LANES: [&str; 2] = ["m0", "m1"];
pub const DEMAND: &str = "d0";
pub const DEMAND_MAP: &str = "dm0";

#[derive(Form, Clone, Debug, PartialEq, Eq)]
#[form(tag = "run")]
pub struct Cmd {
    pub prog: u32,
    pub arg: i64,
}

#[projections]
#[derive(AgentLaneModel)]
pub struct HAgent {
    cmd: CommandLane<Cmd>,
    v0: ValueLane<i64>,
    v1: ValueLane<i64>,
    v2: ValueLane<i64>,
    m0: MapLane<i32, i64>,
    m1: MapLane<i32, i64, BTreeMap<i32, i64>>,
    cmd2: CommandLane<i64>,
    /// Stores "support exactly the same event handlers as their lane equivalents" (lifecycle.md).
    #[item(transient)]
    s0: ValueStore<i64>,
    #[item(transient)]
    ms0: MapStore<i32, i64>,
    /// Lane kinds whose handler *produces* the value (coverage gap 18).
    d0: DemandLane<i64>,
    dm0: DemandMapLane<i32, i64>,
}

/// A suspended future waiting for the harness.
pub struct Gate {
    pub tx: oneshot::Sender<()>,
}

pub struct Shared {
    pub prog: Program,
    pub trace: Mutex<Vec<Ev>>,
    /// Pending suspended futures in the order their `suspend` leaves executed.
    pub gates: Mutex<Vec<Gate>>,
    /// Results (`is_ok`) handed to the `on_done` callbacks of `open_lane` (observation only).
    pub lanes_opened: Mutex<Vec<bool>>,
}

impl Shared {
    pub fn new(prog: Program) -> Arc<Shared> {
        Arc::new(Shared { prog, trace: Mutex::new(vec![]), gates: Mutex::new(vec![]), lanes_opened: Mutex::new(vec![]) })
    }

    fn log(&self, ev: Ev) {
        self.trace.lock().push(ev);
    }
}

#[derive(Debug)]
struct ProgramFail;

impl std::fmt::Display for ProgramFail {
    fn fmt(&self, f: &mut std::fmt::Formatter<'_>) -> std::fmt::Result {
        write!(f, "fail node of the generated program")
    }
}

impl std::error::Error for ProgramFail {}

type Act = BoxHandlerAction<'static, HAgent, i64>;

/// Dispatch on a value-like item index: binds the projection (the projections of lanes and
/// stores have different types, every arm ends in the same boxed handler type).
macro_rules! on_val {
    ($lane:expr, |$p:ident| $body:expr) => {
        match $lane {
            0 => {
                let $p = HAgent::V0;
                $body
            }
            1 => {
                let $p = HAgent::V1;
                $body
            }
            2 => {
                let $p = HAgent::V2;
                $body
            }
            _ => {
                let $p = HAgent::S0;
                $body
            }
        }
    };
}

/// Dispatch on a map-like item index: binds the projection and the backing map type.
macro_rules! on_map {
    ($lane:expr, |$p:ident, $m:ident| $body:expr) => {
        match $lane {
            0 => {
                let $p = HAgent::M0;
                #[allow(dead_code)]
                type $m = HashMap<i32, i64>;
                $body
            }
            1 => {
                let $p = HAgent::M1;
                #[allow(dead_code)]
                type $m = BTreeMap<i32, i64>;
                $body
            }
            _ => {
                let $p = HAgent::MS0;
                #[allow(dead_code)]
                type $m = HashMap<i32, i64>;
                $body
            }
        }
    };
}

trait Snap {
    fn snap(&self) -> MapSnap;
}

impl Snap for HashMap<i32, i64> {
    fn snap(&self) -> MapSnap {
        let mut v: MapSnap = self.iter().map(|(k, v)| (*k, *v)).collect();
        v.sort();
        v
    }
}

impl Snap for BTreeMap<i32, i64> {
    fn snap(&self) -> MapSnap {
        self.iter().map(|(k, v)| (*k, *v)).collect()
    }
}

/// Interpret a tree into a real handler action. `env` is the handler's input (see `Node`).
/// Construction has no side effect: everything observable happens when the handler is stepped.
pub fn interp(sh: &Arc<Shared>, id: NodeId, env: i64) -> Act {
    let ctx: HandlerContext<HAgent> = HandlerContext::default();
    let s = sh.clone();
    match sh.prog.node(id) {
        Node::Effect => ctx
            .effect(move || {
                s.log(Ev::Effect { node: id });
                env
            })
            .boxed(),
        Node::GetValue(lane) => on_val!(lane, |p| ctx
            .get_value(p)
            .map(move |v: i64| {
                s.log(Ev::Get { node: id, lane, v });
                v
            })
            .boxed()),
        Node::GetMap(lane) => on_map!(lane, |p, M| ctx
            .get_map(p)
            .map(move |m: M| {
                let map = m.snap();
                let d = map_digest(&map);
                s.log(Ev::GetMap { node: id, lane, map });
                d
            })
            .boxed()),
        Node::SetValue(lane, e) => {
            let v = e.eval(env);
            let log = ctx.effect(move || s.log(Ev::Set { node: id, lane, v }));
            on_val!(lane, |p| log.followed_by(ctx.set_value(p, v)).map(move |_| v).boxed())
        }
        Node::Update(lane, k, e) => {
            let (key, v) = (k.eval(env), e.eval(env));
            let log = ctx.effect(move || s.log(Ev::Update { node: id, lane, key, v }));
            on_map!(lane, |p, M| log.followed_by(ctx.update(p, key, v)).map(move |_| v).boxed())
        }
        Node::Remove(lane, k) => {
            let key = k.eval(env);
            let log = ctx.effect(move || s.log(Ev::Remove { node: id, lane, key }));
            on_map!(lane, |p, M| log.followed_by(ctx.remove(p, key)).map(move |_| env).boxed())
        }
        Node::Clear(lane) => {
            let log = ctx.effect(move || s.log(Ev::Clear { node: id, lane }));
            on_map!(lane, |p, M| log.followed_by(ctx.clear(p)).map(move |_| env).boxed())
        }
        Node::Command2(e) => {
            let v = e.eval(env);
            ctx.effect(move || s.log(Ev::Cmd2 { node: id, v })).followed_by(ctx.command(HAgent::CMD2, v)).map(move |_| v).boxed()
        }
        Node::Fail => ctx.effect(move || s.log(Ev::Fail { node: id })).followed_by(ctx.fail::<i64, _>(ProgramFail)).boxed(),
        Node::Stop => ctx.effect(move || s.log(Ev::StopLeaf { node: id })).followed_by(ctx.stop()).map(move |_| env).boxed(),
        Node::Suspend(child) => {
            let s2 = sh.clone();
            ctx.effect(move || {
                // The gate is registered when the suspend leaf *executes*.
                s.log(Ev::Suspend { node: id });
                let (tx, rx) = oneshot::channel::<()>();
                s.gates.lock().push(Gate { tx });
                rx
            })
            .and_then(move |rx: oneshot::Receiver<()>| {
                let ctx: HandlerContext<HAgent> = HandlerContext::default();
                ctx.suspend(async move {
                    if rx.await.is_err() {
                        // The harness dropped the gate without firing it: never completes.
                        futures::future::pending::<()>().await;
                    }
                    let s3 = s2.clone();
                    ctx.effect(move || s3.log(Ev::Resume { node: id })).followed_by(interp(&s2, child, env)).discard()
                })
            })
            .map(move |_| env)
            .boxed()
        }
        Node::FollowedBy(a, b) => interp(sh, a, env).followed_by(interp(sh, b, env)).boxed(),
        Node::AndThen(a, b) => {
            let s2 = sh.clone();
            interp(sh, a, env).and_then(move |r: i64| interp(&s2, b, r)).boxed()
        }
        // ---- extension: the other documented combinators ---------------------------------------
        Node::AndThenCtx(a, lane, b) => {
            let s2 = sh.clone();
            interp(sh, a, env)
                .and_then_contextual(move |agent: &HAgent, r: i64| {
                    // The function reads the item directly from the agent it is handed; what it
                    // saw is recorded when the handler it produced executes.
                    let v = match lane {
                        0 => agent.v0.read(|v| *v),
                        1 => agent.v1.read(|v| *v),
                        2 => agent.v2.read(|v| *v),
                        _ => agent.s0.read(|v| *v),
                    };
                    let ctx: HandlerContext<HAgent> = HandlerContext::default();
                    let s3 = s2.clone();
                    ctx.effect(move || s3.log(Ev::CtxRead { node: id, lane, v })).followed_by(interp(&s2, b, r))
                })
                .boxed()
        }
        Node::AndThenTry(a, modulus, b) => {
            let s2 = sh.clone();
            interp(sh, a, env)
                .and_then_try(move |r: i64| if try_fails(modulus, r) { Err(EventHandlerError::EffectError(Box::new(ProgramFail))) } else { Ok(interp(&s2, b, r)) })
                .boxed()
        }
        Node::Join(a, b) => join(interp(sh, a, env), interp(sh, b, env)).map(|(x, y): (i64, i64)| combine2(x, y)).boxed(),
        Node::Join3(a, b, c) => join3(interp(sh, a, env), interp(sh, b, env), interp(sh, c, env)).map(|(x, y, z): (i64, i64, i64)| combine3(x, y, z)).boxed(),
        Node::Opt(child) => {
            let h: Option<Act> = child.map(|c| interp(sh, c, env));
            // (`Option::map` would shadow the combinator.)
            HandlerActionExt::<HAgent>::map(h, move |r: Option<i64>| r.unwrap_or(env)).boxed()
        }
        Node::Effects(n) => {
            let items = (0..n).map(move |i| {
                s.log(Ev::EffectItem { node: id, i });
                i
            });
            HandlerActionExt::<HAgent>::map(SideEffects::from(items), move |done: Vec<u8>| env.wrapping_add(done.len() as i64)).boxed()
        }
        Node::Seq(i) => {
            let hs: Vec<BoxEventHandler<'static, HAgent>> = sh.prog.seqs[i as usize].iter().map(|c| interp(sh, *c, env).discard().boxed()).collect();
            Sequentially::new(hs).map(move |_| env).boxed()
        }
        Node::GetParam(name) => ctx
            .get_parameter(PARAM_NAMES[name as usize])
            .map(move |value: Option<String>| {
                let r = param_result(&value);
                s.log(Ev::Param { node: id, name, value });
                r
            })
            .boxed(),
        Node::WithParams => ctx
            .with_parameters(move |params: &HashMap<String, String>| {
                let n = params.len() as u32;
                let pid = params.get("id").and_then(|p| p.parse::<i64>().ok()).unwrap_or(-1);
                s.log(Ev::Params { node: id, n, id: pid });
                (n as i64) * 1000 + pid
            })
            .boxed(),
        Node::GetUri => ctx
            .get_agent_uri()
            .map(move |uri: swimos_utilities::routing::RouteUri| {
                s.log(Ev::Uri { node: id, uri: uri.to_string() });
                env
            })
            .boxed(),
        Node::Timer { delay, id: timer } => ctx
            .effect(move || s.log(Ev::TimerSet { node: id, id: timer, delay }))
            .followed_by(ctx.schedule_timer_event(Duration::from_millis(delay as u64), timer as u64))
            .map(move |_| env)
            .boxed(),
        // ---- extension: other lane kinds -------------------------------------------------------
        Node::Cue => ctx.effect(move || s.log(Ev::Cue { node: id })).followed_by(ctx.cue(HAgent::D0)).map(move |_| env).boxed(),
        Node::CueKey(k) => {
            let key = k.eval(env);
            ctx.effect(move || s.log(Ev::CueKey { node: id, key })).followed_by(ctx.cue_key(HAgent::DM0, key)).map(move |_| env).boxed()
        }
        Node::OpenLane(child) => {
            let s2 = sh.clone();
            let name = format!("dyn{id}");
            ctx.effect(move || s.log(Ev::OpenLane { node: id }))
                .followed_by(ctx.open_value_lane(&name, move |result| {
                    // Whether a derived agent can take the lane is not the subject here (it cannot:
                    // the request completes with an error); the order of the handler is.
                    let ctx: HandlerContext<HAgent> = HandlerContext::default();
                    let s3 = s2.clone();
                    let ok = result.is_ok();
                    ctx.effect(move || {
                        s3.lanes_opened.lock().push(ok);
                        s3.log(Ev::LaneOpened { node: id })
                    })
                    .followed_by(interp(&s2, child, 0))
                    .discard()
                }))
                .map(move |_| env)
                .boxed()
        }
    }
}

#[derive(Clone)]
pub struct HLifecycle {
    pub sh: Arc<Shared>,
}

impl HLifecycle {
    /// Handler of a lifecycle event: entry record, then the tree attached to the event (if any).
    fn top(&self, event: Event, entry: Ev, env: i64) -> BoxEventHandler<'static, HAgent> {
        let ctx: HandlerContext<HAgent> = HandlerContext::default();
        let s = self.sh.clone();
        let log = ctx.effect(move || s.log(entry));
        match self.sh.prog.table.get(&event) {
            Some(root) => log.followed_by(interp(&self.sh, *root, env)).discard().boxed(),
            None => log.boxed(),
        }
    }

    /// Handler of an event that *produces* a value (`on_cue`, `on_cue_key`): entry record, then
    /// the tree; the value is the result of the tree (the input when there is no tree).
    fn top_value(&self, event: Event, entry: Ev, env: i64) -> Act {
        let ctx: HandlerContext<HAgent> = HandlerContext::default();
        let s = self.sh.clone();
        let log = ctx.effect(move || s.log(entry));
        match self.sh.prog.table.get(&event) {
            Some(root) => log.followed_by(interp(&self.sh, *root, env)).boxed(),
            None => log.map(move |_| env).boxed(),
        }
    }

    /// The derived lifecycle plus `on_timer` (for which the `#[lifecycle]` macro has no attribute).
    pub fn with_timer(self) -> impl swimos::agent::agent_lifecycle::AgentLifecycle<HAgent> + Clone + Send + Sync + 'static {
        WithTimer { timer: self.clone(), inner: self.into_lifecycle() }
    }
}

/// Delegates every event to the derived lifecycle except `on_timer`.
#[derive(Clone)]
struct WithTimer<L> {
    timer: HLifecycle,
    inner: L,
}

impl<L: OnInit<HAgent>> OnInit<HAgent> for WithTimer<L> {
    fn initialize(&self, action_context: &mut ActionContext<HAgent>, meta: AgentMetadata, context: &HAgent) {
        self.inner.initialize(action_context, meta, context)
    }
}

impl<L: OnStart<HAgent>> OnStart<HAgent> for WithTimer<L> {
    fn on_start(&self) -> impl EventHandler<HAgent> + '_ {
        self.inner.on_start()
    }
}

impl<L: OnStop<HAgent>> OnStop<HAgent> for WithTimer<L> {
    fn on_stop(&self) -> impl EventHandler<HAgent> + '_ {
        self.inner.on_stop()
    }
}

impl<L: Send> OnTimer<HAgent> for WithTimer<L> {
    fn on_timer(&self, timer_id: u64) -> impl EventHandler<HAgent> + '_ {
        self.timer.top(Event::Timer(timer_id.min(255) as u8), Ev::OnTimer { id: timer_id }, timer_id as i64)
    }
}

impl<L: ItemEvent<HAgent>> ItemEvent<HAgent> for WithTimer<L> {
    type ItemEventHandler<'a> = L::ItemEventHandler<'a>
    where
        Self: 'a;

    fn item_event<'a>(&'a self, context: &HAgent, item_name: &'a str) -> Option<Self::ItemEventHandler<'a>> {
        self.inner.item_event(context, item_name)
    }
}

#[lifecycle(HAgent)]
impl HLifecycle {
    #[on_start]
    fn on_start(&self, _context: HandlerContext<HAgent>) -> impl EventHandler<HAgent> {
        self.top(Event::Start, Ev::Start, 0)
    }

    #[on_stop]
    fn on_stop(&self, context: HandlerContext<HAgent>) -> impl EventHandler<HAgent> {
        // The generated tree, followed by a fixed probe of the final lane states.
        let mut probe: Vec<BoxEventHandler<'static, HAgent>> = vec![];
        for lane in 0..N_VAL as u8 {
            let s = self.sh.clone();
            probe.push(on_val!(lane, |p| context.get_value(p).map(move |v: i64| s.log(Ev::FinalV { lane, v })).boxed()));
        }
        for lane in 0..N_MAP as u8 {
            let s = self.sh.clone();
            probe.push(on_map!(lane, |p, M| context.get_map(p).map(move |m: M| s.log(Ev::FinalM { lane, map: m.snap() })).boxed()));
        }
        self.top(Event::Stop, Ev::Stop, 0).followed_by(Sequentially::new(probe))
    }

    #[on_command(cmd)]
    fn on_cmd(&self, _context: HandlerContext<HAgent>, value: &Cmd) -> impl EventHandler<HAgent> {
        self.top(Event::Command(value.prog), Ev::Command { prog: value.prog, arg: value.arg }, value.arg)
    }

    #[on_command(cmd2)]
    fn on_cmd2(&self, _context: HandlerContext<HAgent>, value: &i64) -> impl EventHandler<HAgent> {
        self.top(Event::Command2, Ev::Command2 { arg: *value }, *value)
    }

    #[on_event(v0)]
    fn v0_event(&self, _context: HandlerContext<HAgent>, value: &i64) -> impl EventHandler<HAgent> {
        self.top(Event::OnEvent(0), Ev::OnEvent { lane: 0, new: *value }, *value)
    }

    #[on_set(v0)]
    fn v0_set(&self, _context: HandlerContext<HAgent>, value: &i64, prev: Option<i64>) -> impl EventHandler<HAgent> {
        self.top(Event::OnSet(0), Ev::OnSet { lane: 0, new: *value, prev }, *value)
    }

    #[on_event(v1)]
    fn v1_event(&self, _context: HandlerContext<HAgent>, value: &i64) -> impl EventHandler<HAgent> {
        self.top(Event::OnEvent(1), Ev::OnEvent { lane: 1, new: *value }, *value)
    }

    #[on_set(v1)]
    fn v1_set(&self, _context: HandlerContext<HAgent>, value: &i64, prev: Option<i64>) -> impl EventHandler<HAgent> {
        self.top(Event::OnSet(1), Ev::OnSet { lane: 1, new: *value, prev }, *value)
    }

    #[on_event(v2)]
    fn v2_event(&self, _context: HandlerContext<HAgent>, value: &i64) -> impl EventHandler<HAgent> {
        self.top(Event::OnEvent(2), Ev::OnEvent { lane: 2, new: *value }, *value)
    }

    #[on_set(v2)]
    fn v2_set(&self, _context: HandlerContext<HAgent>, value: &i64, prev: Option<i64>) -> impl EventHandler<HAgent> {
        self.top(Event::OnSet(2), Ev::OnSet { lane: 2, new: *value, prev }, *value)
    }

    #[on_update(m0)]
    fn m0_update(&self, _context: HandlerContext<HAgent>, map: &HashMap<i32, i64>, key: i32, prev: Option<i64>, new: &i64) -> impl EventHandler<HAgent> {
        self.top(Event::OnUpdate(0), Ev::OnUpdate { lane: 0, key, prev, new: *new, map: map.snap() }, *new)
    }

    #[on_remove(m0)]
    fn m0_remove(&self, _context: HandlerContext<HAgent>, map: &HashMap<i32, i64>, key: i32, prev: i64) -> impl EventHandler<HAgent> {
        self.top(Event::OnRemove(0), Ev::OnRemove { lane: 0, key, prev, map: map.snap() }, prev)
    }

    #[on_clear(m0)]
    fn m0_clear(&self, _context: HandlerContext<HAgent>, prev: HashMap<i32, i64>) -> impl EventHandler<HAgent> {
        let n = prev.len() as i64;
        self.top(Event::OnClear(0), Ev::OnClear { lane: 0, prev: prev.snap() }, n)
    }

    #[on_update(m1)]
    fn m1_update(&self, _context: HandlerContext<HAgent>, map: &BTreeMap<i32, i64>, key: i32, prev: Option<i64>, new: &i64) -> impl EventHandler<HAgent> {
        self.top(Event::OnUpdate(1), Ev::OnUpdate { lane: 1, key, prev, new: *new, map: map.snap() }, *new)
    }

    #[on_remove(m1)]
    fn m1_remove(&self, _context: HandlerContext<HAgent>, map: &BTreeMap<i32, i64>, key: i32, prev: i64) -> impl EventHandler<HAgent> {
        self.top(Event::OnRemove(1), Ev::OnRemove { lane: 1, key, prev, map: map.snap() }, prev)
    }

    #[on_clear(m1)]
    fn m1_clear(&self, _context: HandlerContext<HAgent>, prev: BTreeMap<i32, i64>) -> impl EventHandler<HAgent> {
        let n = prev.len() as i64;
        self.top(Event::OnClear(1), Ev::OnClear { lane: 1, prev: prev.snap() }, n)
    }

    #[on_cue(d0)]
    fn d0_cue(&self, _context: HandlerContext<HAgent>) -> impl HandlerAction<HAgent, Completion = i64> {
        self.top_value(Event::OnCue, Ev::OnCue, 0)
    }

    #[on_cue_key(dm0)]
    fn dm0_cue_key(&self, _context: HandlerContext<HAgent>, key: i32) -> impl HandlerAction<HAgent, Completion = Option<i64>> {
        self.top_value(Event::OnCueKey, Ev::OnCueKey { key }, key as i64).map(Some)
    }

    #[on_event(s0)]
    fn s0_event(&self, _context: HandlerContext<HAgent>, value: &i64) -> impl EventHandler<HAgent> {
        self.top(Event::OnEvent(3), Ev::OnEvent { lane: 3, new: *value }, *value)
    }

    #[on_set(s0)]
    fn s0_set(&self, _context: HandlerContext<HAgent>, value: &i64, prev: Option<i64>) -> impl EventHandler<HAgent> {
        self.top(Event::OnSet(3), Ev::OnSet { lane: 3, new: *value, prev }, *value)
    }

    #[on_update(ms0)]
    fn ms0_update(&self, _context: HandlerContext<HAgent>, map: &HashMap<i32, i64>, key: i32, prev: Option<i64>, new: &i64) -> impl EventHandler<HAgent> {
        self.top(Event::OnUpdate(2), Ev::OnUpdate { lane: 2, key, prev, new: *new, map: map.snap() }, *new)
    }

    #[on_remove(ms0)]
    fn ms0_remove(&self, _context: HandlerContext<HAgent>, map: &HashMap<i32, i64>, key: i32, prev: i64) -> impl EventHandler<HAgent> {
        self.top(Event::OnRemove(2), Ev::OnRemove { lane: 2, key, prev, map: map.snap() }, prev)
    }

    #[on_clear(ms0)]
    fn ms0_clear(&self, _context: HandlerContext<HAgent>, prev: HashMap<i32, i64>) -> impl EventHandler<HAgent> {
        let n = prev.len() as i64;
        self.top(Event::OnClear(2), Ev::OnClear { lane: 2, prev: prev.snap() }, n)
    }
}
