//! Probe: `ValueNotificationDecoder<u64>` fed an event frame whose body is split in two reads, and
//! the underlying `RecognizerDecoder` called the way `consume_bounded` calls it.
use bytes::BytesMut;
use swimos_agent_protocol::encoding::downlink::{DownlinkNotificationEncoder, ValueNotificationDecoder};
use swimos_agent_protocol::DownlinkNotification;
use swimos_form::read::RecognizerReadable;
use swimos_recon::parser::RecognizerDecoder;
use tokio_util::codec::{Decoder, Encoder};

fn main() {
    let mut frame = BytesMut::new();
    DownlinkNotificationEncoder.encode(DownlinkNotification::Event { body: b"1010".to_vec() }, &mut frame).unwrap();
    for cut in 9..frame.len() {
        let mut dec = ValueNotificationDecoder::<u64>::default();
        let mut buf = BytesMut::new();
        buf.extend_from_slice(&frame[..cut]);
        let first = dec.decode(&mut buf);
        buf.extend_from_slice(&frame[cut..]);
        let second = dec.decode(&mut buf);
        println!("notification decoder, cut {cut:2}: first={first:?} second={second:?} left={}", buf.len());
    }
    // The same at the level of the Recon decoder: decode(partial) then decode_eof(whole).
    for cut in 1..4 {
        let mut dec = RecognizerDecoder::new(u64::make_recognizer());
        let mut part = BytesMut::from(&b"1010"[..cut]);
        let first = dec.decode(&mut part);
        let left_after_first = part.len();
        let mut whole = BytesMut::from(&b"1010"[..]);
        let second = dec.decode_eof(&mut whole);
        println!("recognizer decoder, cut {cut}: decode({:?}) = {first:?} (unconsumed {left_after_first}), decode_eof(\"1010\") = {second:?} left={}", &b"1010"[..cut], whole.len());
    }
    // Text body.
    for cut in 1..6 {
        let mut dec = RecognizerDecoder::new(String::make_recognizer());
        let mut part = BytesMut::from(&b"abcdef"[..cut]);
        let first = dec.decode(&mut part);
        let mut whole = BytesMut::from(&b"abcdef"[..]);
        let second = dec.decode_eof(&mut whole);
        println!("recognizer decoder (text), cut {cut}: first = {first:?}, decode_eof(\"abcdef\") = {second:?} left={}", whole.len());
    }
}
