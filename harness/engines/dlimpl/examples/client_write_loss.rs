//! Minimal witnesses for the `output-last-write-lost/*/client/*` findings of the `write-pressure`
//! part (C08), against the public API of `swimos_downlink` only.
//!
//!   cargo run --release -p dlimpl --example client_write_loss
//!
//! Scenario 1 (slow consumer): the consumer of the downlink's output is not reading; `set(1)` is
//! accepted and written into the downlink's buffer (its flush is pending); `set(2)` is accepted (the
//! task takes it out of the handle's channel and holds it inside `immediate_or_join` until the
//! pending flush completes); a notification arrives: `race` / `select!` takes the read branch and
//! drops the other future together with the value it holds. The consumer then reads: it sees 1, never 2.
//!
//! Scenario 2 (handle dropped): `set(7)` and the handle is dropped before the task runs again: the
//! task feeds 7 into its buffer, finds the stream of sets ended, switches to its read-only loop and
//! never flushes. The consumer reads all the time and sees nothing.

use std::num::NonZeroUsize;
use std::time::Duration;

use bytes::BytesMut;
use swimos_agent_protocol::encoding::downlink::{DownlinkNotificationEncoder, DownlinkOperationDecoder};
use swimos_agent_protocol::DownlinkNotification;
use swimos_api::address::Address;
use swimos_client_api::{Downlink, DownlinkConfig};
use swimos_downlink::lifecycle::BasicValueDownlinkLifecycle;
use swimos_downlink::{DownlinkTask, ValueDownlinkModel, ValueDownlinkSet};
use swimos_utilities::byte_channel::{byte_channel, ByteReader};
use tokio::io::{AsyncReadExt, AsyncWriteExt};
use tokio::sync::mpsc;
use tokio_util::codec::{Decoder, Encoder};

fn frame(n: DownlinkNotification<Vec<u8>>) -> BytesMut {
    let mut buf = BytesMut::new();
    DownlinkNotificationEncoder.encode(n, &mut buf).unwrap();
    buf
}

async fn settle() {
    tokio::time::sleep(Duration::from_millis(1)).await;
}

/// Everything the downlink wrote, until it closes its output.
async fn drain(mut rx: ByteReader) -> Vec<String> {
    let mut buf = BytesMut::new();
    let mut seen = vec![];
    let mut dec = DownlinkOperationDecoder;
    loop {
        let n = rx.read_buf(&mut buf).await.unwrap_or(0);
        while let Ok(Some(op)) = dec.decode(&mut buf) {
            seen.push(String::from_utf8_lossy(op.body.as_ref()).to_string());
        }
        if n == 0 {
            return seen;
        }
    }
}

async fn scenario(slow_consumer: bool) -> Vec<String> {
    let config = DownlinkConfig { events_when_not_synced: true, terminate_on_unlinked: false, buffer_size: NonZeroUsize::new(16).unwrap() };
    let (mut in_tx, in_rx) = byte_channel(NonZeroUsize::new(4096).unwrap());
    let (out_tx, out_rx) = byte_channel(NonZeroUsize::new(8).unwrap());
    let (set_tx, set_rx) = mpsc::channel::<ValueDownlinkSet<u64>>(16);
    let model = ValueDownlinkModel::new(set_rx, BasicValueDownlinkLifecycle::<u64>::default());
    let task = tokio::spawn(DownlinkTask::new(model).run(Address::text(None, "/node", "lane"), config, in_rx, out_tx));
    in_tx.write_all(&frame(DownlinkNotification::Linked)).await.unwrap();
    settle().await;
    let seen = if slow_consumer {
        set_tx.send(ValueDownlinkSet { to: 1 }).await.unwrap();
        settle().await;
        set_tx.send(ValueDownlinkSet { to: 2 }).await.unwrap();
        settle().await;
        in_tx.write_all(&frame(DownlinkNotification::Event { body: b"5".to_vec() })).await.unwrap();
        settle().await;
        // The consumer starts reading only now.
        let reader = tokio::spawn(drain(out_rx));
        settle().await;
        drop((in_tx, set_tx));
        let _ = task.await;
        reader.await.unwrap()
    } else {
        let reader = tokio::spawn(drain(out_rx));
        set_tx.send(ValueDownlinkSet { to: 7 }).await.unwrap();
        drop(set_tx);
        settle().await;
        settle().await;
        drop(in_tx);
        let _ = task.await;
        reader.await.unwrap()
    };
    seen
}

fn main() {
    let rt = tokio::runtime::Builder::new_current_thread().enable_time().start_paused(true).build().unwrap();
    let a = rt.block_on(scenario(true));
    println!("slow consumer:   set(1); set(2); <event>; consumer reads  -> output {a:?}   (expected to end with \"2\")");
    let b = rt.block_on(scenario(false));
    println!("handle dropped:  set(7); drop(handle)                     -> output {b:?}   (expected [\"7\"])");
}
