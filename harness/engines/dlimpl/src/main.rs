//! Engine `dlimpl` (C08): the state of a downlink equals the fold of the notifications it received,
//! callbacks fire in notification order with the right arguments, and the stand-alone client
//! downlinks (`swimos_downlink`) and the agent-hosted downlinks behave identically on everything a
//! well-behaved link can send.
//!
//! Parts:
//!  * `legal`     – generated legal notification sequences (value and map, all four combinations of
//!                  `events_when_not_synced` × `terminate_on_unlinked`, optional local writes and
//!                  take/drop), fed with random chunking to both implementations; reference-fold
//!                  oracle on every callback, equality of the two callback logs.
//!  * `exhaustive-map` – every short map script over two small alphabets, all settings, both
//!                  implementations, same oracles.
//!  * `legal-anycut` – the same with frames cut anywhere / tiny channels; divergences that follow a split
//!                  frame body are attributed to the frame decoder (rule `body-split`).
//!  * `reconnect` – hosted only: the connection of a downlink is lost in the middle of a script;
//!                  after the agent obtained a new connection the fold starts afresh.
//!  * `read-only` – the local handle of a downlink is dropped at any point of a legal script (before
//!                  `linked`, before `synced`, after it, between links) or the write side of the client
//!                  value downlink fails; the notifications continue and every oracle of `legal`
//!                  applies to what follows (the client tasks are then in their read-only loop).
//!  * `writer-failure` – hosted only: the consumer of a downlink's output goes away while the link
//!                  is open and a local write then fails; the agent replaces the connection without
//!                  any notification having passed through the downlink; the fold restarts there.
//!  * `illegal`   – arbitrary sequences: absence of panics and hangs only.
//!  * `input-failure`, `write-pressure` – see `extend.rs`: the input of a downlink fails (closed,
//!                  corrupt frame) on both implementations; the consumer of the output is slow, stalls,
//!                  and the downlink is stopped / loses its handle / loses the reader.

mod client;
mod drive;
mod extend;
mod hosted;
mod reference;
mod script;

use std::collections::HashMap;
use std::sync::Mutex;

use common::{json, CaseOut, Json, Rng, Session};

use crate::client::Env;
use crate::drive::{CutMode, ImplObs};
use crate::hosted::{Loss, Reconnect};
use crate::reference::{check, show_trace, well_behaved, Cb, CheckInput, Finding, Mode, Stats};
use crate::script::{
    cut_inside_link, gen_illegal, gen_legal, gen_local_op, merge, phases, show_script, with_handle_drop, with_write_failure, Flags, GenOpts, Kind, LocalOp, Note, Shadow, Step,
    Uniq,
};

const P: &str = "C08";

type Merged = Vec<(Kind, usize, Step)>;

/// Attach to every merged step its index in the script of its kind.
fn index_merged(m: Vec<(Kind, Step)>) -> Merged {
    let (mut iv, mut im) = (0usize, 0usize);
    m.into_iter()
        .map(|(k, s)| {
            let idx = match k {
                Kind::Value => {
                    iv += 1;
                    iv - 1
                }
                Kind::Map => {
                    im += 1;
                    im - 1
                }
            };
            (k, idx, s)
        })
        .collect()
}

#[derive(Clone, Copy, PartialEq, Eq, Debug)]
enum Imp {
    Client,
    Hosted,
}

impl Imp {
    fn name(self) -> &'static str {
        match self {
            Imp::Client => "client",
            Imp::Hosted => "hosted",
        }
    }
}

fn trace_of(obs: &ImplObs, kind: Kind) -> &[Cb] {
    match kind {
        Kind::Value => &obs.vtrace,
        Kind::Map => &obs.mtrace,
    }
}

fn check_kind(imp: Imp, kind: Kind, flags: Flags, steps: &[Step], obs: &ImplObs) -> (Option<Finding>, Stats) {
    check(&CheckInput {
        mode: if kind == Kind::Value { Mode::Value } else { Mode::Map },
        imp: imp.name(),
        flags,
        steps,
        trace: trace_of(obs, kind),
        marks: obs.marks.of(kind),
    })
}

/// Re-execution used by the shrinker: header-only cuts, so that a witness never depends on how a
/// body was split.
fn run_one(imp: Imp, flags: Flags, vs: &[Step], ms: &[Step], seed: u64) -> ImplObs {
    let mut rng = Rng::new(seed);
    let merged = index_merged(merge(&mut rng, vs, ms));
    let mut drive_rng = rng.fork();
    match imp {
        Imp::Client => client::run_client(flags, &merged, vs.len(), ms.len(), CutMode::HeaderOnly, &mut drive_rng, true),
        Imp::Hosted => hosted::run_hosted(flags, &merged, vs.len(), ms.len(), CutMode::HeaderOnly, &mut drive_rng, &[]).0,
    }
}

/// Index of the first frame of the script whose body was split across reads, if the divergence
/// found at `step` lies at or after it. Such a divergence is attributed to the frame decoder
/// (`RecognizerDecoder::decode` completes a bare token at the end of the available bytes, so a split
/// body is decoded truncated; properties C09/C10), under its own rule, and not to the downlink.
fn after_body_split(obs: &ImplObs, kind: Kind, step: Option<usize>) -> Option<usize> {
    let first = obs.marks.split_of(kind).iter().position(|b| *b)?;
    match step {
        Some(s) if s < first => None,
        _ => Some(first),
    }
}

/// Greedy one-step-removal minimisation of the script of `kind` (the other downlink idle) that
/// keeps the same signature. Bounded number of re-executions of the real implementation.
fn shrink(imp: Imp, kind: Kind, flags: Flags, steps: &[Step], signature: &str, budget: usize) -> Option<Vec<Step>> {
    let reproduces = |cand: &[Step]| -> bool {
        let (vs, ms): (&[Step], &[Step]) = if kind == Kind::Value { (cand, &[]) } else { (&[], cand) };
        let obs = run_one(imp, flags, vs, ms, 0x5eed);
        let (f, _) = check_kind(imp, kind, flags, cand, &obs);
        f.map_or(false, |f| f.signature(kind.name(), imp.name(), &flags) == signature)
    };
    let plain: Vec<Step> = steps.iter().filter(|s| !matches!(s, Step::Barrier)).cloned().collect();
    // Prefer a witness without "local write inside a frame" steps: local write, then the frame.
    let expanded: Vec<Step> = plain
        .iter()
        .flat_map(|s| match s {
            Step::SplitLocal(n, op) => vec![Step::Local(op.clone()), Step::N(n.clone())],
            other => vec![other.clone()],
        })
        .collect();
    let mut runs = 2usize;
    let mut cur = if reproduces(&expanded) {
        expanded
    } else if reproduces(&plain) {
        plain
    } else {
        return None;
    };
    loop {
        let mut progressed = false;
        let mut i = 0;
        while i < cur.len() {
            if runs >= budget {
                return Some(cur);
            }
            let mut cand = cur.clone();
            cand.remove(i);
            runs += 1;
            if reproduces(&cand) {
                cur = cand;
                progressed = true;
            } else {
                // A split step may be reducible to its plain notification.
                if let Step::SplitLocal(n, _) = &cur[i] {
                    let mut cand = cur.clone();
                    cand[i] = Step::N(n.clone());
                    runs += 1;
                    if reproduces(&cand) {
                        cur = cand;
                        progressed = true;
                    }
                }
                i += 1;
            }
        }
        if !progressed {
            return Some(cur);
        }
    }
}

/// Minimal witnesses are computed for the first few cases of each signature only (the report keeps
/// three violations per signature anyway); the verdict never depends on this.
static SHRUNK: Mutex<Option<HashMap<String, u32>>> = Mutex::new(None);

fn should_shrink(sig: &str) -> bool {
    let mut g = SHRUNK.lock().unwrap();
    let m = g.get_or_insert_with(HashMap::new);
    let n = m.entry(sig.to_string()).or_insert(0);
    *n += 1;
    *n <= 8
}

fn apply_stats(out: &mut CaseOut, imp: Imp, kind: &str, st: &Stats) {
    out.events += st.callbacks_checked;
    let p = format!("{}/{}", imp.name(), kind);
    out.add(&format!("{p}/callbacks-checked"), st.callbacks_checked);
    out.add(&format!("{p}/state-observations"), st.state_observations);
    out.add(&format!("{p}/events-suppressed-before-sync"), st.suppressed_events);
    out.add(&format!("{p}/on_synced-points"), st.synced_checked);
    out.add(&format!("{p}/unlinks"), st.relinks);
    if st.reconnections > 0 {
        out.add(&format!("{p}/fold-restarts-at-new-connection"), st.reconnections);
    }
    out.add(&format!("{p}/frames-after-terminate"), st.frames_after_terminate);
    out.add(&format!("{p}/local-writes-while-linked"), st.locals_while_linked);
    for o in &st.observations {
        out.count(o);
    }
    for (name, dispatched) in &st.no_change {
        out.count(&format!("{p}/no-change/{name}/{}", if *dispatched { "callbacks-due" } else { "suppressed" }));
    }
}

fn report_problems(out: &mut CaseOut, imp: Imp, flags: Flags, obs: &ImplObs, legal: bool, ctx: &Json) {
    for (rule, kind, what) in &obs.problems {
        let hard = matches!(*rule, "panic" | "no-termination-after-input-closed" | "no-termination-after-stop");
        let k = match *kind {
            "value" | "event" => Some(Kind::Value),
            "map" => Some(Kind::Map),
            _ => None,
        };
        let split = k.map_or(false, |k| obs.marks.split_of(k).iter().any(|b| *b))
            || (k.is_none() && (obs.marks.value_split.iter().any(|b| *b) || obs.marks.map_split.iter().any(|b| *b)));
        if legal && !hard && split {
            // A frame error after a split body (e.g. `@clear` cut inside the tag) ends the task.
            out.violation(P, format!("body-split/{}/{}", kind, imp.name()), format!("after a frame body was split across reads: {what}"), ctx.clone());
        } else if legal || hard {
            out.violation(P, format!("{}/{}/{}/{}", rule, kind, imp.name(), flags.sig()), what.clone(), ctx.clone());
        } else {
            out.count(&format!("illegal/{}/{}/{}", imp.name(), kind, rule));
        }
    }
    if let Some(s) = obs.stuck.first() {
        out.inconclusive(format!("driver budget: {}", common::sanitize_sig(s)));
    }
}

fn is_subsequence<T: PartialEq>(sub: &[T], of: &[T]) -> bool {
    let mut it = of.iter();
    sub.iter().all(|x| it.any(|y| y == x))
}

/// Local writes as they appeared on the downlink's output channel (observation only: the statement
/// of C08 is about the replica, not about the command path).
fn output_observations(out: &mut CaseOut, imp: Imp, vs: &[Step], ms: &[Step], obs: &ImplObs) {
    let locals = |steps: &[Step]| -> Vec<LocalOp> {
        steps
            .iter()
            .filter_map(|s| match s {
                Step::Local(op) | Step::SplitLocal(_, op) => Some(op.clone()),
                _ => None,
            })
            .collect()
    };
    let issued_v: Vec<u64> = locals(vs).iter().filter_map(|o| if let LocalOp::SetV(v) = o { Some(*v) } else { None }).collect();
    let issued_m = locals(ms);
    let class = |exact: bool, sub: bool| if exact { "exact" } else if sub { "subsequence" } else { "MISMATCH" };
    if !issued_v.is_empty() {
        out.count(&format!("output/{}/value/{}", imp.name(), class(obs.v_out == issued_v, is_subsequence(&obs.v_out, &issued_v))));
    }
    if !issued_m.is_empty() {
        out.count(&format!("output/{}/map/{}", imp.name(), class(obs.m_out == issued_m, is_subsequence(&obs.m_out, &issued_m))));
    }
}

struct CaseScripts {
    flags: Flags,
    vs: Vec<Step>,
    ms: Vec<Step>,
    merged: Merged,
}

fn sample_of(cs: &CaseScripts) -> Json {
    json!({"flags": cs.flags.json(), "value_script": show_script(&cs.vs), "map_script": show_script(&cs.ms)})
}

/// Check one implementation's traces against the reference; report the first divergence per
/// downlink kind. Returns, per kind, whether the trace conformed.
fn judge(out: &mut CaseOut, imp: Imp, cs: &CaseScripts, obs: &ImplObs, do_shrink: bool) -> [bool; 2] {
    let mut ok = [true, true];
    for (slot, kind) in [Kind::Value, Kind::Map].into_iter().enumerate() {
        let steps = if kind == Kind::Value { &cs.vs } else { &cs.ms };
        let (finding, st) = check_kind(imp, kind, cs.flags, steps, obs);
        apply_stats(out, imp, kind.name(), &st);
        if let Some(f) = finding {
            ok[slot] = false;
            if let Some(first) = after_body_split(obs, kind, f.step) {
                out.violation(
                    P,
                    format!("body-split/{}/{}", kind.name(), imp.name()),
                    format!("divergence after the body of a frame was split across reads ({}: {})", f.rule, f.what),
                    json!({"flags": cs.flags.json(), "implementation": imp.name(), "downlink": kind.name(), "first_split_frame_step": first,
                           "script": show_script(steps), "trace": show_trace(trace_of(obs, kind)), "divergence": f.detail}),
                );
                continue;
            }
            let sig = f.signature(kind.name(), imp.name(), &cs.flags);
            let mut detail = json!({
                "flags": cs.flags.json(),
                "implementation": imp.name(),
                "downlink": kind.name(),
                "script": show_script(steps),
                "trace": show_trace(trace_of(obs, kind)),
                "divergence": f.detail,
            });
            if do_shrink && should_shrink(&sig) {
                let budget = if imp == Imp::Client { 400 } else { 120 };
                if let Some(min) = shrink(imp, kind, cs.flags, steps, &sig, budget) {
                    let (vs, ms): (&[Step], &[Step]) = if kind == Kind::Value { (&min, &[]) } else { (&[], &min) };
                    let o = run_one(imp, cs.flags, vs, ms, 0x5eed);
                    detail["minimal_witness"] = json!({"script": show_script(&min), "trace": show_trace(trace_of(&o, kind))});
                }
            }
            out.violation(P, sig, f.what, detail);
        }
    }
    ok
}

fn legal_case(case: u64, rng: &mut Rng, out: &mut CaseOut, mode: CutMode) {
    let flags = Flags::of_index(case % 4);
    // Classes: plain (what a swim-rust lane emits), with local writes, with take/drop. Local writes
    // and take/drop are not mixed: a case reports its first divergence only, and the naming of a
    // divergence caused by local writes (second walk) must not depend on how take/drop is reported.
    let class = (case / 4) % 3;
    let opts = GenOpts { local_writes: class == 1, take_drop: class == 2, max_links: 3, terminates: flags.terminate_on_unlinked };
    let mut uniq = Uniq::new(1000);
    let vs = gen_legal(rng, Kind::Value, &mut uniq, &opts);
    let ms = gen_legal(rng, Kind::Map, &mut uniq, &opts);
    let merged = index_merged(merge(rng, &vs, &ms));
    let cs = CaseScripts { flags, vs, ms, merged };
    out.count(&format!("class/local={}/take-drop={}", opts.local_writes as u8, opts.take_drop as u8));
    let drive_rng = rng.fork();
    both_implementations(out, &cs, mode, &drive_rng);
}

/// Run the scripts on both implementations and apply every oracle of the property.
fn both_implementations(out: &mut CaseOut, cs: &CaseScripts, mode: CutMode, drive_rng: &Rng) {
    let flags = cs.flags;
    out.sig(&(flags, &cs.vs, &cs.ms));
    let ctx = sample_of(cs);

    let client = client::run_client(flags, &cs.merged, cs.vs.len(), cs.ms.len(), mode, &mut drive_rng.clone(), true);
    let (hosted, extra) = hosted::run_hosted(flags, &cs.merged, cs.vs.len(), cs.ms.len(), mode, &mut drive_rng.clone(), &[]);
    out.count(&format!("cuts/{}", mode.name()));
    out.add("frames-with-split-body", (client.marks.value_split.iter().chain(client.marks.map_split.iter()).filter(|b| **b).count()) as u64);

    report_problems(out, Imp::Client, flags, &client, true, &ctx);
    report_problems(out, Imp::Hosted, flags, &hosted, true, &ctx);
    if out.inconclusive.is_some() {
        return;
    }
    let ok_c = judge(out, Imp::Client, cs, &client, true);
    let ok_h = judge(out, Imp::Hosted, cs, &hosted, true);

    // Stateless event downlink (client): fed with the value script.
    if let Some(et) = &client.etrace {
        let (f, st) = check(&CheckInput { mode: Mode::EventDl, imp: "client", flags, steps: &cs.vs, trace: et, marks: &[] });
        apply_stats(out, Imp::Client, "event", &st);
        if let Some(f) = f.filter(|f| {
            if after_body_split(&client, Kind::Value, f.step).is_some() {
                out.violation(P, "body-split/event/client", format!("divergence after the body of a frame was split across reads ({}: {})", f.rule, f.what), f.detail.clone());
                false
            } else {
                true
            }
        }) {
            out.violation(
                P,
                f.signature("event", "client", &flags),
                f.what,
                json!({"flags": flags.json(), "script": show_script(&cs.vs), "trace": show_trace(et), "divergence": f.detail}),
            );
        }
    }

    // The two implementations on what a well-behaved link produces: equal callback logs.
    for (slot, kind) in [Kind::Value, Kind::Map].into_iter().enumerate() {
        let steps = if kind == Kind::Value { &cs.vs } else { &cs.ms };
        if !well_behaved(steps) {
            out.count(&format!("equivalence/{}/not-compared-take-drop", kind.name()));
            continue;
        }
        let (tc, th) = (trace_of(&client, kind), trace_of(&hosted, kind));
        if tc == th {
            out.count(&format!("equivalence/{}/equal-logs", kind.name()));
        } else if ok_c[slot] && ok_h[slot] {
            // Both conform to the reference yet differ: the reference left a freedom that the
            // statement ("behave identically") does not.
            let first = tc.iter().zip(th.iter()).position(|(a, b)| a != b).unwrap_or(tc.len().min(th.len()));
            out.violation(
                P,
                format!("impl-equivalence/{}/both/{}", kind.name(), flags.sig()),
                "client and hosted callback logs differ on a sequence a well-behaved link can produce",
                json!({"flags": flags.json(), "script": show_script(steps), "first_difference": first,
                       "client": show_trace(tc), "hosted": show_trace(th)}),
            );
        } else {
            out.count(&format!("equivalence/{}/differ-explained-by-reported-divergence", kind.name()));
        }
    }

    output_observations(out, Imp::Client, &cs.vs, &cs.ms, &client);
    output_observations(out, Imp::Hosted, &cs.vs, &cs.ms, &hosted);
    for (imp, o) in [(Imp::Client, &client), (Imp::Hosted, &hosted)] {
        for cb in o.v_after_close.iter().chain(o.m_after_close.iter()) {
            out.count(&format!("after-close/{}/{}", imp.name(), cb.kind()));
        }
    }
    out.add("hosted/commands-run", extra.commands_run);
    out.add("hosted/handle-errors(after-terminate)", extra.handle_errors);
    out.count(&format!("config/{}", flags.sig()));
    // Non-trivial: both implementations exposed their state at least twice for both kinds.
    let exposed = |t: &[Cb]| t.iter().filter(|c| !matches!(c, Cb::Linked | Cb::Unlinked | Cb::Failed | Cb::Event(_))).count();
    out.nontrivial = exposed(&client.vtrace) + exposed(&client.mtrace) >= 2 && exposed(&hosted.vtrace) + exposed(&hosted.mtrace) >= 2;
    out.set_sample(ctx);
}

/// Symbols of the exhaustive enumeration. Alphabet A: everything a link may send, including
/// take/drop; alphabet B: what a swim-rust lane sends plus local writes.
const ALPHABET_A: [&str; 9] = ["upd1", "upd2", "rem1", "clr", "take1", "drop1", "synced", "relink", "upd1-again"];
const ALPHABET_B: [&str; 10] = ["upd1", "upd2", "rem1", "clr", "synced", "relink", "local-upd1", "local-rem1", "local-clr", "echo"];

fn exhaustive_script(mut code: u64, depth: u32, alphabet: &[&str]) -> Vec<Step> {
    let mut uniq = Uniq::new(1000);
    let mut steps = vec![Step::N(Note::Linked)];
    let mut synced = false;
    // What the link has said so far (to re-send the value key 1 holds) and the last local write (for
    // its echo).
    let mut shadow = Shadow::default();
    shadow.apply(&Note::Linked);
    let mut last_local: Option<LocalOp> = None;
    for _ in 0..depth {
        let sym = alphabet[(code % alphabet.len() as u64) as usize];
        code /= alphabet.len() as u64;
        let from = steps.len();
        match sym {
            // Key 1 once more with the value it holds (a first value if it holds none).
            "upd1-again" => {
                let v = shadow.map.get(&1).copied().unwrap_or_else(|| uniq.next());
                steps.push(Step::N(Note::Upd(1, v)));
            }
            // The lane sends back exactly what the downlink wrote last (nothing written: update k1).
            "echo" => steps.push(Step::N(match last_local.take() {
                Some(LocalOp::Upd(k, v)) => Note::Upd(k, v),
                Some(LocalOp::Rem(k)) => Note::Rem(k),
                Some(LocalOp::Clr) => Note::Clr,
                _ => Note::Upd(1, uniq.next()),
            })),
            "upd1" => steps.push(Step::N(Note::Upd(1, uniq.next()))),
            "upd2" => steps.push(Step::N(Note::Upd(2, uniq.next()))),
            "rem1" => steps.push(Step::N(Note::Rem(1))),
            "clr" => steps.push(Step::N(Note::Clr)),
            "take1" => steps.push(Step::N(Note::Take(1))),
            "drop1" => steps.push(Step::N(Note::Drop(1))),
            // A link syncs once: a second `synced` symbol stands for another event instead.
            "synced" if synced => steps.push(Step::N(Note::Rem(2))),
            "synced" => {
                synced = true;
                steps.push(Step::N(Note::Synced));
            }
            "relink" => {
                synced = false;
                steps.push(Step::N(Note::Unlinked));
                steps.push(Step::N(Note::Linked));
            }
            "local-upd1" => steps.push(Step::Local(LocalOp::Upd(1, uniq.next()))),
            "local-rem1" => steps.push(Step::Local(LocalOp::Rem(1))),
            _ => steps.push(Step::Local(LocalOp::Clr)),
        }
        for st in &steps[from..] {
            match st {
                Step::N(n) => shadow.apply(n),
                Step::Local(op) => last_local = Some(op.clone()),
                _ => {}
            }
        }
    }
    // Make the final state observable: on_synced if the link is not synced yet, else an update.
    if synced {
        steps.push(Step::N(Note::Upd(3, uniq.next())));
    } else {
        steps.push(Step::N(Note::Synced));
    }
    steps
}

fn exhaustive_case(case: u64, rng: &mut Rng, out: &mut CaseOut, depth: u32) {
    let flags = Flags::of_index(case % 4);
    let r = case / 4;
    let n_a = (ALPHABET_A.len() as u64).pow(depth);
    let (ms, which) = if r < n_a { (exhaustive_script(r, depth, &ALPHABET_A), "A") } else { (exhaustive_script(r - n_a, depth, &ALPHABET_B), "B") };
    let vs: Vec<Step> = vec![];
    let merged = index_merged(merge(rng, &vs, &ms));
    let cs = CaseScripts { flags, vs, ms, merged };
    out.count(&format!("alphabet/{which}"));
    let drive_rng = rng.fork();
    both_implementations(out, &cs, CutMode::HeaderOnly, &drive_rng);
    out.nontrivial = true;
}

/// Does the sequence leave the language of a well-behaved link?
fn illegality(steps: &[Step], kind: Kind) -> Vec<&'static str> {
    let mut linked = false;
    let mut synced = false;
    let mut has_value = false;
    let mut found = vec![];
    for s in steps {
        let Step::N(n) = s else { continue };
        match n {
            Note::Linked => {
                if linked {
                    found.push("double-linked");
                }
                linked = true;
                synced = false;
                has_value = false;
            }
            Note::Synced => {
                if !linked {
                    found.push("synced-while-unlinked");
                } else if synced {
                    found.push("double-synced");
                } else if kind == Kind::Value && !has_value {
                    found.push("synced-without-value");
                }
                synced = linked;
            }
            Note::Unlinked => {
                if !linked {
                    found.push("unlinked-while-unlinked");
                }
                linked = false;
                synced = false;
            }
            _ => {
                if !linked {
                    found.push("event-while-unlinked");
                }
                has_value = true;
            }
        }
    }
    found.sort_unstable();
    found.dedup();
    found
}

fn illegal_case(case: u64, rng: &mut Rng, out: &mut CaseOut) {
    let flags = Flags::of_index(case % 4);
    let mut uniq = Uniq::new(1000);
    let mut vs = gen_illegal(rng, Kind::Value, &mut uniq);
    let mut ms = gen_illegal(rng, Kind::Map, &mut uniq);
    // One case in six: the local handles are dropped somewhere, so that the rest of the arbitrary
    // sequence meets the client tasks in their read-only loop (and hosted downlinks whose write
    // stream has ended).
    if (case / 12) % 6 == 5 {
        vs = with_handle_drop(rng, vs, &flags).0;
        ms = with_handle_drop(rng, ms, &flags).0;
        out.count("illegal/handle-dropped-on-the-way");
    }
    let merged = index_merged(merge(rng, &vs, &ms));
    let cs = CaseScripts { flags, vs, ms, merged };
    out.sig(&(flags, &cs.vs, &cs.ms));
    let drive_rng = rng.fork();
    let ctx = sample_of(&cs);
    let mode = [CutMode::HeaderOnly, CutMode::Anywhere, CutMode::AnywhereSmallChannels][((case / 4) % 3) as usize];
    out.count(&format!("cuts/{}", mode.name()));
    let client = client::run_client(flags, &cs.merged, cs.vs.len(), cs.ms.len(), mode, &mut drive_rng.clone(), false);
    let (hosted, _extra) = hosted::run_hosted(flags, &cs.merged, cs.vs.len(), cs.ms.len(), mode, &mut drive_rng.clone(), &[]);
    report_problems(out, Imp::Client, flags, &client, false, &ctx);
    report_problems(out, Imp::Hosted, flags, &hosted, false, &ctx);
    let kinds_v = illegality(&cs.vs, Kind::Value);
    let kinds_m = illegality(&cs.ms, Kind::Map);
    for k in kinds_v.iter() {
        out.count(&format!("illegal/value/{k}"));
    }
    for k in kinds_m.iter() {
        out.count(&format!("illegal/map/{k}"));
    }
    out.events += (client.vtrace.len() + client.mtrace.len() + hosted.vtrace.len() + hosted.mtrace.len()) as u64;
    out.add("callbacks/client", (client.vtrace.len() + client.mtrace.len()) as u64);
    out.add("callbacks/hosted", (hosted.vtrace.len() + hosted.mtrace.len()) as u64);
    out.nontrivial = !kinds_v.is_empty() || !kinds_m.is_empty();
    out.set_sample(ctx);
}

/// Hosted only: the connection of one downlink is lost between two legal scripts A and B.
fn reconnect_case(case: u64, rng: &mut Rng, out: &mut CaseOut) {
    // Mostly the restartable configuration; the terminating one must *not* reconnect.
    let flags = Flags { events_when_not_synced: case & 1 == 1, terminate_on_unlinked: case % 8 >= 6 };
    let lost = if (case / 2) % 2 == 0 { Kind::Map } else { Kind::Value };
    let opts = GenOpts { local_writes: false, take_drop: case % 3 == 0, max_links: 2, terminates: flags.terminate_on_unlinked };
    let mut uniq = Uniq::new(1000);
    let a = gen_legal(rng, lost, &mut uniq, &opts);
    let b = gen_legal(rng, lost, &mut uniq, &opts);
    let other_kind = if lost == Kind::Map { Kind::Value } else { Kind::Map };
    let other = gen_legal(rng, other_kind, &mut uniq, &opts);
    let mut lost_script = a.clone();
    lost_script.extend(b.iter().cloned());
    let (vs, ms) = if lost == Kind::Value { (lost_script.clone(), other.clone()) } else { (other.clone(), lost_script.clone()) };
    out.sig(&(flags, lost, &a, &b, &other));
    // Merge so that the cut falls exactly between A and B of the lost kind.
    let merged = index_merged(merge(rng, &vs, &ms));
    let at = merged.iter().position(|(k, idx, _)| *k == lost && *idx == a.len()).unwrap_or(merged.len());
    let drive_rng = rng.fork();
    let ctx = json!({"flags": flags.json(), "lost": lost.name(), "script_before_loss": show_script(&a), "script_after_reconnect": show_script(&b), "other": show_script(&other)});
    let (obs, extra) = hosted::run_hosted(flags, &merged, vs.len(), ms.len(), CutMode::HeaderOnly, &mut drive_rng.clone(), &[Reconnect { at, kind: lost, loss: Loss::InputClosed }]);
    report_problems(out, Imp::Hosted, flags, &obs, true, &ctx);
    if out.inconclusive.is_some() {
        return;
    }
    let Some((_, before, after, reconnected)) = extra.closes.first().copied() else {
        out.inconclusive("reconnect point not reached");
        return;
    };
    let trace = trace_of(&obs, lost).to_vec();
    let seg = &trace[before.min(trace.len())..after.min(trace.len())];
    // What the reference says about the link when the connection was lost.
    let mut link_open = false;
    let mut terminated = false;
    for s in &a {
        if let Step::N(n) = s {
            if terminated {
                break;
            }
            match n {
                Note::Linked => link_open = true,
                Note::Unlinked => {
                    link_open = false;
                    terminated = flags.terminate_on_unlinked;
                }
                _ => {}
            }
        }
    }
    out.count(&format!("loss/link-open={}/terminated={}/callbacks={}", link_open as u8, terminated as u8, seg.iter().map(|c| c.kind()).collect::<Vec<_>>().join("+")));
    out.count(&format!("loss/reconnected={}/{}", reconnected as u8, flags.sig()));
    // The effective script: a loss while the link is open is reported as on_unlinked (observation:
    // the statement does not demand it; without it the logs cannot be aligned and only A is checked).
    let virtual_unlinked = seg == [Cb::Unlinked];
    if !seg.is_empty() && !virtual_unlinked {
        out.violation(
            P,
            format!("callbacks-at-connection-loss/{}/hosted/unlinked/{}", lost.name(), flags.sig()),
            "unexpected callbacks when the connection of the downlink was lost",
            json!({"context": ctx, "callbacks": show_trace(seg)}),
        );
        return;
    }
    let mut effective = a.clone();
    let mut marks: Vec<Option<(usize, usize)>> = obs.marks.of(lost)[..a.len()].to_vec();
    if virtual_unlinked {
        effective.push(Step::N(Note::Unlinked));
        marks.push(None);
    }
    let aligned = virtual_unlinked || !link_open || terminated;
    if reconnected && aligned {
        effective.extend(b.iter().cloned());
        marks.extend(obs.marks.of(lost)[a.len()..].iter().cloned());
    }
    let (finding, st) = check(&CheckInput {
        mode: if lost == Kind::Value { Mode::Value } else { Mode::Map },
        imp: "hosted",
        flags,
        steps: &effective,
        trace: &trace,
        marks: &marks,
    });
    apply_stats(out, Imp::Hosted, lost.name(), &st);
    if let Some(f) = finding {
        out.violation(
            P,
            format!("after-reconnect/{}", f.signature(lost.name(), "hosted", &flags)),
            f.what,
            json!({"context": ctx, "effective_script": show_script(&effective), "trace": show_trace(&trace), "divergence": f.detail}),
        );
    }
    // The downlink that kept its connection is checked as usual.
    let (f2, st2) = check_kind(Imp::Hosted, other_kind, flags, &other, &obs);
    apply_stats(out, Imp::Hosted, other_kind.name(), &st2);
    if let Some(f) = f2 {
        out.violation(
            P,
            f.signature(other_kind.name(), "hosted", &flags),
            f.what,
            json!({"context": ctx, "trace": show_trace(trace_of(&obs, other_kind)), "divergence": f.detail}),
        );
    }
    out.add("hosted/connections", extra.connections as u64);
    out.nontrivial = reconnected && st.callbacks_checked > 0;
    out.set_sample(ctx);
}

fn has_note_from(steps: &[Step], from: usize) -> bool {
    steps[from.min(steps.len())..].iter().any(|s| matches!(s, Step::N(_) | Step::SplitLocal(..)))
}

/// Both implementations: the local handle goes away (or the client's write side fails) somewhere in
/// a legal script and the notifications continue. Losing the handle is not a notification, so the
/// reference fold and every demanded callback are exactly those of the plain script.
fn read_only_case(case: u64, rng: &mut Rng, out: &mut CaseOut) {
    let flags = Flags::of_index(case % 4);
    // Variants 0 and 1: the handles of both downlinks are dropped. Variant 2: the write side of the
    // value downlink fails while its handle stays (the client value task then stops writing; the
    // client map task never does on a failed write, so its handle is dropped as before).
    let write_failure = (case / 4) % 3 == 2;
    let value_locals = (case / 12) % 2 == 1;
    let vopts = GenOpts { local_writes: value_locals, take_drop: false, max_links: 3, terminates: flags.terminate_on_unlinked };
    // No local map writes and no take/drop here: the client map downlink folds its own writes into
    // the replica and mishandles take/drop (known findings), and a case reports its first divergence
    // only - what happens in the read-only loop would be masked.
    let mopts = GenOpts { local_writes: false, ..vopts };
    let mut uniq = Uniq::new(1000);
    let vs = gen_legal(rng, Kind::Value, &mut uniq, &vopts);
    let ms = gen_legal(rng, Kind::Map, &mut uniq, &mopts);
    let (vs, vpos, vcause) = if write_failure {
        let (s, p) = with_write_failure(rng, &mut uniq, vs, &flags);
        (s, p, "write-failed")
    } else {
        let (s, p) = with_handle_drop(rng, vs, &flags);
        (s, p, "handle-dropped")
    };
    let (ms, mpos) = with_handle_drop(rng, ms, &flags);
    // Where in the life of the link the downlink lost its write side (as the script implies it).
    let vphase = phases(&vs, &flags)[vpos];
    let mphase = phases(&ms, &flags)[mpos];
    out.count(&format!("read-only/value/{vcause}/{vphase}/{}", flags.sig()));
    out.count(&format!("read-only/map/handle-dropped/{mphase}/{}", flags.sig()));
    let continues = has_note_from(&vs, vpos) || has_note_from(&ms, mpos);
    out.count(&format!("read-only/notifications-continue={}", continues as u8));
    let merged = index_merged(merge(rng, &vs, &ms));
    let cs = CaseScripts { flags, vs, ms, merged };
    let drive_rng = rng.fork();
    both_implementations(out, &cs, CutMode::HeaderOnly, &drive_rng);
    out.nontrivial &= continues;
    out.add("read-only/cases-with-a-reported-divergence", !out.violations.is_empty() as u64);
}

/// Hosted only: script A ends inside a link; the consumer of the downlink's output goes away and a
/// local write fails; the agent asks for a new connection on which script B is delivered.
fn writer_failure_case(case: u64, rng: &mut Rng, out: &mut CaseOut) {
    // Mostly the restartable configuration; a terminating downlink cannot be restarted and is
    // expected to be silent from then on.
    let flags = Flags { events_when_not_synced: case & 1 == 1, terminate_on_unlinked: (case / 4) % 8 == 7 };
    let lost = if (case / 2) % 2 == 0 { Kind::Value } else { Kind::Map };
    let opts = GenOpts { local_writes: (case / 4) % 4 == 2, take_drop: false, max_links: 2, terminates: flags.terminate_on_unlinked };
    let mut uniq = Uniq::new(1000);
    let full = gen_legal(rng, lost, &mut uniq, &opts);
    let Some(a) = cut_inside_link(rng, &full, &flags) else {
        out.inconclusive("generated script has no open link");
        return;
    };
    let b = gen_legal(rng, lost, &mut uniq, &opts);
    let other_kind = if lost == Kind::Map { Kind::Value } else { Kind::Map };
    let other = gen_legal(rng, other_kind, &mut uniq, &GenOpts { local_writes: false, ..opts });
    let trigger = gen_local_op(rng, &mut uniq, lost);
    // One case in four: the consumer does not go away *before* the write but in the middle of it
    // (small output channel, stalled consumer, one to three writes pending, then the consumer
    // goes): it is the pending write / flush that fails, not the next one.
    let during_write = (case / 16) % 4 == 3;
    // One in eight of those: the downlink's own write buffer (8 KiB) is full as well, so that it is
    // the readiness check of the sink that fails, with a value / operations still held back.
    let buffer_full = during_write && (case / 64) % 8 == 7;
    let fill: Option<(u64, u32)> = if buffer_full { Some(if lost == Kind::Value { (10_000_000_000_000_000_000, 330) } else { (10_000_000_000_000_001_000, 230) }) } else { None };
    let pending: Vec<LocalOp> = if during_write { (0..rng.range(0, 2)).map(|_| gen_local_op(rng, &mut uniq, lost)).collect() } else { vec![] };
    let mut lost_script = a.clone();
    lost_script.extend(b.iter().cloned());
    let (vs, ms) = if lost == Kind::Value { (lost_script.clone(), other.clone()) } else { (other.clone(), lost_script.clone()) };
    out.sig(&(flags, lost, &a, &trigger, &b, &other));
    let merged = index_merged(merge(rng, &vs, &ms));
    let at = merged.iter().position(|(k, idx, _)| *k == lost && *idx == a.len()).unwrap_or(merged.len());
    let drive_rng = rng.fork();
    let phase = *phases(&a, &flags).last().unwrap_or(&"before-link");
    let ctx = json!({"flags": flags.json(), "lost": lost.name(), "script_before_failure": show_script(&a), "failing_local_write": trigger.show(),
                     "script_on_new_connection": show_script(&b), "other": show_script(&other)});
    let (loss, env) = if during_write {
        let mut ops: Vec<LocalOp> = fill.map_or(vec![], |(first, n)| (0..n).map(|i| drive::fill_op(lost, first, i)).collect());
        ops.extend(pending.iter().cloned());
        ops.push(trigger.clone());
        (Loss::OutputFaultDuringWrite(ops), Env { out_cap: Some(*rng.pick(&[2usize, 4, 7])), out_stalled: false })
    } else {
        (Loss::OutputFault(trigger.clone()), Env::default())
    };
    out.count(&format!("writer-failure/consumer-gone={}", if buffer_full { "during-the-write+buffer-full" } else if during_write { "during-the-write" } else { "before-the-write" }));
    let (obs, extra) = hosted::run_hosted_in(flags, &merged, vs.len(), ms.len(), CutMode::HeaderOnly, &mut drive_rng.clone(), &[Reconnect { at, kind: lost, loss }], &env);
    report_problems(out, Imp::Hosted, flags, &obs, true, &ctx);
    if out.inconclusive.is_some() {
        return;
    }
    let Some((_, before, after, reconnected)) = extra.closes.first().copied() else {
        out.inconclusive("failure point not reached");
        return;
    };
    out.count(&format!("writer-failure/{}/{phase}/reconnected={}/{}", lost.name(), reconnected as u8, flags.sig()));
    let mut trace = trace_of(&obs, lost).to_vec();
    // The statement demands no callback when the connection is replaced; a single on_unlinked /
    // on_failed there would be a faithful report of what happened and is accepted (and removed
    // before the comparison). Anything else is a callback no notification demands.
    let (before, after) = (before.min(trace.len()), after.min(trace.len()));
    let seg: Vec<Cb> = trace[before..after].to_vec();
    match seg.as_slice() {
        [] => out.count("writer-failure/callbacks-at-failure=none"),
        [Cb::Unlinked] | [Cb::Failed] => {
            out.count(&format!("writer-failure/callbacks-at-failure={}", seg[0].kind()));
            trace.remove(before);
        }
        _ => {
            out.violation(
                P,
                format!("callbacks-at-writer-failure/{}/hosted/{}", lost.name(), flags.sig()),
                "unexpected callbacks when a write of the downlink failed and its connection was replaced",
                json!({"context": ctx, "callbacks": show_trace(&seg)}),
            );
            return;
        }
    }
    // The effective script: A, the local write, then - if the agent obtained a new connection - the
    // restart of the fold and B. Without a new connection nothing more can reach the downlink.
    let mut effective = a.clone();
    let mut marks: Vec<Option<(usize, usize)>> = obs.marks.of(lost)[..a.len()].to_vec();
    if let Some((first, n)) = fill {
        effective.push(Step::LocalFill { first, n });
        marks.push(None);
    }
    for op in pending.iter().chain(std::iter::once(&trigger)) {
        effective.push(Step::Local(op.clone()));
        marks.push(None);
    }
    if reconnected {
        effective.push(Step::Reconnected);
        marks.push(None);
        effective.extend(b.iter().cloned());
        marks.extend(obs.marks.of(lost)[a.len()..].iter().cloned());
    }
    let (finding, st) = check(&CheckInput {
        mode: if lost == Kind::Value { Mode::Value } else { Mode::Map },
        imp: "hosted",
        flags,
        steps: &effective,
        trace: &trace,
        marks: &marks,
    });
    apply_stats(out, Imp::Hosted, lost.name(), &st);
    if let Some(f) = finding {
        // Divergences found in A (before the failure) are the ordinary ones; those found afterwards
        // are named after the reconnection.
        let in_a = f.step.map_or(false, |s| s < a.len());
        let sig = if in_a { f.signature(lost.name(), "hosted", &flags) } else { format!("after-writer-failure/{}", f.signature(lost.name(), "hosted", &flags)) };
        out.violation(P, sig, f.what, json!({"context": ctx, "effective_script": show_script(&effective), "trace": show_trace(&trace), "divergence": f.detail}));
    }
    // The downlink that kept its connection is checked as usual.
    let (f2, st2) = check_kind(Imp::Hosted, other_kind, flags, &other, &obs);
    apply_stats(out, Imp::Hosted, other_kind.name(), &st2);
    if let Some(f) = f2 {
        out.violation(
            P,
            f.signature(other_kind.name(), "hosted", &flags),
            f.what,
            json!({"context": ctx, "trace": show_trace(trace_of(&obs, other_kind)), "divergence": f.detail}),
        );
    }
    out.add("hosted/connections", extra.connections as u64);
    // Non-trivial: the connection was replaced and callbacks of the new link were checked.
    out.nontrivial = reconnected && st.reconnections > 0 && trace.len() > before;
    out.add("writer-failure/cases-with-a-reported-divergence", !out.violations.is_empty() as u64);
    out.set_sample(ctx);
}

fn main() {
    let mut s = Session::new("dlimpl");
    if !s.prop().is_empty() && s.prop() != P {
        s.note(format!("engine dlimpl serves {P} only; nothing to run for {}", s.prop()));
        s.finish();
    }

    let cases = s.args.budget(80_000, 2_000_000);
    s.part(
        "legal",
        "one case = one value script and one map script of a well-behaved link (1-3 links, events before/after synced, unlinked, relink; most values fresh, but one update in six re-sends the value the entry holds, one value event in eight repeats the current value, one local write in three is echoed by the lane, one `synced` in five is followed by an entry of the snapshot once more; removes of absent keys, clears of an empty map, take/drop that keep everything; classes: plain / with local writes / with take+drop / both) under one of the four (events_when_not_synced, terminate_on_unlinked) settings, randomly merged and chunked, run on the client downlink tasks and on an agent hosting the downlinks; non-trivial when both implementations exposed their state in callbacks; distinct by hash of flags and scripts",
        false,
        cases,
        |c, rng, out| legal_case(c, rng, out, CutMode::HeaderOnly),
    );

    // Every map script of exactly `depth` symbols after `linked` (shorter ones are prefixes, and the
    // oracle checks every callback on the way), under all four settings, on both implementations.
    let depth: u32 = if s.args.scale < 0.01 {
        1
    } else if s.args.scale < 0.1 {
        2
    } else if s.args.scale < 1.0 {
        3
    } else if s.args.thorough() {
        5
    } else {
        4
    };
    let n = 4 * ((ALPHABET_A.len() as u64).pow(depth) + (ALPHABET_B.len() as u64).pow(depth));
    s.note(format!("exhaustive-map: depth {depth}, {n} cases"));
    s.part(
        "exhaustive-map",
        "all map scripts `linked` + d symbols + a final observation, d = 4 (quick) / 5 (thorough), over alphabet A {update k1, update k2, remove k1, clear, take 1, drop 1, synced, unlinked+linked, update k1 with the value it holds} and alphabet B {update k1, update k2, remove k1, clear, synced, unlinked+linked, local update k1, local remove k1, local clear, the lane's echo of the last local write}, times the four settings, on both implementations with all oracles of `legal`; every case is non-trivial (the final state is always exposed); distinct by flags and script",
        true,
        n,
        |c, rng, out| exhaustive_case(c, rng, out, depth),
    );

    let cases = s.args.budget(16_000, 400_000);
    s.part(
        "legal-anycut",
        "the same generator and oracles as `legal`, but frames are cut anywhere (even cases: large channels, the harness knows which bodies it split; odd cases: 2..64-byte channels, any body may be split). A divergence at or after the first frame whose body was split is reported under the rule `body-split` (frame decoder, C09/C10), anything before it under the ordinary rules; non-trivial and distinct as in `legal`",
        false,
        cases,
        |c, rng, out| legal_case(c, rng, out, if (c / 16) % 2 == 0 { CutMode::Anywhere } else { CutMode::AnywhereSmallChannels }),
    );

    let cases = s.args.budget(16_000, 400_000);
    s.part(
        "reconnect",
        "hosted only: legal script A, loss of the downlink's connection, legal script B on the connection the agent asks for next; the fold restarts with the new connection and the other downlink is unaffected; non-trivial when the agent reconnected and callbacks were checked; distinct by hash of flags and scripts",
        false,
        cases,
        reconnect_case,
    );

    let cases = s.args.budget(24_000, 600_000);
    s.part(
        "read-only",
        "one case = a value and a map script as in `legal` (no take/drop, local writes on the value downlink only and only before the loss) in which the local handle of each downlink is dropped at a point chosen evenly over the phases of the link (before `linked`, linked but not synced, synced, between links, after a terminating unlinked) - or, every third case, the consumer of the client value downlink's output goes away and two local sets fail - and the notifications continue; all four settings, both implementations (hosted: the agent drops its handle; it is run without the output fault), all oracles of `legal` including equal callback logs; non-trivial when notifications followed the loss and both implementations exposed their state; distinct by hash of flags and scripts",
        false,
        cases,
        read_only_case,
    );

    let cases = s.args.budget(12_000, 300_000);
    s.part(
        "writer-failure",
        "hosted only: legal script A cut inside a link (after `linked`, mostly after `synced`), then the consumer of the downlink's output goes away and a local write is issued (the write fails while the input is open and silent), then legal script B on the connection the agent asks for next; value and map downlinks alternate, 7 of 8 cases restartable (terminate_on_unlinked off); oracle: no callback (or a single on_unlinked/on_failed) at the failure, the fold restarts with the new connection (events of the new link before its `synced` are suppressed unless enabled, first on_set sees no previous value, maps start empty), the other downlink is unaffected; non-trivial when the agent reconnected and callbacks of the new link were checked; distinct by hash of flags and scripts",
        false,
        cases,
        writer_failure_case,
    );

    let cases = s.args.budget(24_000, 600_000);
    s.part(
        "illegal",
        "arbitrary notification sequences (double linked, synced before linked or without value, events while unlinked, repeated unlinked, take/drop with huge counts) with local writes, on both implementations: no panic, tasks finish when the input closes, the agent stops when asked; non-trivial when the sequence is outside the language of a well-behaved link; distinct by hash of flags and scripts",
        false,
        cases,
        illegal_case,
    );

    let cases = s.args.budget(12_000, 300_000);
    s.part(
        "input-failure",
        "one case = a value and a map script; in one or both the legal prefix A (cut evenly over the phases before `linked`, linked but not synced, synced, between links, after a terminating unlinked; one case in six with the local handle dropped earlier) is followed by a failure of the downlink's input - channel closed, a frame with an unknown tag, an event frame with an undecodable body, an event frame cut off by the end of the stream - and a legal script B; the same bytes go to the client tasks (value, event, map) and to the agent-hosted downlinks (B is delivered on the connection the agent asks for next, if it does). Oracle: A is judged as in `legal` on both implementations with equal logs; at the fault at most one on_unlinked / on_failed; afterwards nothing without a new connection, and with one the fold restarts (first on_set without previous value, maps empty, events before the new `synced` suppressed unless enabled); the untouched downlink conforms as usual; tasks end, the agent survives. Which callback reports the fault, the task result and whether the agent reconnects are counted only. Non-trivial when the fault was executed on both implementations and callbacks were compared; distinct by hash of flags and scripts",
        false,
        cases,
        extend::input_failure_case,
    );

    let cases = s.args.budget(8_000, 200_000);
    s.part(
        "write-pressure",
        "one case = a value and a map script of a well-behaved link with many local writes (isolated by quiescence or racing with the frames around them), output channels of 2..16 bytes on both implementations whose consumer stalls (from the start or at a point of the script) and resumes later or only at the end; end action after the stall began: none / handle.stop() (client: handle dropped) / handle dropped / consumer of the output gone (client only), often with a write right before it and one after it; one case in twelve first fills the downlink's own 8 KiB write buffer (up to 400 writes, until the handle refuses). Oracle: the callback traces as in `legal` (a stopped hosted downlink: at most one on_unlinked afterwards). What reaches the outputs is observed and counted only (`observed/output-*`: something not issued or out of order, something issued after stop, the last write before the end action missing after the consumer resumed - the statement of C08 is about the replica and the callbacks, not about local writes reaching the lane); the first witness per counter is in the notes. Non-trivial when writes were issued on both implementations and some reached the outputs; distinct by hash of flags, scripts and channel size",
        false,
        cases,
        extend::write_pressure_case,
    );
    for w in extend::observed_witnesses() {
        s.note(format!("write-pressure witness {w}"));
    }

    s.finish()
}
