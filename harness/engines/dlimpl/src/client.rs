//! Implementation (i): the stand-alone client downlinks of `swimos_downlink`, run through their
//! public entry point `DownlinkTask::run` with logging lifecycles.

use std::num::NonZeroUsize;
use std::sync::Arc;

use common::jitter::Jitter;
use common::Rng;
use bytes::BytesMut;
use parking_lot::Mutex;
use swimos_agent_protocol::encoding::downlink::DownlinkOperationDecoder;
use swimos_agent_protocol::encoding::map::MapOperationDecoder;
use swimos_agent_protocol::MapOperation;
use swimos_api::address::Address;
use swimos_api::error::DownlinkTaskError;
use swimos_client_api::{Downlink, DownlinkConfig};
use swimos_downlink::lifecycle::{BasicEventDownlinkLifecycle, BasicMapDownlinkLifecycle, BasicValueDownlinkLifecycle};
use swimos_downlink::{DownlinkTask, EventDownlinkModel, MapDownlinkHandle, MapDownlinkModel, ValueDownlinkModel, ValueDownlinkSet};
use swimos_utilities::byte_channel::{byte_channel, ByteReader, ByteWriter};
use tokio::io::{AsyncReadExt, AsyncWriteExt};
use tokio::sync::{mpsc, watch};
use tokio::task::JoinHandle;
use tokio_util::codec::Decoder;

use crate::drive::{drive, new_trace, settle, CutMode, ImplObs, Issue, Target, Trace, IO_TIMEOUT};
use crate::reference::Cb;
use crate::script::{Fault, Flags, Kind, LocalOp, Step};

fn nz(n: usize) -> NonZeroUsize {
    NonZeroUsize::new(n.max(1)).unwrap()
}

pub const CAPACITIES: [usize; 6] = [2, 5, 8, 16, 64, 4096];
/// Large enough for the whole input of a case: every write is taken at once.
pub const BIG: usize = 1 << 16;

pub fn draw_caps(rng: &mut Rng, mode: CutMode) -> Vec<usize> {
    (0..6).map(|_| { let c = *rng.pick(&CAPACITIES); if mode == CutMode::AnywhereSmallChannels { c } else { BIG } }).collect()
}

struct Input {
    writer: Option<ByteWriter>,
}

impl Input {
    async fn write(&mut self, chunk: &[u8], stuck: &mut Vec<String>, who: &str) -> bool {
        let Some(w) = self.writer.as_mut() else { return false };
        match tokio::time::timeout(IO_TIMEOUT, w.write_all(chunk)).await {
            Ok(Ok(())) => true,
            Ok(Err(_)) => {
                // The downlink dropped its reader: it terminated.
                self.writer = None;
                false
            }
            Err(_) => {
                stuck.push(format!("{who}: input bytes not accepted within virtual {IO_TIMEOUT:?}"));
                self.writer = None;
                false
            }
        }
    }
}

type Task = JoinHandle<Result<(), DownlinkTaskError>>;

struct ClientTarget {
    vtrace: Trace,
    mtrace: Trace,
    v_in: Input,
    e_in: Input,
    m_in: Input,
    /// None once the script dropped the handle.
    v_set: Option<mpsc::Sender<ValueDownlinkSet<u64>>>,
    m_handle: Option<MapDownlinkHandle<i32, u64>>,
    /// The tasks reading (and decoding) what the downlinks write; None once the script made the
    /// consumer of the output go away.
    v_out_reader: Option<JoinHandle<()>>,
    m_out_reader: Option<JoinHandle<()>>,
    v_gate: Gate,
    m_gate: Gate,
    /// The tasks themselves (to see whether a task ended when its input failed).
    v_task: Option<Task>,
    m_task: Option<Task>,
    stuck: Vec<String>,
}

impl Target for ClientTarget {
    async fn write(&mut self, kind: Kind, chunk: &[u8]) -> bool {
        match kind {
            Kind::Value => {
                // The event downlink receives the same bytes. The script goes on while either task
                // reads: if only one of them has stopped (they stop at the same `unlinked` unless
                // one of them is wrong), the other must still be given whole frames.
                let e = self.e_in.write(chunk, &mut self.stuck, "client event downlink").await;
                let v = self.v_in.write(chunk, &mut self.stuck, "client value downlink").await;
                e || v
            }
            Kind::Map => self.m_in.write(chunk, &mut self.stuck, "client map downlink").await,
        }
    }

    async fn local(&mut self, kind: Kind, op: &LocalOp, patient: bool) -> Issue {
        // A local write after the handle was dropped cannot be issued (the generators do not
        // produce one; the shrinker may).
        // While the consumer of the output is stalled the task may be blocked on its output and the
        // handle's queue full: that is back-pressure, not a stuck driver.
        let gate_open = *(if kind == Kind::Value { &self.v_gate } else { &self.m_gate }).borrow();
        let patient = patient && gate_open;
        let wait = if patient { IO_TIMEOUT } else { std::time::Duration::from_millis(2) };
        let r = match (op, self.v_set.as_ref(), self.m_handle.as_ref()) {
            (LocalOp::SetV(v), Some(h), _) => tokio::time::timeout(wait, h.send(ValueDownlinkSet { to: *v })).await.map(|r| r.is_ok()),
            (LocalOp::Upd(k, v), _, Some(h)) => tokio::time::timeout(wait, h.update(*k, *v)).await.map(|r| r.is_ok()),
            (LocalOp::Rem(k), _, Some(h)) => tokio::time::timeout(wait, h.remove(*k)).await.map(|r| r.is_ok()),
            (LocalOp::Clr, _, Some(h)) => tokio::time::timeout(wait, h.clear()).await.map(|r| r.is_ok()),
            _ => return Issue::NoHandle,
        };
        match r {
            Ok(true) => Issue::Taken,
            // The receiving side is gone: the task has ended.
            Ok(false) => Issue::NoHandle,
            Err(_) => {
                if patient {
                    self.stuck.push("client: local write not accepted by the handle".to_string());
                }
                Issue::Refused
            }
        }
    }

    async fn drop_handle(&mut self, kind: Kind) {
        match kind {
            Kind::Value => drop(self.v_set.take()),
            Kind::Map => drop(self.m_handle.take()),
        }
    }

    async fn output_fault(&mut self, kind: Kind) {
        let reader = match kind {
            Kind::Value => self.v_out_reader.take(),
            Kind::Map => self.m_out_reader.take(),
        };
        if let Some(r) = reader {
            // Dropping the reading task drops the `ByteReader`: the channel is closed for the writer.
            r.abort();
            let _ = r.await;
        }
    }

    fn output_gate(&mut self, kind: Kind, open: bool) {
        let _ = match kind {
            Kind::Value => self.v_gate.send(open),
            Kind::Map => self.m_gate.send(open),
        };
    }

    async fn stop(&mut self, kind: Kind) {
        // The client downlinks cannot be told to stop; the nearest thing is to give up the handle.
        self.drop_handle(kind).await;
    }

    async fn input_fault(&mut self, kind: Kind, fault: &Fault) {
        let (bytes, close) = fault.bytes(kind);
        if !bytes.is_empty() {
            let _ = self.write(kind, &bytes).await;
        }
        if close {
            match kind {
                Kind::Value => {
                    self.v_in.writer = None;
                    self.e_in.writer = None;
                }
                Kind::Map => self.m_in.writer = None,
            }
        }
    }

    async fn after_input_fault(&mut self, kind: Kind) -> (bool, bool) {
        let ended = match kind {
            Kind::Value => self.v_task.as_ref().map_or(true, |t| t.is_finished()),
            Kind::Map => self.m_task.as_ref().map_or(true, |t| t.is_finished()),
        };
        // A client downlink task has one connection for its whole life.
        (ended, false)
    }

    fn trace_len(&self, kind: Kind) -> usize {
        match kind {
            Kind::Value => self.vtrace.lock().len(),
            Kind::Map => self.mtrace.lock().len(),
        }
    }
}

fn value_lifecycle(trace: Trace) -> impl swimos_downlink::lifecycle::ValueDownlinkLifecycle<u64> + 'static {
    BasicValueDownlinkLifecycle::<u64>::default()
        .with(trace)
        .on_linked_blocking(|t| t.lock().push(Cb::Linked))
        .on_synced_blocking(|t, v| t.lock().push(Cb::SyncedV(*v)))
        .on_event_blocking(|t, v| t.lock().push(Cb::Event(*v)))
        .on_set_blocking(|t, old, new| t.lock().push(Cb::Set(old.copied(), *new)))
        .on_unlinked_blocking(|t| t.lock().push(Cb::Unlinked))
}

fn event_lifecycle(trace: Trace) -> impl swimos_downlink::lifecycle::EventDownlinkLifecycle<u64> + 'static {
    BasicEventDownlinkLifecycle::<u64>::default()
        .with(trace)
        .on_linked_blocking(|t| t.lock().push(Cb::Linked))
        .on_event_blocking(|t, v| t.lock().push(Cb::Event(*v)))
        .on_unlinked_blocking(|t| t.lock().push(Cb::Unlinked))
}

fn map_lifecycle(trace: Trace) -> impl swimos_downlink::lifecycle::MapDownlinkLifecycle<i32, u64> + 'static {
    BasicMapDownlinkLifecycle::<i32, u64>::default()
        .with(trace)
        .on_linked_blocking(|t| t.lock().push(Cb::Linked))
        .on_synced_blocking(|t, map| t.lock().push(Cb::SyncedM(map.clone())))
        .on_update_blocking(|t, k, map, old, new| t.lock().push(Cb::Update { k, map: map.clone(), old, new: *new }))
        .on_removed_blocking(|t, k, map, old| t.lock().push(Cb::Remove { k, map: map.clone(), old }))
        .on_clear_blocking(|t, old| t.lock().push(Cb::Clear(old)))
        .on_unlink_blocking(|t| t.lock().push(Cb::Unlinked))
}

/// How the harness plays the consumer of the downlinks' output (both implementations).
#[derive(Clone, Copy, Debug, Default)]
pub struct Env {
    /// Capacity of the output byte channels (None: the roomy default of the implementation's driver).
    pub out_cap: Option<usize>,
    /// The consumer of the output does not read until an `OutputGate(true)` step.
    pub out_stalled: bool,
}

pub type Gate = watch::Sender<bool>;

/// Reads the output of a downlink while the gate is open: bytes are taken from the channel only
/// then (a read that is waiting when the gate closes is abandoned, nothing is consumed by it).
async fn gated_frames<D: Decoder>(mut rx: ByteReader, mut dec: D, mut gate: watch::Receiver<bool>, mut sink: impl FnMut(D::Item)) {
    let mut buf = BytesMut::new();
    loop {
        while !*gate.borrow_and_update() {
            if gate.changed().await.is_err() {
                return;
            }
        }
        tokio::select! {
            biased;
            changed = gate.changed() => {
                if changed.is_err() {
                    return;
                }
            }
            n = rx.read_buf(&mut buf) => {
                let eof = !matches!(n, Ok(n) if n > 0);
                while let Ok(Some(item)) = dec.decode(&mut buf) {
                    sink(item);
                }
                if eof {
                    return;
                }
            }
        }
    }
}

pub async fn value_op_reader(rx: ByteReader, out: Arc<Mutex<Vec<u64>>>, gate: watch::Receiver<bool>) {
    gated_frames(rx, DownlinkOperationDecoder, gate, |op| {
        let v = std::str::from_utf8(op.body.as_ref()).ok().and_then(|s| s.trim().parse::<u64>().ok()).unwrap_or(u64::MAX);
        out.lock().push(v);
    })
    .await
}

pub async fn map_op_reader(rx: ByteReader, out: Arc<Mutex<Vec<LocalOp>>>, gate: watch::Receiver<bool>) {
    gated_frames(rx, MapOperationDecoder::<i32, u64>::default(), gate, |op| {
        out.lock().push(match op {
            MapOperation::Update { key, value } => LocalOp::Upd(key, value),
            MapOperation::Remove { key } => LocalOp::Rem(key),
            MapOperation::Clear => LocalOp::Clr,
        });
    })
    .await
}

/// Stable class of a task error (for counters).
fn error_class(e: &DownlinkTaskError) -> &'static str {
    match e {
        DownlinkTaskError::FailedToStart => "failed-to-start",
        DownlinkTaskError::BadFrame(_) => "bad-frame",
        DownlinkTaskError::DeserializationFailed(_) => "deserialization-failed",
        DownlinkTaskError::SyncedWithNoValue => "synced-with-no-value",
        _ => "other",
    }
}

async fn finish(task: Task, name: &'static str, kind: &'static str, obs: &mut ImplObs, errors_are_findings: bool) {
    match tokio::time::timeout(IO_TIMEOUT, task).await {
        Ok(Ok(Ok(()))) => obs.task_end.push((kind, "ok".into())),
        Ok(Ok(Err(e))) => {
            obs.task_end.push((kind, format!("error:{}", error_class(&e))));
            if errors_are_findings {
                obs.problems.push(("task-error", kind, format!("{name} failed on a legal sequence: {e}")));
            }
        }
        Ok(Err(join)) => {
            let msg = if join.is_panic() {
                let p = join.into_panic();
                p.downcast_ref::<&str>().map(|s| s.to_string()).or_else(|| p.downcast_ref::<String>().cloned()).unwrap_or_else(|| "panic".into())
            } else {
                "cancelled".to_string()
            };
            obs.problems.push(("panic", kind, format!("{name} panicked: {msg}")));
        }
        Err(_) => obs.problems.push(("no-termination-after-input-closed", kind, format!("{name} did not finish after its input was closed"))),
    }
}

/// Run the client value, event and map downlinks over the merged script.
pub fn run_client(flags: Flags, merged: &[(Kind, usize, Step)], n_value: usize, n_map: usize, mode: CutMode, rng: &mut Rng, legal: bool) -> ImplObs {
    run_client_in(flags, merged, n_value, n_map, mode, rng, legal, &Env::default())
}

/// As `run_client`, with the consumer of the outputs configured by `env`. A task whose input is made
/// to fail by the script may end with an error: that is recorded (`task_end`), not reported.
#[allow(clippy::too_many_arguments)]
pub fn run_client_in(flags: Flags, merged: &[(Kind, usize, Step)], n_value: usize, n_map: usize, mode: CutMode, rng: &mut Rng, legal: bool, env: &Env) -> ImplObs {
    let env = *env;
    let faulted = |kind: Kind| merged.iter().any(|(k, _, s)| *k == kind && matches!(s, Step::InputFault(_)));
    let (v_faulted, m_faulted) = (faulted(Kind::Value), faulted(Kind::Map));
    let rt = tokio::runtime::Builder::new_current_thread().enable_time().start_paused(true).build().expect("tokio runtime");
    let mut rng = rng.clone();
    rt.block_on(async move {
        let config =
            DownlinkConfig { events_when_not_synced: flags.events_when_not_synced, terminate_on_unlinked: flags.terminate_on_unlinked, buffer_size: nz(16) };
        let (vtrace, mtrace, etrace) = (new_trace(), new_trace(), new_trace());
        let caps = draw_caps(&mut rng, mode);
        // Poll-level jitter on every downlink task (delays at poll boundaries only).
        let jitter = *rng.pick(&[0u64, 0, 50, 300]);

        let (v_in_tx, v_in_rx) = byte_channel(nz(caps[0]));
        let (v_out_tx, v_out_rx) = byte_channel(nz(env.out_cap.unwrap_or(caps[1].max(64))));
        let (v_set, v_set_rx) = mpsc::channel(16);
        let v_model = ValueDownlinkModel::new(v_set_rx, value_lifecycle(vtrace.clone()));
        let v_task: Task = tokio::spawn(Jitter::new(DownlinkTask::new(v_model).run(Address::text(None, "/remote", "v"), config, v_in_rx, v_out_tx), rng.fork(), jitter));

        let (e_in_tx, e_in_rx) = byte_channel(nz(caps[2]));
        let (e_out_tx, _e_out_rx) = byte_channel(nz(64));
        let e_model = EventDownlinkModel::new(event_lifecycle(etrace.clone()));
        let e_task: Task = tokio::spawn(Jitter::new(DownlinkTask::new(e_model).run(Address::text(None, "/remote", "v"), config, e_in_rx, e_out_tx), rng.fork(), jitter));

        let (m_in_tx, m_in_rx) = byte_channel(nz(caps[3]));
        let (m_out_tx, m_out_rx) = byte_channel(nz(env.out_cap.unwrap_or(caps[4].max(64))));
        let (m_ops, m_ops_rx) = mpsc::channel(16);
        let m_model = MapDownlinkModel::new(m_ops_rx, map_lifecycle(mtrace.clone()));
        let m_task: Task = tokio::spawn(Jitter::new(DownlinkTask::new(m_model).run(Address::text(None, "/remote", "m"), config, m_in_rx, m_out_tx), rng.fork(), jitter));

        let v_out = Arc::new(Mutex::new(Vec::new()));
        let m_out = Arc::new(Mutex::new(Vec::new()));
        let (v_gate, v_gate_rx) = watch::channel(!env.out_stalled);
        let (m_gate, m_gate_rx) = watch::channel(!env.out_stalled);
        let r1 = tokio::spawn(value_op_reader(v_out_rx, v_out.clone(), v_gate_rx));
        let r2 = tokio::spawn(map_op_reader(m_out_rx, m_out.clone(), m_gate_rx));

        let mut target = ClientTarget {
            vtrace: vtrace.clone(),
            mtrace: mtrace.clone(),
            v_in: Input { writer: Some(v_in_tx) },
            e_in: Input { writer: Some(e_in_tx) },
            m_in: Input { writer: Some(m_in_tx) },
            v_set: Some(v_set),
            m_handle: Some(MapDownlinkHandle::new(m_ops)),
            v_out_reader: Some(r1),
            m_out_reader: Some(r2),
            v_gate,
            m_gate,
            v_task: Some(v_task),
            m_task: Some(m_task),
            stuck: vec![],
        };
        let marks = drive(&mut target, merged, n_value, n_map, mode, &mut rng).await;
        // Whatever the script did with the consumers of the outputs: they read from now on.
        target.output_gate(Kind::Value, true);
        target.output_gate(Kind::Map, true);
        settle().await;
        settle().await;
        let mut obs = ImplObs { marks, ..Default::default() };
        obs.vtrace = vtrace.lock().clone();
        obs.mtrace = mtrace.lock().clone();
        obs.etrace = Some(etrace.lock().clone());
        // Close the inputs: every task must now run to completion.
        let ClientTarget { v_in, e_in, m_in, v_set, m_handle, stuck, v_out_reader, m_out_reader, v_task, m_task, v_gate, m_gate, .. } = target;
        drop((v_in, e_in, m_in));
        settle().await;
        if let Some(v_task) = v_task {
            finish(v_task, "client value downlink task", "value", &mut obs, legal && !v_faulted).await;
        }
        finish(e_task, "client event downlink task", "event", &mut obs, legal && !v_faulted).await;
        if let Some(m_task) = m_task {
            finish(m_task, "client map downlink task", "map", &mut obs, legal && !m_faulted).await;
        }
        drop((v_set, m_handle));
        settle().await;
        drop((v_gate, m_gate));
        obs.v_after_close = vtrace.lock()[obs.vtrace.len()..].to_vec();
        obs.m_after_close = mtrace.lock()[obs.mtrace.len()..].to_vec();
        obs.v_out = v_out.lock().clone();
        obs.m_out = m_out.lock().clone();
        obs.stuck = stuck;
        for r in [v_out_reader, m_out_reader].into_iter().flatten() {
            r.abort();
        }
        obs
    })
}
