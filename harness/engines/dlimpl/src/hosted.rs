//! Implementation (ii): downlinks hosted by an agent. A derived agent, run by the real
//! `AgentRouteTask`, opens a value and a map downlink in `on_start` through the public
//! `HandlerContext` builders with logging lifecycle callbacks. The harness plays the part of the
//! server: it answers the runtime's `LinkRequest::Downlink` requests with byte channels it feeds
//! directly, and reaches the downlink handles (local writes) through a command lane.

use std::collections::{BTreeMap, HashMap};
use std::num::NonZeroUsize;
use std::sync::Arc;
use std::time::Duration;

use common::jitter::Jitter;
use common::Rng;
use futures::SinkExt;
use parking_lot::Mutex;
use swimos::agent::agent_lifecycle::HandlerContext;
use swimos::agent::agent_model::downlink::{MapDownlinkHandle, ValueDownlinkHandle};
use swimos::agent::agent_model::AgentModel;
use swimos::agent::config::{MapDownlinkConfig, SimpleDownlinkConfig};
use swimos::agent::event_handler::{EventHandler, HandlerActionExt};
use swimos::agent::lanes::CommandLane;
use swimos::agent::{lifecycle, projections, AgentLaneModel};
use swimos_api::address::RelativeAddress;
use swimos_api::agent::{AgentConfig, DownlinkKind};
use swimos_api::error::{DownlinkFailureReason, DownlinkRuntimeError};
use swimos_form::Form;
use swimos_messages::protocol::{RawRequestMessageEncoder, RequestMessage};
use swimos_recon::print_recon_compact;
use swimos_runtime::agent::{
    AgentAttachmentRequest, AgentExecError, AgentRouteChannels, AgentRouteDescriptor, AgentRouteTask, AgentRuntimeConfig, CombinedAgentConfig, LinkRequest,
};
use swimos_utilities::byte_channel::{byte_channel, ByteReader, ByteWriter};
use swimos_utilities::trigger::{self, promise};
use tokio::io::{AsyncReadExt, AsyncWriteExt};
use tokio::sync::{mpsc, watch};
use tokio::task::JoinHandle;
use tokio_util::codec::FramedWrite;
use uuid::Uuid;

use crate::client::{draw_caps, map_op_reader, value_op_reader, Env, Gate};
use crate::drive::{drive, new_trace, settle, CutMode, ImplObs, Issue, Marks, Target, Trace, IO_TIMEOUT};
use crate::reference::{Cb, Map};
use crate::script::{Fault, Flags, Kind, LocalOp, Step};

pub const NODE: &str = "/consumer";
pub const REMOTE_NODE: &str = "/remote";

#[projections]
#[derive(AgentLaneModel)]
pub struct DlAgent {
    cmd: CommandLane<Cmd>,
}

/// Local writes requested by the harness, executed on the downlink handles inside the agent.
#[derive(Form, Clone, Debug, PartialEq, Eq)]
pub enum Cmd {
    #[form(tag = "setv")]
    SetV { v: u64 },
    #[form(tag = "upd")]
    Upd { k: i32, v: u64 },
    #[form(tag = "rem")]
    Rem { k: i32 },
    #[form(tag = "clr")]
    Clr,
    /// Drop the handle of the value / map downlink held by the agent.
    #[form(tag = "dropv")]
    DropV,
    #[form(tag = "dropm")]
    DropM,
    /// `handle.stop()` on the value / map downlink.
    #[form(tag = "stopv")]
    StopV,
    #[form(tag = "stopm")]
    StopM,
}

type Slot<T> = Arc<Mutex<Option<T>>>;

#[derive(Clone)]
pub struct DlLifecycle {
    vtrace: Trace,
    mtrace: Trace,
    flags: Flags,
    vhandle: Slot<ValueDownlinkHandle<u64>>,
    mhandle: Slot<MapDownlinkHandle<i32, u64>>,
    /// Number of commands executed and of handle calls that reported an error.
    cmds: Arc<Mutex<(u64, u64)>>,
    /// What `is_linked()` / `is_stopped()` of a handle said in the commands executed after its
    /// `stop()` (observation only).
    probes: Arc<Mutex<BTreeMap<String, u64>>>,
    stopped: Arc<Mutex<(bool, bool)>>,
}

fn to_btree(m: &HashMap<i32, u64>) -> Map {
    m.iter().map(|(k, v)| (*k, *v)).collect::<BTreeMap<_, _>>()
}

#[lifecycle(DlAgent)]
impl DlLifecycle {
    #[on_start]
    fn on_start(&self, context: HandlerContext<DlAgent>) -> impl EventHandler<DlAgent> {
        let Flags { events_when_not_synced, terminate_on_unlinked } = self.flags;
        let vcfg = SimpleDownlinkConfig { events_when_not_synced, terminate_on_unlinked };
        let mcfg = MapDownlinkConfig { events_when_not_synced, terminate_on_unlinked };

        // Every closure below is called by the hosted downlink when it *creates* the handler for a
        // notification (that is where the state is exposed, so the snapshot is taken there); the
        // record is appended when the handler is executed by the agent task.
        let t = self.vtrace.clone();
        let (t1, t2, t3, t4, t5, t6) = (t.clone(), t.clone(), t.clone(), t.clone(), t.clone(), t);
        let open_value = context
            .value_downlink_builder::<u64>(None, REMOTE_NODE, "v", vcfg)
            .on_linked(move |ctx: HandlerContext<DlAgent>| {
                let t = t1.clone();
                ctx.effect(move || t.lock().push(Cb::Linked))
            })
            .on_synced(move |ctx: HandlerContext<DlAgent>, v: &u64| {
                let (t, v) = (t2.clone(), *v);
                ctx.effect(move || t.lock().push(Cb::SyncedV(v)))
            })
            .on_event(move |ctx: HandlerContext<DlAgent>, v: &u64| {
                let (t, v) = (t3.clone(), *v);
                ctx.effect(move || t.lock().push(Cb::Event(v)))
            })
            .on_set(move |ctx: HandlerContext<DlAgent>, old: Option<u64>, new: &u64| {
                let (t, new) = (t4.clone(), *new);
                ctx.effect(move || t.lock().push(Cb::Set(old, new)))
            })
            .on_unlinked(move |ctx: HandlerContext<DlAgent>| {
                let t = t5.clone();
                ctx.effect(move || t.lock().push(Cb::Unlinked))
            })
            .on_failed(move |ctx: HandlerContext<DlAgent>| {
                let t = t6.clone();
                ctx.effect(move || t.lock().push(Cb::Failed))
            })
            .done();

        let t = self.mtrace.clone();
        let (m1, m2, m3, m4, m5, m6, m7) = (t.clone(), t.clone(), t.clone(), t.clone(), t.clone(), t.clone(), t);
        let open_map = context
            .map_downlink_builder::<i32, u64>(None, REMOTE_NODE, "m", mcfg)
            .on_linked(move |ctx: HandlerContext<DlAgent>| {
                let t = m1.clone();
                ctx.effect(move || t.lock().push(Cb::Linked))
            })
            .on_synced(move |ctx: HandlerContext<DlAgent>, map: &HashMap<i32, u64>| {
                let (t, snap) = (m2.clone(), to_btree(map));
                ctx.effect(move || t.lock().push(Cb::SyncedM(snap)))
            })
            .on_update(move |ctx: HandlerContext<DlAgent>, k: i32, map: &HashMap<i32, u64>, old: Option<u64>, new: &u64| {
                let (t, snap, new) = (m3.clone(), to_btree(map), *new);
                ctx.effect(move || t.lock().push(Cb::Update { k, map: snap, old, new }))
            })
            .on_remove(move |ctx: HandlerContext<DlAgent>, k: i32, map: &HashMap<i32, u64>, old: u64| {
                let (t, snap) = (m4.clone(), to_btree(map));
                ctx.effect(move || t.lock().push(Cb::Remove { k, map: snap, old }))
            })
            .on_clear(move |ctx: HandlerContext<DlAgent>, old: HashMap<i32, u64>| {
                let (t, snap) = (m5.clone(), to_btree(&old));
                ctx.effect(move || t.lock().push(Cb::Clear(snap)))
            })
            .on_unlinked(move |ctx: HandlerContext<DlAgent>| {
                let t = m6.clone();
                ctx.effect(move || t.lock().push(Cb::Unlinked))
            })
            .on_failed(move |ctx: HandlerContext<DlAgent>| {
                let t = m7.clone();
                ctx.effect(move || t.lock().push(Cb::Failed))
            })
            .done();

        let (vslot, mslot) = (self.vhandle.clone(), self.mhandle.clone());
        open_value
            .and_then(move |h| context.effect(move || *vslot.lock() = Some(h)))
            .followed_by(open_map.and_then(move |h| context.effect(move || *mslot.lock() = Some(h))))
    }

    #[on_command(cmd)]
    fn on_cmd(&self, context: HandlerContext<DlAgent>, cmd: &Cmd) -> impl EventHandler<DlAgent> {
        let (vslot, mslot, counts) = (self.vhandle.clone(), self.mhandle.clone(), self.cmds.clone());
        let (probes, stopped) = (self.probes.clone(), self.stopped.clone());
        let cmd = cmd.clone();
        context.effect(move || {
            {
                // The state a handle reports once its downlink has been told to stop.
                let st = *stopped.lock();
                let mut p = probes.lock();
                if st.0 {
                    if let Some(h) = vslot.lock().as_ref() {
                        *p.entry(format!("after-stop/value/is_linked={}/is_stopped={}", h.is_linked() as u8, h.is_stopped() as u8)).or_insert(0) += 1;
                    }
                }
                if st.1 {
                    if let Some(h) = mslot.lock().as_ref() {
                        *p.entry(format!("after-stop/map/is_linked={}/is_stopped={}", h.is_linked() as u8, h.is_stopped() as u8)).or_insert(0) += 1;
                    }
                }
            }
            match cmd {
                Cmd::StopV => stopped.lock().0 = true,
                Cmd::StopM => stopped.lock().1 = true,
                _ => {}
            }
            let ok = match cmd {
                Cmd::SetV { v } => vslot.lock().as_mut().map(|h| h.set(v).is_ok()),
                Cmd::Upd { k, v } => mslot.lock().as_ref().map(|h| h.update(k, v).is_ok()),
                Cmd::Rem { k } => mslot.lock().as_ref().map(|h| h.remove(k).is_ok()),
                Cmd::Clr => mslot.lock().as_ref().map(|h| h.clear().is_ok()),
                Cmd::DropV => Some(vslot.lock().take().is_some()),
                Cmd::DropM => Some(mslot.lock().take().is_some()),
                Cmd::StopV => vslot.lock().as_mut().map(|h| {
                    h.stop();
                    true
                }),
                Cmd::StopM => mslot.lock().as_mut().map(|h| {
                    h.stop();
                    true
                }),
            };
            let mut c = counts.lock();
            c.0 += 1;
            if ok != Some(true) {
                c.1 += 1;
            }
        })
    }
}

fn nz(n: usize) -> NonZeroUsize {
    NonZeroUsize::new(n.max(1)).unwrap()
}

fn runtime_config() -> AgentRuntimeConfig {
    AgentRuntimeConfig {
        inactive_timeout: Duration::from_secs(1_000_000),
        prune_remote_delay: Duration::from_secs(1_000_000),
        shutdown_timeout: Duration::from_secs(30),
        item_init_timeout: Duration::from_secs(5),
        command_output_timeout: Duration::from_secs(1_000_000),
        ..Default::default()
    }
}

/// The harness side of one downlink connection (what the downlink runtime would hold).
pub struct Conn {
    pub kind: Kind,
    pub input: ByteWriter,
    pub output: ByteReader,
}

async fn link_server(mut link_rx: mpsc::Receiver<LinkRequest>, conns: mpsc::UnboundedSender<Conn>, caps: Vec<usize>, max_accept: usize, out_cap: usize) {
    let mut n = 0usize;
    while let Some(req) = link_rx.recv().await {
        match req {
            LinkRequest::Downlink(d) => {
                let kind = match (d.kind, d.address.lane.as_str()) {
                    (DownlinkKind::Value, "v") => Some(Kind::Value),
                    (DownlinkKind::Map, "m") => Some(Kind::Map),
                    _ => None,
                };
                match kind {
                    Some(kind) if n < max_accept => {
                        let cap_in = caps[n % caps.len()];
                        n += 1;
                        let (in_tx, in_rx) = byte_channel(nz(cap_in));
                        let (out_tx, out_rx) = byte_channel(nz(out_cap));
                        if d.promise.send(Ok((out_tx, in_rx))).is_ok() {
                            let _ = conns.send(Conn { kind, input: in_tx, output: out_rx });
                        }
                    }
                    _ => {
                        let _ = d.promise.send(Err(DownlinkRuntimeError::DownlinkConnectionFailed(DownlinkFailureReason::RemoteStopped)));
                    }
                }
            }
            LinkRequest::Commander(c) => {
                let _ = c.promise.send(Err(DownlinkRuntimeError::DownlinkConnectionFailed(DownlinkFailureReason::RemoteStopped)));
            }
        }
    }
}

struct HostedTarget {
    vtrace: Trace,
    mtrace: Trace,
    v_in: Option<ByteWriter>,
    m_in: Option<ByteWriter>,
    cmd: FramedWrite<ByteWriter, RawRequestMessageEncoder>,
    remote_id: Uuid,
    stuck: Vec<String>,
    /// Connections the agent was given and the harness has not taken up yet.
    conn_rx: mpsc::UnboundedReceiver<Conn>,
    /// The tasks reading what the downlinks write (one per live connection).
    readers: Vec<(Kind, JoinHandle<()>)>,
    v_out: Arc<Mutex<Vec<u64>>>,
    m_out: Arc<Mutex<Vec<LocalOp>>>,
    /// One gate per kind: it governs the reader of every connection of that kind.
    v_gate: Gate,
    m_gate: Gate,
    connections: usize,
}

impl HostedTarget {
    /// Take up the connections the agent asked for since the last call: the script continues on
    /// them. True when one of them belongs to the downlink of `want`.
    fn pickup(&mut self, want: Kind) -> bool {
        let mut got = false;
        while let Ok(c) = self.conn_rx.try_recv() {
            self.connections += 1;
            got |= c.kind == want;
            match c.kind {
                Kind::Value => {
                    self.v_in = Some(c.input);
                    self.readers.push((Kind::Value, tokio::spawn(value_op_reader(c.output, self.v_out.clone(), self.v_gate.subscribe()))));
                }
                Kind::Map => {
                    self.m_in = Some(c.input);
                    self.readers.push((Kind::Map, tokio::spawn(map_op_reader(c.output, self.m_out.clone(), self.m_gate.subscribe()))));
                }
            }
        }
        got
    }

    /// The consumer(s) of the output of the downlink of `kind` go away.
    async fn drop_readers(&mut self, kind: Kind) {
        let (gone, kept): (Vec<_>, Vec<_>) = std::mem::take(&mut self.readers).into_iter().partition(|(k, _)| *k == kind);
        self.readers = kept;
        for (_, r) in gone {
            r.abort();
            let _ = r.await;
        }
    }
}

impl HostedTarget {
    async fn write_to(slot: &mut Option<ByteWriter>, chunk: &[u8], stuck: &mut Vec<String>, who: &str) -> bool {
        let Some(w) = slot.as_mut() else { return false };
        match tokio::time::timeout(IO_TIMEOUT, w.write_all(chunk)).await {
            Ok(Ok(())) => true,
            Ok(Err(_)) => {
                *slot = None;
                false
            }
            Err(_) => {
                stuck.push(format!("{who}: input bytes not accepted within virtual {IO_TIMEOUT:?}"));
                *slot = None;
                false
            }
        }
    }
}

impl HostedTarget {
    async fn command(&mut self, cmd: Cmd) {
        let body = format!("{}", print_recon_compact(&cmd));
        let msg: RequestMessage<&str, &[u8]> = RequestMessage::command(self.remote_id, RelativeAddress::new(NODE, "cmd"), body.as_bytes());
        match tokio::time::timeout(IO_TIMEOUT, self.cmd.send(msg)).await {
            Ok(Ok(())) => {}
            Ok(Err(e)) => self.stuck.push(format!("hosted: command channel failed: {e}")),
            Err(_) => self.stuck.push("hosted: command not accepted by the runtime".to_string()),
        }
    }
}

impl Target for HostedTarget {
    async fn write(&mut self, kind: Kind, chunk: &[u8]) -> bool {
        match kind {
            Kind::Value => Self::write_to(&mut self.v_in, chunk, &mut self.stuck, "hosted value downlink").await,
            Kind::Map => Self::write_to(&mut self.m_in, chunk, &mut self.stuck, "hosted map downlink").await,
        }
    }

    async fn local(&mut self, _kind: Kind, op: &LocalOp, _patient: bool) -> Issue {
        let cmd = match op {
            LocalOp::SetV(v) => Cmd::SetV { v: *v },
            LocalOp::Upd(k, v) => Cmd::Upd { k: *k, v: *v },
            LocalOp::Rem(k) => Cmd::Rem { k: *k },
            LocalOp::Clr => Cmd::Clr,
        };
        // The hosted handles never wait (circular buffer / unbounded queue): a command that was
        // sent is a write that was issued.
        let before = self.stuck.len();
        self.command(cmd).await;
        if self.stuck.len() == before {
            Issue::Taken
        } else {
            Issue::NoHandle
        }
    }

    async fn drop_handle(&mut self, kind: Kind) {
        // The agent drops the handle when it executes the command: the downlink's write stream and
        // its stop trigger end, the downlink keeps reading.
        self.command(if kind == Kind::Value { Cmd::DropV } else { Cmd::DropM }).await;
    }

    async fn output_fault(&mut self, _kind: Kind) {
        // Inside a script the hosted implementation is run without the fault (the client's reading
        // side must behave as if nothing had happened, so the logs stay comparable); what a failed
        // write does to a hosted downlink is driven by `Loss::OutputFault`.
    }

    fn output_gate(&mut self, kind: Kind, open: bool) {
        let _ = match kind {
            Kind::Value => self.v_gate.send(open),
            Kind::Map => self.m_gate.send(open),
        };
    }

    async fn stop(&mut self, kind: Kind) {
        self.command(if kind == Kind::Value { Cmd::StopV } else { Cmd::StopM }).await;
    }

    async fn input_fault(&mut self, kind: Kind, fault: &Fault) {
        let (bytes, close) = fault.bytes(kind);
        if !bytes.is_empty() {
            let _ = self.write(kind, &bytes).await;
        }
        if close {
            match kind {
                Kind::Value => self.v_in = None,
                Kind::Map => self.m_in = None,
            }
        }
    }

    async fn after_input_fault(&mut self, kind: Kind) -> (bool, bool) {
        let slot = if kind == Kind::Value { &self.v_in } else { &self.m_in };
        // The downlink dropped its reader (or the harness closed the channel itself).
        let gave_up = slot.as_ref().map_or(true, |w| w.is_closed());
        let reconnected = self.pickup(kind);
        (gave_up, reconnected)
    }

    fn trace_len(&self, kind: Kind) -> usize {
        match kind {
            Kind::Value => self.vtrace.lock().len(),
            Kind::Map => self.mtrace.lock().len(),
        }
    }
}

/// How the connection of a hosted downlink fails.
#[derive(Clone, Debug)]
pub enum Loss {
    /// The harness drops its writer of the downlink's input: the downlink reads end-of-stream.
    InputClosed,
    /// Output side only: the reader of the downlink's output goes away and, once that is settled,
    /// the local write is issued, so that the downlink's write fails while its input is open and
    /// silent (no `unlinked`, no end-of-stream passes through the downlink before the agent
    /// replaces the connection).
    OutputFault(LocalOp),
    /// Output side only, the other way round: the reader of the (small) output channel stalls, the
    /// local writes are issued - the downlink is now in the middle of a write that cannot complete -
    /// and then the reader goes away, so that it is the pending write / flush that fails.
    OutputFaultDuringWrite(Vec<LocalOp>),
}

/// A scripted loss of the connection to the remote lane after which the agent is expected to ask
/// the runtime for a new connection (hosted only).
#[derive(Clone, Debug)]
pub struct Reconnect {
    /// Merged-script position *before* which the connection fails.
    pub at: usize,
    pub kind: Kind,
    pub loss: Loss,
}

#[derive(Default, Clone, Debug)]
pub struct HostedExtra {
    /// Number of downlink connections the agent asked for (2 at start, +1 per reconnect).
    pub connections: usize,
    pub commands_run: u64,
    pub handle_errors: u64,
    /// `is_linked()` / `is_stopped()` of the handles as seen by commands run after `stop()`.
    pub probes: BTreeMap<String, u64>,
    /// For each scripted close: (trace length of the kind before the close, after quiescence,
    /// whether a new connection was requested).
    pub closes: Vec<(Kind, usize, usize, bool)>,
}

/// Run the agent hosting a value and a map downlink over the merged script.
pub fn run_hosted(
    flags: Flags,
    merged: &[(Kind, usize, Step)],
    n_value: usize,
    n_map: usize,
    mode: CutMode,
    rng: &mut Rng,
    reconnects: &[Reconnect],
) -> (ImplObs, HostedExtra) {
    run_hosted_in(flags, merged, n_value, n_map, mode, rng, reconnects, &Env::default())
}

/// As `run_hosted`, with the consumer of the downlinks' outputs configured by `env`.
#[allow(clippy::too_many_arguments)]
pub fn run_hosted_in(
    flags: Flags,
    merged: &[(Kind, usize, Step)],
    n_value: usize,
    n_map: usize,
    mode: CutMode,
    rng: &mut Rng,
    reconnects: &[Reconnect],
    env: &Env,
) -> (ImplObs, HostedExtra) {
    let env = *env;
    // Every input fault of the script may make the agent ask for one more connection.
    let script_faults = merged.iter().filter(|(_, _, s)| matches!(s, Step::InputFault(_))).count();
    let rt = tokio::runtime::Builder::new_current_thread().enable_time().start_paused(true).build().expect("tokio runtime");
    let mut rng = rng.clone();
    rt.block_on(async move {
        let mut obs = ImplObs::default();
        let mut extra = HostedExtra::default();
        let (vtrace, mtrace) = (new_trace(), new_trace());
        let cmds = Arc::new(Mutex::new((0u64, 0u64)));
        let probes: Arc<Mutex<BTreeMap<String, u64>>> = Default::default();
        let lc = DlLifecycle {
            vtrace: vtrace.clone(),
            mtrace: mtrace.clone(),
            flags,
            vhandle: Default::default(),
            mhandle: Default::default(),
            cmds: cmds.clone(),
            probes: probes.clone(),
            stopped: Default::default(),
        };
        let agent = AgentModel::new(DlAgent::default, lc.into_lifecycle());
        let (att_tx, att_rx) = mpsc::channel(8);
        let (_http_tx, http_rx) = mpsc::channel(1);
        let (link_tx, link_rx) = mpsc::channel(8);
        let (stop_tx, stop_rx) = trigger::trigger();
        let config = CombinedAgentConfig { agent_config: AgentConfig::default(), runtime_config: runtime_config() };
        let identity = Uuid::from_u128(0xD1);
        let descriptor = AgentRouteDescriptor { identity, route: NODE.parse().expect("route uri"), route_params: HashMap::new() };
        let task = AgentRouteTask::new(&agent, descriptor, AgentRouteChannels::new(att_rx, http_rx, link_tx), stop_rx, config, None);
        // Same draws as the client run (capacities: first = value input, fourth = map input; jitter).
        let caps = draw_caps(&mut rng, mode);
        let jitter = *rng.pick(&[0u64, 0, 50, 300]);
        let agent_handle: JoinHandle<Result<(), AgentExecError>> = tokio::spawn(Jitter::new(task.run_agent(), rng.fork(), jitter));
        let (conn_tx, conn_rx) = mpsc::unbounded_channel();
        let server =
            tokio::spawn(link_server(link_rx, conn_tx, vec![caps[0], caps[3], caps[2], caps[5]], 2 + reconnects.len() + script_faults, env.out_cap.unwrap_or(256)));

        // Remote used to reach the command lane.
        let remote_id = Uuid::from_u128(0x1001);
        let (req_tx, req_rx) = byte_channel(nz(4096));
        let (resp_tx, mut resp_rx) = byte_channel(nz(4096));
        let (comp_tx, _comp_rx) = promise::promise();
        let (att_done_tx, att_done_rx) = trigger::trigger();
        let attached = att_tx.send(AgentAttachmentRequest::with_confirmation(remote_id, (resp_tx, req_rx), comp_tx, att_done_tx)).await.is_ok()
            && matches!(tokio::time::timeout(IO_TIMEOUT, att_done_rx).await, Ok(Ok(())));
        let drain = tokio::spawn(async move {
            let mut buf = [0u8; 1024];
            while let Ok(n) = resp_rx.read(&mut buf).await {
                if n == 0 {
                    break;
                }
            }
        });
        settle().await;

        let v_out = Arc::new(Mutex::new(Vec::new()));
        let m_out = Arc::new(Mutex::new(Vec::new()));
        let mut target = HostedTarget {
            vtrace: vtrace.clone(),
            mtrace: mtrace.clone(),
            v_in: None,
            m_in: None,
            cmd: FramedWrite::new(req_tx, RawRequestMessageEncoder),
            remote_id,
            stuck: vec![],
            conn_rx,
            readers: vec![],
            v_out: v_out.clone(),
            m_out: m_out.clone(),
            v_gate: watch::channel(!env.out_stalled).0,
            m_gate: watch::channel(!env.out_stalled).0,
            connections: 0,
        };
        target.pickup(Kind::Value);
        if !attached || target.v_in.is_none() || target.m_in.is_none() || agent_handle.is_finished() {
            obs.stuck.push(format!(
                "hosted set-up incomplete: attached={attached} value_conn={} map_conn={} agent_finished={}",
                target.v_in.is_some(),
                target.m_in.is_some(),
                agent_handle.is_finished()
            ));
        }

        // Drive the script, cut at the scripted connection losses.
        let mut marks = Marks::new(n_value, n_map);
        let mut from = 0usize;
        let mut cuts: Vec<Reconnect> = reconnects.to_vec();
        cuts.sort_by_key(|r| r.at);
        for rc in cuts.iter().chain(std::iter::once(&Reconnect { at: merged.len(), kind: Kind::Value, loss: Loss::InputClosed })) {
            let to = rc.at.min(merged.len()).max(from);
            let part = drive(&mut target, &merged[from..to], n_value, n_map, mode, &mut rng).await;
            marks.absorb(part);
            from = to;
            if rc.at >= merged.len() {
                break;
            }
            let before = target.trace_len(rc.kind);
            match &rc.loss {
                // Lose the connection of one downlink: drop the harness' writer.
                Loss::InputClosed => match rc.kind {
                    Kind::Value => target.v_in = None,
                    Kind::Map => target.m_in = None,
                },
                Loss::OutputFault(op) => {
                    // Dropping the reading task(s) drops the `ByteReader` of the output channel.
                    target.drop_readers(rc.kind).await;
                    settle().await;
                    target.local(rc.kind, op, true).await;
                }
                Loss::OutputFaultDuringWrite(ops) => {
                    target.output_gate(rc.kind, false);
                    settle().await;
                    for op in ops {
                        target.local(rc.kind, op, true).await;
                        settle().await;
                    }
                    target.drop_readers(rc.kind).await;
                    // The new connection's reader must read.
                    target.output_gate(rc.kind, true);
                }
            }
            settle().await;
            settle().await;
            let after = target.trace_len(rc.kind);
            let reconnected = target.pickup(rc.kind);
            extra.closes.push((rc.kind, before, after, reconnected));
        }
        // Whatever the script did with the consumers of the outputs: they read from now on.
        target.output_gate(Kind::Value, true);
        target.output_gate(Kind::Map, true);
        settle().await;
        settle().await;
        obs.marks = marks;
        obs.vtrace = vtrace.lock().clone();
        obs.mtrace = mtrace.lock().clone();

        // Stop the agent first (so that closing the channels does not start reconnection attempts),
        // then release everything.
        let agent_failed_early = agent_handle.is_finished();
        stop_tx.trigger();
        match tokio::time::timeout(Duration::from_secs(120), agent_handle).await {
            Ok(Ok(Ok(()))) => {
                if agent_failed_early {
                    obs.problems.push(("agent-stopped-by-itself", "agent", "the agent task finished before it was asked to stop".into()));
                }
            }
            Ok(Ok(Err(e))) => obs.problems.push(("agent-failed", "agent", format!("agent task failed: {e}"))),
            Ok(Err(join)) => {
                let msg = if join.is_panic() {
                    let p = join.into_panic();
                    p.downcast_ref::<&str>().map(|s| s.to_string()).or_else(|| p.downcast_ref::<String>().cloned()).unwrap_or_else(|| "panic".into())
                } else {
                    "cancelled".to_string()
                };
                obs.problems.push(("panic", "agent", format!("agent task panicked: {msg}")));
            }
            Err(_) => obs.problems.push(("no-termination-after-stop", "agent", "the agent did not stop within 120 virtual seconds of the stop signal".into())),
        }
        let HostedTarget { stuck, v_in, m_in, cmd, readers, connections, v_gate, m_gate, .. } = target;
        extra.connections = connections;
        drop((v_in, m_in, cmd));
        settle().await;
        obs.v_after_close = vtrace.lock()[obs.vtrace.len()..].to_vec();
        obs.m_after_close = mtrace.lock()[obs.mtrace.len()..].to_vec();
        obs.v_out = v_out.lock().clone();
        obs.m_out = m_out.lock().clone();
        obs.stuck.extend(stuck);
        let c = cmds.lock();
        extra.commands_run = c.0;
        extra.handle_errors = c.1;
        extra.probes = probes.lock().clone();
        server.abort();
        drain.abort();
        for (_, r) in readers {
            r.abort();
        }
        drop((v_gate, m_gate));
        (obs, extra)
    })
}
