//! The oracle: a reference fold of the notification sequence (Option for value downlinks, BTreeMap
//! for map downlinks) and a walker that compares the callback trace an implementation produced
//! against what the property statement demands at every notification.
//!
//! Soundness decisions (each demands no more than the statement of C08):
//!  * the state is the fold of the *notifications* since `linked`; local writes are requests to the
//!    lane and do not belong to it. A second fold that also applies local writes is carried along
//!    only to *name* a divergence precisely (rule `local-write-in-state`), never to excuse one;
//!  * `remove` of an absent key changes nothing, so no callback is demanded (and none accepted);
//!  * for `take`/`drop` only the state, the set of removed entries, and the absence of callbacks
//!    while events are suppressed are decided. The shape (one `on_clear` versus one `on_remove` per
//!    entry, order of the removes) is counted as an observation.

use std::collections::BTreeMap;

use common::{json, Json};

use crate::script::{Flags, LocalOp, Note, Step};

pub type Map = BTreeMap<i32, u64>;

/// One lifecycle callback with its arguments and the state the implementation exposed in it.
#[derive(Clone, Debug, PartialEq, Eq, Hash)]
pub enum Cb {
    Linked,
    Unlinked,
    Failed,
    SyncedV(u64),
    Event(u64),
    Set(Option<u64>, u64),
    SyncedM(Map),
    Update { k: i32, map: Map, old: Option<u64>, new: u64 },
    Remove { k: i32, map: Map, old: u64 },
    Clear(Map),
}

impl Cb {
    pub fn kind(&self) -> &'static str {
        match self {
            Cb::Linked => "on_linked",
            Cb::Unlinked => "on_unlinked",
            Cb::Failed => "on_failed",
            Cb::SyncedV(_) | Cb::SyncedM(_) => "on_synced",
            Cb::Event(_) => "on_event",
            Cb::Set(..) => "on_set",
            Cb::Update { .. } => "on_update",
            Cb::Remove { .. } => "on_remove",
            Cb::Clear(_) => "on_clear",
        }
    }

    fn is_event_callback(&self) -> bool {
        matches!(self, Cb::Event(_) | Cb::Set(..) | Cb::Update { .. } | Cb::Remove { .. } | Cb::Clear(_))
    }

    /// The notification kind an event callback reports (used for signatures only).
    fn note_kind(&self) -> &'static str {
        match self {
            Cb::Linked => "linked",
            Cb::Unlinked | Cb::Failed => "unlinked",
            Cb::SyncedV(_) | Cb::SyncedM(_) => "synced",
            Cb::Event(_) | Cb::Set(..) => "set",
            Cb::Update { .. } => "update",
            Cb::Remove { .. } => "remove",
            Cb::Clear(_) => "clear",
        }
    }

    /// The part of the callback that exposes the downlink's state.
    fn state(&self) -> Option<Json> {
        match self {
            Cb::SyncedV(v) => Some(json!(v)),
            Cb::SyncedM(m) | Cb::Update { map: m, .. } | Cb::Remove { map: m, .. } | Cb::Clear(m) => Some(show_map(m)),
            Cb::Set(old, _) => Some(json!(old)),
            _ => None,
        }
    }

    fn same_state(&self, other: &Cb) -> bool {
        self.state() == other.state()
    }

    pub fn show(&self) -> Json {
        match self {
            Cb::Linked | Cb::Unlinked | Cb::Failed => json!(self.kind()),
            Cb::SyncedV(v) => json!({"on_synced": v}),
            Cb::Event(v) => json!({"on_event": v}),
            Cb::Set(old, new) => json!({"on_set": {"old": old, "new": new}}),
            Cb::SyncedM(m) => json!({"on_synced": show_map(m)}),
            Cb::Update { k, map, old, new } => json!({"on_update": {"key": k, "old": old, "new": new, "map": show_map(map)}}),
            Cb::Remove { k, map, old } => json!({"on_remove": {"key": k, "old": old, "map": show_map(map)}}),
            Cb::Clear(m) => json!({"on_clear": show_map(m)}),
        }
    }
}

pub fn show_map(m: &Map) -> Json {
    Json::String(m.iter().map(|(k, v)| format!("{k}:{v}")).collect::<Vec<_>>().join(" "))
}

pub fn show_trace(t: &[Cb]) -> Json {
    Json::Array(t.iter().map(Cb::show).collect())
}

#[derive(Clone, Copy, Debug, PartialEq, Eq)]
pub enum Mode {
    Value,
    Map,
    /// Stateless event downlink fed with the value script: `on_event` per event while linked.
    EventDl,
}

#[derive(Clone, Default, Debug)]
struct Fold {
    val: Option<u64>,
    map: Map,
}

impl Fold {
    fn clear(&mut self) {
        self.val = None;
        self.map.clear();
    }

    fn apply(&mut self, n: &Note) {
        match n {
            Note::Set(v) => self.val = Some(*v),
            Note::Upd(k, v) => {
                self.map.insert(*k, *v);
            }
            Note::Rem(k) => {
                self.map.remove(k);
            }
            Note::Clr => self.map.clear(),
            Note::Take(n) => {
                let keep = usize::try_from(*n).unwrap_or(usize::MAX);
                let doomed: Vec<i32> = self.map.keys().skip(keep).copied().collect();
                for k in doomed {
                    self.map.remove(&k);
                }
            }
            Note::Drop(n) => {
                let cnt = usize::try_from(*n).unwrap_or(usize::MAX);
                let doomed: Vec<i32> = self.map.keys().take(cnt).copied().collect();
                for k in doomed {
                    self.map.remove(&k);
                }
            }
            Note::Linked | Note::Synced | Note::Unlinked => {}
        }
    }

    fn apply_local(&mut self, op: &LocalOp) {
        match op {
            LocalOp::SetV(v) => self.val = Some(*v),
            LocalOp::Upd(k, v) => {
                self.map.insert(*k, *v);
            }
            LocalOp::Rem(k) => {
                self.map.remove(k);
            }
            LocalOp::Clr => self.map.clear(),
        }
    }

    /// Callbacks demanded for a dispatched (non take/drop) event, given the state before it.
    fn callbacks(&self, n: &Note, mode: Mode) -> Vec<Cb> {
        match n {
            Note::Set(v) if mode == Mode::EventDl => vec![Cb::Event(*v)],
            Note::Set(v) => vec![Cb::Event(*v), Cb::Set(self.val, *v)],
            Note::Upd(k, v) => {
                let mut after = self.map.clone();
                let old = after.insert(*k, *v);
                vec![Cb::Update { k: *k, map: after, old, new: *v }]
            }
            Note::Rem(k) => {
                let mut after = self.map.clone();
                match after.remove(k) {
                    Some(old) => vec![Cb::Remove { k: *k, map: after, old }],
                    None => vec![],
                }
            }
            Note::Clr => vec![Cb::Clear(self.map.clone())],
            _ => vec![],
        }
    }

    fn synced(&self, mode: Mode) -> Vec<Cb> {
        match mode {
            Mode::Value => self.val.map(Cb::SyncedV).into_iter().collect(),
            Mode::Map => vec![Cb::SyncedM(self.map.clone())],
            Mode::EventDl => vec![],
        }
    }
}

#[derive(Clone, Copy, PartialEq, Eq, Debug)]
enum Link {
    Unlinked,
    Linked,
    Synced,
}

#[derive(Clone, Debug)]
pub struct Finding {
    pub rule: &'static str,
    pub note_kind: &'static str,
    pub what: String,
    pub detail: Json,
    /// Script step at which the divergence was found (None: left-over callbacks at the end).
    pub step: Option<usize>,
}

impl Finding {
    pub fn signature(&self, kind: &str, imp: &str, flags: &Flags) -> String {
        format!("{}/{}/{}/{}/{}", self.rule, kind, imp, self.note_kind, flags.sig())
    }
}

#[derive(Default, Clone, Debug)]
pub struct Stats {
    pub callbacks_checked: u64,
    pub state_observations: u64,
    pub suppressed_events: u64,
    pub synced_checked: u64,
    pub relinks: u64,
    /// New connections handed to the downlink while it had not terminated.
    pub reconnections: u64,
    pub frames_after_terminate: u64,
    pub locals_while_linked: u64,
    /// (counter name, occurrences): shapes of take/drop callbacks and the like.
    pub observations: Vec<String>,
    /// Notifications walked that repeat what the link already said (the state does not change):
    /// update with the value the entry holds, value event with the current value, echo of the local
    /// write just issued, remove of an absent key, clear of an empty map, take/drop that keeps
    /// everything - each split by whether its callbacks were due (`dispatched`) or suppressed.
    pub no_change: Vec<(&'static str, bool)>,
}

/// How a dispatched take/drop was reported.
fn check_take_drop_segment(seg: &[Cb], before: &Map, after: &Map) -> Result<&'static str, String> {
    let removed: Map = before.iter().filter(|(k, _)| !after.contains_key(k)).map(|(k, v)| (*k, *v)).collect();
    if seg.is_empty() {
        return if removed.is_empty() { Ok("none") } else { Err(format!("{} entries were removed from the state but no callback was made", removed.len())) };
    }
    if seg.len() == 1 {
        if let Cb::Clear(old) = &seg[0] {
            return if after.is_empty() && old == before {
                Ok("clear")
            } else if !after.is_empty() {
                Err("on_clear reported but the fold keeps entries".to_string())
            } else {
                Err("on_clear reported a map that differs from the fold".to_string())
            };
        }
    }
    // The statement fixes the state *after* the notification; while the entries of one take/drop
    // are being reported, both the progressively shrinking map and the final map are faithful
    // exposures of the fold (which of the two is an observation). Anything else is not.
    let mut current = before.clone();
    let mut left = removed;
    let (mut progressive, mut final_map) = (true, true);
    for cb in seg {
        match cb {
            Cb::Remove { k, map, old } => {
                match left.remove(k) {
                    Some(v) if v == *old => {}
                    Some(_) => return Err("on_remove reported a wrong old value".to_string()),
                    None => return Err("on_remove for an entry the fold does not remove".to_string()),
                }
                current.remove(k);
                progressive &= *map == current;
                final_map &= map == after;
                if !progressive && !final_map {
                    return Err("map passed to on_remove is neither the fold after the notification nor the fold minus the entries reported so far".to_string());
                }
            }
            other => return Err(format!("unexpected {} among the callbacks of a take/drop", other.kind())),
        }
    }
    if left.is_empty() {
        Ok(if progressive { "removes(progressive-map)" } else { "removes(final-map)" })
    } else {
        Err(format!("{} removed entries were not reported", left.len()))
    }
}

pub struct CheckInput<'a> {
    pub mode: Mode,
    pub imp: &'static str,
    pub flags: Flags,
    pub steps: &'a [Step],
    pub trace: &'a [Cb],
    /// Per step: trace length before / after the step when the step was isolated by quiescence
    /// (take/drop frames always are).
    pub marks: &'a [Option<(usize, usize)>],
}

/// Walk the script and the trace together; return the first divergence.
///
/// The verdict comes from the pure fold of the notifications. When it finds a divergence and the
/// script contains local writes, the walk is repeated with a fold that also applies the local
/// writes: if that walk gets past the point of divergence, the divergence is *named*
/// `local-write-in-state` (the implementation folded its own writes into the replica). It is still
/// a divergence from the statement; the second walk never excuses anything.
pub fn check(inp: &CheckInput<'_>) -> (Option<Finding>, Stats) {
    let mut stats = Stats::default();
    let finding = walk(inp, &mut stats, false);
    let has_local = inp.steps.iter().any(|s| matches!(s, Step::Local(_) | Step::SplitLocal(..) | Step::LocalRacing(_) | Step::LocalFill { .. }));
    let finding = finding.map(|(mut f, at)| {
        if has_local && f.rule != "harness-no-mark" {
            let mut scratch = Stats::default();
            let explained = match walk(inp, &mut scratch, true) {
                None => true,
                Some((_, at_alt)) => at_alt > at,
            };
            if explained {
                f.what = format!("the replica contains local writes, not only what the notifications imply ({}: {})", f.rule, f.what);
                f.rule = "local-write-in-state";
                f.note_kind = "local-write";
            }
        }
        f
    });
    (finding, stats)
}

fn classify(exp: &Cb, got: &Cb, link: Link, flags: &Flags) -> (&'static str, &'static str, String) {
    if link == Link::Linked && !flags.events_when_not_synced && got.is_event_callback() && !exp.is_event_callback() {
        return (
            "callback-before-sync-when-suppressed",
            got.note_kind(),
            format!("{} was called before on_synced although events_when_not_synced is off", got.kind()),
        );
    }
    if std::mem::discriminant(exp) == std::mem::discriminant(got) {
        if !exp.same_state(got) {
            ("state-at-callback", exp.note_kind(), format!("the state exposed to {} differs from the fold of the notifications", got.kind()))
        } else {
            ("callback-values", exp.note_kind(), format!("{} was called with wrong key/old/new values", got.kind()))
        }
    } else {
        ("callback-order", exp.note_kind(), format!("expected {} but {} was called", exp.kind(), got.kind()))
    }
}

/// Returns the first divergence and the trace index at which it was found.
fn walk(inp: &CheckInput<'_>, stats: &mut Stats, include_local: bool) -> Option<(Finding, usize)> {
    let CheckInput { mode, flags, steps, trace, marks, .. } = inp;
    let mode = *mode;
    let mut link = Link::Unlinked;
    let mut terminated = false;
    let mut fold = Fold::default();
    let mut cursor = 0usize;
    // The local write issued since the last notification (to recognise the lane's echo of it).
    let mut last_local: Option<LocalOp> = None;

    enum Op<'a> {
        L(&'a LocalOp),
        /// `n` local writes of a `LocalFill` (map: updates of the keys 100.. with values from `first`).
        Fill(u64, u32),
        N(&'a Note),
    }

    for (i, step) in steps.iter().enumerate() {
        let ops: Vec<Op<'_>> = match step {
            Step::N(n) => vec![Op::N(n)],
            Step::Local(op) | Step::LocalRacing(op) => vec![Op::L(op)],
            Step::LocalFill { first, n } => vec![Op::Fill(*first, *n)],
            Step::SplitLocal(n, op) => vec![Op::L(op), Op::N(n)],
            // Neither the loss of the local handle nor the loss / the stalling of the consumer of the
            // output is a notification: the fold and the demanded callbacks are unaffected. (`Stop`
            // and `InputFault` end what the walker can follow: the parts that use them cut the
            // script there.)
            Step::Barrier | Step::DropHandle | Step::OutputFault | Step::OutputGate(_) | Step::Stop { .. } | Step::InputFault(_) => vec![],
            Step::Reconnected => {
                // The downlink reads from a new connection: whatever link it had is gone, although
                // no notification said so. "Received since it linked" now refers to the next
                // `linked`, so the fold restarts and events of the new link are subject to
                // `events_when_not_synced` again until its own `synced`. No callback is demanded
                // here. A downlink that terminated stays terminated.
                if !terminated {
                    link = Link::Unlinked;
                    fold.clear();
                    stats.reconnections += 1;
                }
                vec![]
            }
        };
        for op in ops {
            let note = match op {
                Op::L(l) => {
                    last_local = Some(l.clone());
                    if link != Link::Unlinked && !terminated {
                        stats.locals_while_linked += 1;
                        if include_local {
                            fold.apply_local(l);
                        }
                    }
                    continue;
                }
                Op::Fill(first, n) => {
                    if link != Link::Unlinked && !terminated {
                        stats.locals_while_linked += n as u64;
                        if include_local {
                            for j in 0..n {
                                fold.apply_local(&match mode {
                                    Mode::Map => LocalOp::Upd(100 + j as i32, first + j as u64),
                                    _ => LocalOp::SetV(first + j as u64),
                                });
                            }
                        }
                    }
                    continue;
                }
                Op::N(n) => n,
            };
            let echoed = last_local.take();
            if terminated {
                stats.frames_after_terminate += 1;
                continue;
            }
            let ctx = |exp: Json, got: Json, at: usize| json!({"step": i, "notification": note.show(), "expected": exp, "got": got, "trace_index": at});
            // State in which a stray callback would have been made (before the transition).
            let link_before = link;
            let expected: Vec<Cb> = match note {
                Note::Linked => {
                    if link == Link::Unlinked {
                        link = Link::Linked;
                        fold.clear();
                        vec![Cb::Linked]
                    } else {
                        vec![]
                    }
                }
                Note::Synced => {
                    if link == Link::Linked {
                        if mode != Mode::EventDl {
                            link = Link::Synced;
                        }
                        stats.synced_checked += 1;
                        fold.synced(mode)
                    } else {
                        vec![]
                    }
                }
                Note::Unlinked => {
                    if link != Link::Unlinked {
                        stats.relinks += 1;
                    }
                    link = Link::Unlinked;
                    fold.clear();
                    if flags.terminate_on_unlinked {
                        terminated = true;
                    }
                    vec![Cb::Unlinked]
                }
                ev => {
                    if link == Link::Unlinked {
                        // Not produced by the legal generator; an implementation must ignore it.
                        vec![]
                    } else {
                        let dispatch = link == Link::Synced || flags.events_when_not_synced || mode == Mode::EventDl;
                        if !dispatch {
                            stats.suppressed_events += 1;
                        }
                        // Notifications that leave the state as it is. They are notifications like
                        // any other: the statement lists the callback of each (old == new is a
                        // legitimate pair), except where there is nothing to report (absent key).
                        let is_echo = match (&echoed, ev) {
                            (Some(LocalOp::SetV(a)), Note::Set(b)) => a == b,
                            (Some(LocalOp::Upd(k1, a)), Note::Upd(k2, b)) => k1 == k2 && a == b,
                            (Some(LocalOp::Rem(k1)), Note::Rem(k2)) => k1 == k2,
                            (Some(LocalOp::Clr), Note::Clr) => true,
                            _ => false,
                        };
                        if is_echo {
                            stats.no_change.push(("echo-of-local-write", dispatch));
                        }
                        let same = match ev {
                            Note::Set(v) if fold.val == Some(*v) => Some("value-event-with-current-value"),
                            Note::Upd(k, v) if fold.map.get(k) == Some(v) => Some("update-with-value-held"),
                            Note::Rem(k) if !fold.map.contains_key(k) => Some("remove-of-absent-key"),
                            Note::Clr if fold.map.is_empty() => Some("clear-of-empty-map"),
                            _ => None,
                        };
                        if let Some(name) = same {
                            stats.no_change.push((name, dispatch));
                        }
                        if ev.is_take_drop() {
                            let before = fold.map.clone();
                            fold.apply(ev);
                            let Some((lo, hi)) = marks.get(i).copied().flatten() else {
                                return Some((
                                    Finding {
                                        rule: "harness-no-mark",
                                        note_kind: ev.kind(),
                                        what: "take/drop step was not isolated by the driver".into(),
                                        detail: json!({"step": i}),
                                        step: Some(i),
                                    },
                                    cursor,
                                ));
                            };
                            let hi = hi.min(trace.len());
                            let lo = lo.min(hi);
                            if cursor < lo {
                                let got = &trace[cursor];
                                let (rule, nk) = if link == Link::Linked && !flags.events_when_not_synced && got.is_event_callback() {
                                    ("callback-before-sync-when-suppressed", got.note_kind())
                                } else {
                                    ("unexpected-callback", got.note_kind())
                                };
                                return Some((
                                    Finding {
                                        rule,
                                        note_kind: nk,
                                        what: format!("{} was called although no notification demands it", got.kind()),
                                        detail: ctx(json!(null), got.show(), cursor),
                                        step: Some(i),
                                    },
                                    cursor,
                                ));
                            }
                            let seg = &trace[lo..hi];
                            if !dispatch {
                                if let Some(got) = seg.first() {
                                    return Some((
                                        Finding {
                                            rule: "callback-before-sync-when-suppressed",
                                            note_kind: ev.kind(),
                                            what: format!(
                                                "{} callback(s) ({}) for a {} received before synced although events_when_not_synced is off",
                                                seg.len(),
                                                got.kind(),
                                                ev.kind()
                                            ),
                                            detail: ctx(json!([]), show_trace(seg), lo),
                                            step: Some(i),
                                        },
                                        lo,
                                    ));
                                }
                            } else {
                                match check_take_drop_segment(seg, &before, &fold.map) {
                                    Ok(shape) => {
                                        let extent = if before.len() == fold.map.len() {
                                            "noop"
                                        } else if fold.map.is_empty() {
                                            "all"
                                        } else {
                                            "some"
                                        };
                                        stats.observations.push(format!("shape/{}/{}/{}={}", inp.imp, ev.kind(), extent, shape));
                                        stats.callbacks_checked += seg.len() as u64;
                                        stats.state_observations += seg.len() as u64;
                                    }
                                    Err(why) => {
                                        return Some((
                                            Finding {
                                                rule: "take-drop-callbacks",
                                                note_kind: ev.kind(),
                                                what: why,
                                                detail: ctx(
                                                    json!({"state_before": show_map(&before), "state_after": show_map(&fold.map)}),
                                                    show_trace(seg),
                                                    lo,
                                                ),
                                                step: Some(i),
                                            },
                                            lo,
                                        ));
                                    }
                                }
                            }
                            cursor = hi;
                            continue;
                        }
                        let e = if dispatch { fold.callbacks(ev, mode) } else { vec![] };
                        fold.apply(ev);
                        e
                    }
                }
            };
            for exp in expected.iter() {
                match trace.get(cursor) {
                    None => {
                        return Some((
                            Finding {
                                rule: "missing-callback",
                                note_kind: exp.note_kind(),
                                what: format!("{} was never called", exp.kind()),
                                detail: ctx(exp.show(), json!(null), cursor),
                                step: Some(i),
                            },
                            cursor,
                        ));
                    }
                    Some(got) if got == exp => {
                        stats.callbacks_checked += 1;
                        if exp.state().is_some() {
                            stats.state_observations += 1;
                        }
                        cursor += 1;
                    }
                    Some(got) => {
                        let (rule, nk, what) = classify(exp, got, link_before, flags);
                        return Some((Finding { rule, note_kind: nk, what, detail: ctx(exp.show(), got.show(), cursor), step: Some(i) }, cursor));
                    }
                }
            }
        }
    }
    if cursor < trace.len() {
        let got = &trace[cursor];
        let (rule, nk) = if terminated {
            ("callback-after-terminate", got.note_kind())
        } else if link == Link::Linked && !flags.events_when_not_synced && got.is_event_callback() {
            ("callback-before-sync-when-suppressed", got.note_kind())
        } else {
            ("unexpected-callback", got.note_kind())
        };
        return Some((
            Finding {
                rule,
                note_kind: nk,
                what: format!("{} was called although no notification demands it", got.kind()),
                detail: json!({"trace_index": cursor, "got": got.show(), "remaining": trace.len() - cursor}),
                step: None,
            },
            cursor,
        ));
    }
    None
}

/// True when the script contains only what a swim-rust lane emits (no take/drop): the class of
/// sequences on which the two implementations' callback logs must be equal.
pub fn well_behaved(steps: &[Step]) -> bool {
    steps.iter().all(|s| match s {
        Step::N(n) | Step::SplitLocal(n, _) => !n.is_take_drop(),
        // A new connection is a fault of the hosted environment, not something a link produces.
        Step::Reconnected => false,
        _ => true,
    })
}
