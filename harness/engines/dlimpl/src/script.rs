//! Notification scripts: what a lane can send to a downlink (`linked`, events, `synced`, `unlinked`,
//! relink), interleaved local writes, the generators of legal and illegal sequences, and the
//! encoding of notifications into the frames the runtime hands to a downlink.

use bytes::{Bytes, BytesMut};
use common::{json, Json, Rng};
use swimos_agent_protocol::encoding::downlink::DownlinkNotificationEncoder;
use swimos_agent_protocol::encoding::map::MapMessageEncoder;
use swimos_agent_protocol::{DownlinkNotification, MapMessage};
use tokio_util::codec::Encoder;

#[derive(Clone, Copy, Debug, PartialEq, Eq, Hash, PartialOrd, Ord)]
pub enum Kind {
    Value,
    Map,
}

impl Kind {
    pub fn name(self) -> &'static str {
        match self {
            Kind::Value => "value",
            Kind::Map => "map",
        }
    }
}

/// One notification from the runtime to the downlink.
#[derive(Clone, Debug, PartialEq, Eq, Hash)]
pub enum Note {
    Linked,
    Synced,
    Unlinked,
    /// Value downlink event.
    Set(u64),
    Upd(i32, u64),
    Rem(i32),
    Clr,
    Take(u64),
    Drop(u64),
}

impl Note {
    /// Name used in signatures (never data).
    pub fn kind(&self) -> &'static str {
        match self {
            Note::Linked => "linked",
            Note::Synced => "synced",
            Note::Unlinked => "unlinked",
            Note::Set(_) => "set",
            Note::Upd(..) => "update",
            Note::Rem(_) => "remove",
            Note::Clr => "clear",
            Note::Take(_) => "take",
            Note::Drop(_) => "drop",
        }
    }

    pub fn is_take_drop(&self) -> bool {
        matches!(self, Note::Take(_) | Note::Drop(_))
    }

    pub fn encode(&self) -> Bytes {
        let mut enc = DownlinkNotificationEncoder;
        let mut buf = BytesMut::new();
        let raw: DownlinkNotification<Vec<u8>> = match self {
            Note::Linked => DownlinkNotification::Linked,
            Note::Synced => DownlinkNotification::Synced,
            Note::Unlinked => DownlinkNotification::Unlinked,
            Note::Set(v) => DownlinkNotification::Event { body: format!("{v}").into_bytes() },
            other => {
                let msg: MapMessage<i32, u64> = match other {
                    Note::Upd(k, v) => MapMessage::Update { key: *k, value: *v },
                    Note::Rem(k) => MapMessage::Remove { key: *k },
                    Note::Clr => MapMessage::Clear,
                    Note::Take(n) => MapMessage::Take(*n),
                    Note::Drop(n) => MapMessage::Drop(*n),
                    _ => unreachable!(),
                };
                let mut body = BytesMut::new();
                MapMessageEncoder::default().encode(msg, &mut body).expect("encoding a map message into memory");
                DownlinkNotification::Event { body: body.to_vec() }
            }
        };
        enc.encode(raw, &mut buf).expect("encoding a notification into memory");
        buf.freeze()
    }

    pub fn show(&self) -> String {
        match self {
            Note::Linked => "linked".into(),
            Note::Synced => "synced".into(),
            Note::Unlinked => "unlinked".into(),
            Note::Set(v) => format!("set({v})"),
            Note::Upd(k, v) => format!("update({k},{v})"),
            Note::Rem(k) => format!("remove({k})"),
            Note::Clr => "clear".into(),
            Note::Take(n) => format!("take({n})"),
            Note::Drop(n) => format!("drop({n})"),
        }
    }
}

/// A write issued locally through the downlink's handle.
#[derive(Clone, Debug, PartialEq, Eq, Hash)]
pub enum LocalOp {
    SetV(u64),
    Upd(i32, u64),
    Rem(i32),
    Clr,
}

impl LocalOp {
    pub fn show(&self) -> String {
        match self {
            LocalOp::SetV(v) => format!("local-set({v})"),
            LocalOp::Upd(k, v) => format!("local-update({k},{v})"),
            LocalOp::Rem(k) => format!("local-remove({k})"),
            LocalOp::Clr => "local-clear".into(),
        }
    }
}

/// A failure of the downlink's *input* (the channel on which the runtime delivers notifications).
/// None of these is something a well-behaved link produces; the statement of C08 says nothing about
/// what a downlink does with them, only the fold before and (after a new connection) after them is
/// decided.
#[derive(Clone, Debug, PartialEq, Eq, Hash)]
pub enum Fault {
    /// The writer of the input is dropped between two frames: end of stream.
    Closed,
    /// A frame whose first byte is not one of the four notification tags.
    BadTag(u8),
    /// An event frame (correct header) whose body cannot be a value of the downlink's type / a map
    /// message; the number selects the body.
    BadBody(u8),
    /// An event frame whose header announces more bytes than arrive before the end of the stream.
    Truncated,
}

/// Bodies that are no `u64`.
const BAD_VALUE_BODIES: [&[u8]; 4] = [b"abc", b"@update(key:1) 2", b"\xff\xfe\xfd", b"{1,"];
/// Bodies that are no map message with an `i32` key and a `u64` value.
const BAD_MAP_BODIES: [&[u8]; 4] = [b"@bogus", b"7", b"@update(key:nokey) 5", b"\xff\xfe\xfd"];

impl Fault {
    /// Class used in signatures and counters (never data).
    pub fn class(&self) -> &'static str {
        match self {
            Fault::Closed => "closed",
            Fault::BadTag(_) => "bad-tag",
            Fault::BadBody(_) => "bad-body",
            Fault::Truncated => "truncated",
        }
    }

    /// The bytes to write into the input and whether the writer is dropped afterwards.
    pub fn bytes(&self, kind: Kind) -> (Vec<u8>, bool) {
        let event = |body: &[u8], announced: usize| {
            let mut v = vec![3u8];
            v.extend_from_slice(&(announced as u64).to_be_bytes());
            v.extend_from_slice(body);
            v
        };
        match self {
            Fault::Closed => (vec![], true),
            Fault::BadTag(t) => (vec![*t], false),
            Fault::BadBody(i) => {
                let table = if kind == Kind::Value { &BAD_VALUE_BODIES } else { &BAD_MAP_BODIES };
                let body = table[*i as usize % table.len()];
                (event(body, body.len()), false)
            }
            Fault::Truncated => {
                let body: &[u8] = if kind == Kind::Value { b"123" } else { b"@update(key:1) 2" };
                (event(&body[..body.len() - 1], body.len() + 4), true)
            }
        }
    }

    pub fn show(&self) -> String {
        match self {
            Fault::Closed => "input-closed".into(),
            Fault::BadTag(t) => format!("frame-with-tag({t})"),
            Fault::BadBody(i) => format!("event-with-undecodable-body(#{i})"),
            Fault::Truncated => "truncated-event-then-input-closed".into(),
        }
    }
}

pub fn gen_fault(rng: &mut Rng) -> Fault {
    match rng.below(8) {
        0..=2 => Fault::Closed,
        3..=4 => Fault::BadTag(*rng.pick(&[0u8, 5, 0x7f, 0xff])),
        5..=6 => Fault::BadBody(rng.below(4) as u8),
        _ => Fault::Truncated,
    }
}

#[derive(Clone, Debug, PartialEq, Eq, Hash)]
pub enum Step {
    /// Deliver the frame (chunked at random), do not wait for it to be processed.
    N(Note),
    /// Quiesce, issue the local write, quiesce.
    Local(LocalOp),
    /// Deliver a first part of the frame, quiesce, issue the local write, quiesce, deliver the rest:
    /// the local write is handled while a partial frame sits in the decoder. Its meaning for the
    /// oracle is `Local(op)` followed by `N(note)`.
    SplitLocal(Note, LocalOp),
    /// Wait for quiescence.
    Barrier,
    /// Every local handle of the downlink is dropped (client: the sender of the set / actions
    /// channel, so the task enters its read-only loop; hosted: the handle held by the agent, so the
    /// write stream ends). The downlink keeps receiving: nothing changes for the oracle.
    DropHandle,
    /// The consumer of the downlink's output channel goes away (output side only; the input stays
    /// open). Nothing fails until the downlink next writes, i.e. until a later local write. Client:
    /// the value task enters its read-only loop when the second write after the fault finds the
    /// failed flush, the reading side is unaffected. Hosted: a no-op inside a script (what a failed
    /// write does to a hosted downlink - a reconnection - is driven by `hosted::Loss::OutputFault`).
    OutputFault,
    /// Oracle only (never executed by a driver): the downlink was given a new connection. The link
    /// is gone without any notification, the fold restarts with the next `linked`; no callback is
    /// demanded for it.
    Reconnected,
    /// The input of the downlink fails (isolated by quiescence on both sides). Client: the task ends
    /// (nothing later in the script can reach it). Hosted: the agent may ask for a new connection,
    /// on which the rest of the script is delivered. Never reaches the reference walker: the parts
    /// that use it build the effective script around it.
    InputFault(Fault),
    /// The consumer of the downlink's output stops (`false`) / resumes (`true`) reading. While it is
    /// stalled the (small) output channel fills up and the downlink's writes are back-pressured. Not
    /// a notification: nothing changes for the fold.
    OutputGate(bool),
    /// The local write is issued without waiting for quiescence before or after it (it races with
    /// the frames around it and with the local operations next to it). Oracle: as `Local`.
    LocalRacing(LocalOp),
    /// `n` local writes, each followed by quiescence, with 20-digit values starting at `first`
    /// (value: sets; map: updates of the distinct keys 100, 101, ...), issued until the handle
    /// refuses one: enough bytes to fill the downlink's own write buffer while the consumer of the
    /// output is stalled. Oracle: as that many `Local`s.
    LocalFill { first: u64, n: u32 },
    /// The downlink is told to stop: hosted `handle.stop()`; the client downlinks have no such call
    /// and lose their handle instead (as `DropHandle`). `racing`: issued right behind the local
    /// write before it, without quiescence in between ("set; stop"). Never reaches the reference
    /// walker.
    Stop { racing: bool },
}

impl Step {
    pub fn show(&self) -> String {
        match self {
            Step::N(n) => n.show(),
            Step::Local(op) => op.show(),
            Step::SplitLocal(n, op) => format!("[{} | {} inside the frame]", n.show(), op.show()),
            Step::Barrier => "barrier".into(),
            Step::DropHandle => "drop-local-handle".into(),
            Step::OutputFault => "output-reader-gone".into(),
            Step::Reconnected => "new-connection".into(),
            Step::InputFault(f) => f.show(),
            Step::OutputGate(open) => if *open { "output-reader-resumes".into() } else { "output-reader-stalls".into() },
            Step::LocalRacing(op) => format!("{} (not isolated)", op.show()),
            Step::LocalFill { first, n } => format!("{n} local writes from value {first}"),
            Step::Stop { racing } => if *racing { "stop (right behind the write)".into() } else { "stop".into() },
        }
    }
}

#[derive(Clone, Copy, Debug, PartialEq, Eq, Hash)]
pub struct Flags {
    pub events_when_not_synced: bool,
    pub terminate_on_unlinked: bool,
}

impl Flags {
    pub fn of_index(i: u64) -> Flags {
        Flags { events_when_not_synced: i & 1 == 1, terminate_on_unlinked: i & 2 == 2 }
    }

    pub fn sig(&self) -> String {
        format!("ewns={}/term={}", self.events_when_not_synced as u8, self.terminate_on_unlinked as u8)
    }

    pub fn json(&self) -> Json {
        json!({"events_when_not_synced": self.events_when_not_synced, "terminate_on_unlinked": self.terminate_on_unlinked})
    }
}

/// Source of unique values: every value written anywhere in a case is distinct, so a value seen in a
/// callback identifies the notification (or local write) it came from.
pub struct Uniq(u64);

impl Uniq {
    pub fn new(base: u64) -> Uniq {
        Uniq(base)
    }
    pub fn next(&mut self) -> u64 {
        self.0 += 1;
        self.0
    }
}

#[derive(Clone, Copy, Debug)]
pub struct GenOpts {
    pub local_writes: bool,
    pub take_drop: bool,
    pub max_links: u64,
    /// The downlink stops at the first `unlinked`: mostly generate a single (longer) link, and only
    /// sometimes further links (which must then be ignored).
    pub terminates: bool,
}

fn key(rng: &mut Rng) -> i32 {
    // Small domain with negative keys: collisions are frequent and the numeric order differs from
    // the order of the printed text, which is what take/drop must not confuse.
    *rng.pick(&[-10, -2, -1, 0, 1, 2, 3, 10, 11])
}

fn map_event(rng: &mut Rng, uniq: &mut Uniq, opts: &GenOpts, size_hint: u64) -> Note {
    let r = rng.below(if opts.take_drop { 20 } else { 16 });
    match r {
        0..=8 => Note::Upd(key(rng), uniq.next()),
        9..=13 => Note::Rem(key(rng)),
        14..=15 => Note::Clr,
        16..=17 => Note::Take(rng.below(size_hint + 2)),
        _ => Note::Drop(rng.below(size_hint + 2)),
    }
}

/// A local write that certainly puts bytes on the output (used to make a write fail).
pub fn gen_local_op(rng: &mut Rng, uniq: &mut Uniq, kind: Kind) -> LocalOp {
    local_op(rng, uniq, kind)
}

fn local_op(rng: &mut Rng, uniq: &mut Uniq, kind: Kind) -> LocalOp {
    match kind {
        Kind::Value => LocalOp::SetV(uniq.next()),
        Kind::Map => match rng.below(6) {
            0..=2 => LocalOp::Upd(key(rng), uniq.next()),
            3..=4 => LocalOp::Rem(key(rng)),
            _ => LocalOp::Clr,
        },
    }
}

/// A sequence a well-behaved lane can produce: per link `linked`, events, optionally `synced` (a
/// value lane always sends its value before `synced`), more events, `unlinked`; then possibly a
/// relink. Frames generated after an `unlinked` under `terminate_on_unlinked` are kept on purpose:
/// the oracle demands that nothing is dispatched any more.
pub fn gen_legal(rng: &mut Rng, kind: Kind, uniq: &mut Uniq, opts: &GenOpts) -> Vec<Step> {
    let mut notes: Vec<Note> = Vec::new();
    let links = if opts.terminates && rng.chance(3, 4) { 1 } else { rng.range(1, opts.max_links) };
    for link in 0..links {
        // One link attempt in eight is refused: the remote answers with `unlinked` straight away (lane or
        // node not found), which is then the first - or, after an earlier link, the next - notification.
        if rng.chance(1, 8) {
            notes.push(Note::Unlinked);
            if link + 1 == links {
                break;
            }
            continue;
        }
        notes.push(Note::Linked);
        let mut approx_size = 0u64;
        let will_sync = rng.chance(5, 6);
        let pre = match kind {
            Kind::Value => rng.range(if will_sync { 1 } else { 0 }, 3),
            Kind::Map => rng.below(7),
        };
        let post = if will_sync { rng.below(7) } else { 0 };
        for phase in 0..2 {
            let n = if phase == 0 { pre } else { post };
            for _ in 0..n {
                match kind {
                    Kind::Value => notes.push(Note::Set(uniq.next())),
                    Kind::Map => {
                        let ev = map_event(rng, uniq, opts, approx_size);
                        if matches!(ev, Note::Upd(..)) {
                            approx_size += 1;
                        }
                        notes.push(ev);
                    }
                }
            }
            if phase == 0 && will_sync {
                notes.push(Note::Synced);
            }
        }
        if link + 1 < links || rng.chance(3, 4) {
            notes.push(Note::Unlinked);
        } else {
            break;
        }
    }
    // Second pass: local writes, and notifications that change nothing. Values are fresh by
    // default (a value seen in a callback then names the notification it came from); with a small
    // probability a notification instead repeats what the link has already said: an update re-sends
    // the value the entry holds (also right after `synced`: an entry of the snapshot arrives once
    // more as an ordinary event), a value event repeats the current value, the lane echoes a local
    // write (it sends back exactly what the downlink wrote). Removes of absent keys, clears of an
    // empty map and take/drop that keep everything come out of the event generator anyway. The
    // shadow is the fold of the notifications of the current link, as the statement defines it.
    let mut shadow = Shadow::default();
    let mut steps: Vec<Step> = Vec::new();
    if opts.local_writes && rng.chance(1, 6) {
        steps.push(Step::Local(local_op(rng, uniq, kind)));
    }
    for n in notes {
        let n = match n {
            Note::Set(_) if shadow.linked && rng.chance(1, 8) => shadow.val.map_or(n, Note::Set),
            Note::Upd(k, v) if shadow.linked && rng.chance(1, 6) => match shadow.map.get(&k) {
                Some(cur) => Note::Upd(k, *cur),
                // The key drawn is absent: re-send some entry that is there.
                None if !shadow.map.is_empty() && rng.bool() => {
                    let (k2, v2) = shadow.map.iter().nth(rng.usize_below(shadow.map.len())).map(|(k, v)| (*k, *v)).unwrap_or((k, v));
                    Note::Upd(k2, v2)
                }
                None => n,
            },
            other => other,
        };
        shadow.apply(&n);
        let just_synced = matches!(n, Note::Synced);
        let lw = opts.local_writes && rng.chance(1, 4);
        let mut echo_of: Option<LocalOp> = None;
        if lw && !n.is_take_drop() && rng.chance(1, 3) {
            let op = local_op(rng, uniq, kind);
            echo_of = Some(op.clone());
            steps.push(Step::SplitLocal(n, op));
        } else {
            steps.push(Step::N(n));
            if lw {
                let op = local_op(rng, uniq, kind);
                echo_of = Some(op.clone());
                steps.push(Step::Local(op));
            } else if rng.chance(1, 8) {
                steps.push(Step::Barrier);
            }
        }
        // The lane's answer to the local write: exactly what was written.
        if let Some(op) = echo_of {
            if shadow.linked && rng.chance(1, 3) {
                let echo = match op {
                    LocalOp::SetV(v) => Note::Set(v),
                    LocalOp::Upd(k, v) => Note::Upd(k, v),
                    LocalOp::Rem(k) => Note::Rem(k),
                    LocalOp::Clr => Note::Clr,
                };
                shadow.apply(&echo);
                steps.push(Step::N(echo));
            }
        }
        // An entry of the snapshot (the value) arrives once more right after `synced`.
        if just_synced && shadow.linked && rng.chance(1, 5) {
            let again = match kind {
                Kind::Value => shadow.val.map(Note::Set),
                Kind::Map if !shadow.map.is_empty() => shadow.map.iter().nth(rng.usize_below(shadow.map.len())).map(|(k, v)| Note::Upd(*k, *v)),
                Kind::Map => None,
            };
            if let Some(a) = again {
                steps.push(Step::N(a));
            }
        }
    }
    steps
}

/// The generator's own fold of the notifications of the current link (to know which value a key
/// holds when it decides to re-send it). Never used by an oracle.
#[derive(Default)]
pub struct Shadow {
    pub linked: bool,
    pub val: Option<u64>,
    pub map: std::collections::BTreeMap<i32, u64>,
}

impl Shadow {
    pub fn apply(&mut self, n: &Note) {
        match n {
            Note::Linked => {
                self.linked = true;
                self.val = None;
                self.map.clear();
            }
            Note::Unlinked => {
                self.linked = false;
                self.val = None;
                self.map.clear();
            }
            Note::Synced => {}
            _ if !self.linked => {}
            Note::Set(v) => self.val = Some(*v),
            Note::Upd(k, v) => {
                self.map.insert(*k, *v);
            }
            Note::Rem(k) => {
                self.map.remove(k);
            }
            Note::Clr => self.map.clear(),
            Note::Take(n) => {
                let keep = usize::try_from(*n).unwrap_or(usize::MAX);
                let doomed: Vec<i32> = self.map.keys().skip(keep).copied().collect();
                for k in doomed {
                    self.map.remove(&k);
                }
            }
            Note::Drop(n) => {
                let cnt = usize::try_from(*n).unwrap_or(usize::MAX);
                let doomed: Vec<i32> = self.map.keys().take(cnt).copied().collect();
                for k in doomed {
                    self.map.remove(&k);
                }
            }
        }
    }
}

/// Arbitrary notification sequences (double `linked`, `synced` before `linked`, events while
/// unlinked, repeated `synced`/`unlinked`, huge take/drop counts): run for panics and hangs only.
pub fn gen_illegal(rng: &mut Rng, kind: Kind, uniq: &mut Uniq) -> Vec<Step> {
    let n = rng.range(3, 30);
    let mut steps = Vec::new();
    // The last update / set sent: one event in eight sends it once more.
    let mut last: Option<Note> = None;
    for _ in 0..n {
        if let Some(l) = last.clone() {
            if rng.chance(1, 8) {
                steps.push(Step::N(l));
                continue;
            }
        }
        let note = match rng.below(10) {
            0..=1 => Note::Linked,
            2..=3 => Note::Synced,
            4 => Note::Unlinked,
            _ => match kind {
                Kind::Value => Note::Set(uniq.next()),
                Kind::Map => match rng.below(12) {
                    0..=4 => Note::Upd(key(rng), uniq.next()),
                    5..=6 => Note::Rem(key(rng)),
                    7 => Note::Clr,
                    8 => Note::Take(*rng.pick(&[0, 1, 2, 5, u32::MAX as u64, u64::MAX])),
                    9 => Note::Drop(*rng.pick(&[0, 1, 2, 5, u32::MAX as u64, u64::MAX])),
                    10 => Note::Take(rng.below(4)),
                    _ => Note::Drop(rng.below(4)),
                },
            },
        };
        if matches!(note, Note::Set(_) | Note::Upd(..)) {
            last = Some(note.clone());
        }
        steps.push(Step::N(note));
        if rng.chance(1, 6) {
            steps.push(Step::Local(local_op(rng, uniq, kind)));
        }
        if rng.chance(1, 6) {
            steps.push(Step::Barrier);
        }
    }
    steps
}

/// Random merge of the two per-kind scripts that keeps the order within each kind.
pub fn merge(rng: &mut Rng, value: &[Step], map: &[Step]) -> Vec<(Kind, Step)> {
    let (mut i, mut j) = (0, 0);
    let mut out = Vec::with_capacity(value.len() + map.len());
    while i < value.len() || j < map.len() {
        let take_value = if i >= value.len() {
            false
        } else if j >= map.len() {
            true
        } else {
            rng.below((value.len() - i + map.len() - j) as u64) < (value.len() - i) as u64
        };
        if take_value {
            out.push((Kind::Value, value[i].clone()));
            i += 1;
        } else {
            out.push((Kind::Map, map[j].clone()));
            j += 1;
        }
    }
    out
}

pub fn show_script(steps: &[Step]) -> Json {
    Json::Array(steps.iter().map(|s| Json::String(s.show())).collect())
}

/// Phase of the link before each step (`result[i]` holds before `steps[i]`, `result[len]` at the
/// end), as the notifications imply it: `before-link` (never linked so far), `linked` (not synced
/// yet), `synced`, `between-links` (unlinked again, restartable) and `after-terminate` (an
/// `unlinked` was received under `terminate_on_unlinked`). Used to place faults and for the
/// coverage counters only, never for a verdict.
pub fn phases(steps: &[Step], flags: &Flags) -> Vec<&'static str> {
    let mut cur = "before-link";
    let mut out = Vec::with_capacity(steps.len() + 1);
    for s in steps {
        out.push(cur);
        let note = match s {
            Step::N(n) | Step::SplitLocal(n, _) => n,
            Step::Reconnected => {
                if cur != "after-terminate" {
                    cur = "between-links";
                }
                continue;
            }
            _ => continue,
        };
        cur = match (cur, note) {
            ("after-terminate", _) => "after-terminate",
            ("before-link" | "between-links", Note::Linked) => "linked",
            ("linked", Note::Synced) => "synced",
            ("linked" | "synced", Note::Unlinked) => {
                if flags.terminate_on_unlinked {
                    "after-terminate"
                } else {
                    "between-links"
                }
            }
            (c, _) => c,
        };
    }
    out.push(cur);
    out
}

/// A position of the script chosen so that every phase present in it is equally likely (a uniform
/// position would nearly always fall inside a synced link).
fn position_by_phase(rng: &mut Rng, steps: &[Step], flags: &Flags) -> usize {
    let ph = phases(steps, flags);
    let mut present: Vec<&'static str> = ph.clone();
    present.sort_unstable();
    present.dedup();
    let want = *rng.pick(&present);
    let candidates: Vec<usize> = ph.iter().enumerate().filter(|(_, p)| **p == want).map(|(i, _)| i).collect();
    *rng.pick(&candidates)
}

/// A prefix of the script that ends at a point chosen evenly over the phases present in it, and the
/// phase of the link at that point (any phase, also `before-link`: the empty prefix).
pub fn cut_by_phase(rng: &mut Rng, steps: &[Step], flags: &Flags) -> (Vec<Step>, &'static str) {
    let pos = position_by_phase(rng, steps, flags);
    (steps[..pos].to_vec(), phases(steps, flags)[pos])
}

/// No local write at or after `from`: the handle is gone (or the write side is dead and the set
/// channel is no longer drained, so further writes would only fill it).
fn strip_locals_from(steps: &mut Vec<Step>, from: usize) {
    let tail: Vec<Step> = steps
        .drain(from..)
        .filter_map(|s| match s {
            Step::Local(_) | Step::LocalRacing(_) | Step::LocalFill { .. } => None,
            Step::SplitLocal(n, _) => Some(Step::N(n)),
            other => Some(other),
        })
        .collect();
    steps.extend(tail);
}

/// The local handle is dropped at a point of the script (any phase, also before `linked`); the
/// notifications continue. Returns the script and the position of the `DropHandle` step.
pub fn with_handle_drop(rng: &mut Rng, mut steps: Vec<Step>, flags: &Flags) -> (Vec<Step>, usize) {
    let pos = position_by_phase(rng, &steps, flags);
    strip_locals_from(&mut steps, pos);
    steps.insert(pos, Step::DropHandle);
    (steps, pos)
}

/// The write side of a value downlink fails at a point of the script: the reader of its output goes
/// away and two local sets follow (the first is buffered and its flush fails, the second meets the
/// failed flush - that is when the client task gives up writing). Returns the script and the
/// position of the first step after the second set.
pub fn with_write_failure(rng: &mut Rng, uniq: &mut Uniq, mut steps: Vec<Step>, flags: &Flags) -> (Vec<Step>, usize) {
    let pos = position_by_phase(rng, &steps, flags);
    strip_locals_from(&mut steps, pos);
    let cluster = [Step::OutputFault, Step::Local(LocalOp::SetV(uniq.next())), Step::Local(LocalOp::SetV(uniq.next()))];
    for (i, s) in cluster.into_iter().enumerate() {
        steps.insert(pos + i, s);
    }
    (steps, pos + 3)
}

/// A prefix of a legal script that ends inside a link (after `linked`, mostly after `synced`): the
/// point at which the connection of a hosted downlink is going to fail. None when the script has no
/// such point (cannot happen for a generated legal script, which starts with a link).
pub fn cut_inside_link(rng: &mut Rng, steps: &[Step], flags: &Flags) -> Option<Vec<Step>> {
    let ph = phases(steps, flags);
    // Cut after step i-1, i.e. keep steps[..i].
    let synced: Vec<usize> = (1..=steps.len()).filter(|i| ph[*i] == "synced").collect();
    let linked: Vec<usize> = (1..=steps.len()).filter(|i| ph[*i] == "linked").collect();
    let pool = if !synced.is_empty() && (linked.is_empty() || rng.chance(2, 3)) { &synced } else { &linked };
    if pool.is_empty() {
        return None;
    }
    let at = *rng.pick(pool);
    Some(steps[..at].to_vec())
}
