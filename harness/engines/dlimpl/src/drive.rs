//! Drives one implementation (client tasks or the agent hosting the downlinks) through a merged
//! script: frames are written into the downlink's input byte channel in random chunks, local writes
//! are issued through the implementation's own handle, barriers wait for quiescence on the paused
//! clock (virtual time only advances when no task is runnable, so "everything delivered so far was
//! processed" is exact).

use std::sync::Arc;
use std::time::Duration;

use common::Rng;
use parking_lot::Mutex;

use crate::reference::Cb;
use crate::script::{Fault, Kind, LocalOp, Step};

pub type Trace = Arc<Mutex<Vec<Cb>>>;

pub fn new_trace() -> Trace {
    Arc::new(Mutex::new(Vec::new()))
}

pub async fn settle() {
    tokio::time::sleep(Duration::from_millis(1)).await;
}

pub const IO_TIMEOUT: Duration = Duration::from_secs(10);

#[allow(async_fn_in_trait)]
pub trait Target {
    /// Write raw bytes into the input channel of the downlink of `kind`. False once the downlink
    /// has closed its reading side (it terminated).
    async fn write(&mut self, kind: Kind, chunk: &[u8]) -> bool;
    /// Issue a local write through the handle. A `patient` write waits for the handle (virtual
    /// `IO_TIMEOUT`, then the driver is stuck) unless the consumer of the output is stalled; an
    /// impatient one gives up after two virtual milliseconds and is then not issued at all
    /// (`Issue::Refused`).
    async fn local(&mut self, kind: Kind, op: &LocalOp, patient: bool) -> Issue;
    /// Drop every local handle of the downlink of `kind` (it keeps receiving).
    async fn drop_handle(&mut self, kind: Kind);
    /// The consumer of the output channel of the downlink of `kind` goes away.
    async fn output_fault(&mut self, kind: Kind);
    /// The consumer of the output channel stops / resumes reading.
    fn output_gate(&mut self, kind: Kind, open: bool);
    /// Tell the downlink to stop (hosted: `handle.stop()`; client: the handle is dropped).
    async fn stop(&mut self, kind: Kind);
    /// Make the input of the downlink fail.
    async fn input_fault(&mut self, kind: Kind, fault: &Fault);
    /// Called once the fault has been digested (quiescence): (the downlink gave up its input, it was
    /// given a new connection on which the script continues).
    async fn after_input_fault(&mut self, kind: Kind) -> (bool, bool);
    fn trace_len(&self, kind: Kind) -> usize;
}

/// What became of a local write.
#[derive(Clone, Copy, PartialEq, Eq, Debug)]
pub enum Issue {
    /// The handle took it.
    Taken,
    /// The handle's queue was full (the downlink is blocked on its output) and the driver did not wait.
    Refused,
    /// There is no handle any more (dropped / the downlink is gone).
    NoHandle,
}

/// Where the harness may cut a frame when it writes it into the downlink's input channel.
#[derive(Clone, Copy, Debug, PartialEq, Eq)]
pub enum CutMode {
    /// Cuts only inside the 9-byte header (tag + body length) and between frames; the channel is
    /// large enough for every write to be taken at once, so a body always arrives in one read.
    HeaderOnly,
    /// Cuts anywhere, the channel still large: the harness knows exactly which bodies were split.
    Anywhere,
    /// Cuts anywhere and small channels (2..64 bytes): any body may be split by the channel itself.
    AnywhereSmallChannels,
}

impl CutMode {
    pub fn name(self) -> &'static str {
        match self {
            CutMode::HeaderOnly => "header-only",
            CutMode::Anywhere => "anywhere",
            CutMode::AnywhereSmallChannels => "anywhere+small-channels",
        }
    }
}

/// Size of the frame header (tag + length of the body).
pub const HEADER: usize = 9;

/// Trace lengths around the steps that were isolated by quiescence, indexed like the kind's script,
/// and which frames had their *body* split across reads.
#[derive(Default, Clone, Debug)]
pub struct Marks {
    pub value: Vec<Option<(usize, usize)>>,
    pub map: Vec<Option<(usize, usize)>>,
    pub value_split: Vec<bool>,
    pub map_split: Vec<bool>,
    /// Input faults executed: see `FaultMark`.
    pub faults: Vec<FaultMark>,
    /// Local writes the handle actually took, in the order of issue, each with the index (in the
    /// kind's script) of the step that issued it.
    pub issued_v: Vec<(usize, u64)>,
    pub issued_m: Vec<(usize, LocalOp)>,
    /// `Stop` steps executed: (kind, index in the kind's script, trace length just before, number of
    /// local writes of the kind issued before).
    pub stops: Vec<(Kind, usize, usize, usize)>,
    /// Local writes the handle refused (impatient ones only).
    pub refused: u64,
}

/// One executed `Step::InputFault`: the trace length of the kind before the fault and after it was
/// digested, whether the downlink gave up the input and whether it got a new connection.
#[derive(Clone, Debug)]
pub struct FaultMark {
    pub kind: Kind,
    /// Index of the fault step in the kind's script (kept for witnesses).
    #[allow(dead_code)]
    pub idx: usize,
    pub before: usize,
    pub after: usize,
    pub detected: bool,
    pub reconnected: bool,
}

impl Marks {
    pub fn new(n_value: usize, n_map: usize) -> Marks {
        Marks { value: vec![None; n_value], map: vec![None; n_map], value_split: vec![false; n_value], map_split: vec![false; n_map], ..Default::default() }
    }

    pub fn of(&self, kind: Kind) -> &[Option<(usize, usize)>] {
        match kind {
            Kind::Value => &self.value,
            Kind::Map => &self.map,
        }
    }

    pub fn split_of(&self, kind: Kind) -> &[bool] {
        match kind {
            Kind::Value => &self.value_split,
            Kind::Map => &self.map_split,
        }
    }

    fn set_split(&mut self, kind: Kind, idx: usize) {
        match kind {
            Kind::Value => self.value_split[idx] = true,
            Kind::Map => self.map_split[idx] = true,
        }
    }

    pub fn issued_len(&self, kind: Kind) -> usize {
        match kind {
            Kind::Value => self.issued_v.len(),
            Kind::Map => self.issued_m.len(),
        }
    }

    fn record_issue(&mut self, idx: usize, op: &LocalOp, issue: Issue) -> bool {
        match issue {
            Issue::Taken => match op {
                LocalOp::SetV(v) => self.issued_v.push((idx, *v)),
                other => self.issued_m.push((idx, other.clone())),
            },
            Issue::Refused => self.refused += 1,
            Issue::NoHandle => {}
        }
        issue == Issue::Taken
    }

    pub fn absorb(&mut self, part: Marks) {
        let (nv, nm) = (self.issued_v.len(), self.issued_m.len());
        self.faults.extend(part.faults);
        self.stops.extend(part.stops.into_iter().map(|(k, i, t, n)| (k, i, t, n + if k == Kind::Value { nv } else { nm })));
        self.issued_v.extend(part.issued_v);
        self.issued_m.extend(part.issued_m);
        self.refused += part.refused;
        for (dst, src) in self.value.iter_mut().zip(part.value) {
            *dst = dst.or(src);
        }
        for (dst, src) in self.map.iter_mut().zip(part.map) {
            *dst = dst.or(src);
        }
        for (dst, src) in self.value_split.iter_mut().zip(part.value_split) {
            *dst |= src;
        }
        for (dst, src) in self.map_split.iter_mut().zip(part.map_split) {
            *dst |= src;
        }
    }
}

/// Returns (the downlink is still reading, the body of the frame was split across writes).
/// `bytes` is a suffix of a frame starting `offset` bytes into it.
async fn feed<T: Target>(t: &mut T, kind: Kind, bytes: &[u8], offset: usize, mode: CutMode, rng: &mut Rng) -> (bool, bool) {
    let frame_len = offset + bytes.len();
    let mut cuts: Vec<usize> = Vec::new();
    // Highest cut position (relative to the frame) that leaves the body in one piece.
    let max_cut = match mode {
        CutMode::HeaderOnly => HEADER.min(frame_len - 1),
        _ => frame_len - 1,
    };
    if max_cut > offset && rng.chance(1, 2) {
        for _ in 0..rng.range(1, 3) {
            cuts.push(rng.range(offset as u64 + 1, max_cut as u64) as usize - offset);
        }
        cuts.sort_unstable();
        cuts.dedup();
    }
    let mut body_split = cuts.iter().any(|c| c + offset > HEADER);
    if mode == CutMode::AnywhereSmallChannels && frame_len > HEADER + 1 {
        body_split = true;
    }
    let mut from = 0;
    cuts.push(bytes.len());
    for to in cuts {
        if to > from {
            if !t.write(kind, &bytes[from..to]).await {
                return (false, body_split);
            }
            from = to;
            match rng.below(12) {
                0..=2 => {
                    for _ in 0..rng.range(1, 4) {
                        tokio::task::yield_now().await;
                    }
                }
                3 => settle().await,
                _ => {}
            }
        }
    }
    (true, body_split)
}

/// The `i`-th write of a `Step::LocalFill`.
pub fn fill_op(kind: Kind, first: u64, i: u32) -> LocalOp {
    match kind {
        Kind::Value => LocalOp::SetV(first + i as u64),
        Kind::Map => LocalOp::Upd(100 + i as i32, first + i as u64),
    }
}

/// `merged` holds (kind, index into that kind's script, step).
pub async fn drive<T: Target>(t: &mut T, merged: &[(Kind, usize, Step)], n_value: usize, n_map: usize, mode: CutMode, rng: &mut Rng) -> Marks {
    let mut marks = Marks::new(n_value, n_map);
    for (kind, idx, step) in merged {
        let kind = *kind;
        match step {
            Step::Barrier => settle().await,
            // Oracle-only marker.
            Step::Reconnected => {}
            Step::DropHandle => {
                // Either isolated by quiescence or racing with the frames just written / written next.
                if rng.bool() {
                    settle().await;
                }
                t.drop_handle(kind).await;
                if rng.bool() {
                    settle().await;
                }
            }
            Step::OutputFault => {
                settle().await;
                t.output_fault(kind).await;
                settle().await;
            }
            Step::Local(op) => {
                settle().await;
                let issue = t.local(kind, op, true).await;
                marks.record_issue(*idx, op, issue);
                settle().await;
            }
            Step::LocalRacing(op) => {
                let issue = t.local(kind, op, true).await;
                marks.record_issue(*idx, op, issue);
            }
            Step::LocalFill { first, n } => {
                settle().await;
                for i in 0..*n {
                    let op = fill_op(kind, *first, i);
                    let issue = t.local(kind, &op, false).await;
                    if !marks.record_issue(*idx, &op, issue) {
                        break;
                    }
                    settle().await;
                }
            }
            Step::OutputGate(open) => {
                settle().await;
                t.output_gate(kind, *open);
                settle().await;
            }
            Step::Stop { racing } => {
                // A racing stop follows a barrier and a local write: every frame written before it
                // has been digested, so the trace length taken here is exact in both cases.
                if !*racing {
                    settle().await;
                }
                marks.stops.push((kind, *idx, t.trace_len(kind), marks.issued_len(kind)));
                t.stop(kind).await;
                // The stop is digested before anything else is delivered: "after stop" is exact.
                settle().await;
            }
            Step::InputFault(fault) => {
                settle().await;
                settle().await;
                let before = t.trace_len(kind);
                t.input_fault(kind, fault).await;
                settle().await;
                settle().await;
                let (detected, reconnected) = t.after_input_fault(kind).await;
                settle().await;
                let after = t.trace_len(kind);
                marks.faults.push(FaultMark { kind, idx: *idx, before, after, detected, reconnected });
            }
            Step::SplitLocal(note, op) => {
                let bytes = note.encode();
                // The local write is issued either before the first byte or after a strict prefix
                // of the frame, never after the whole frame.
                let max_cut = match mode {
                    CutMode::HeaderOnly => HEADER.min(bytes.len() - 1),
                    _ => bytes.len() - 1,
                };
                let cut = rng.range(0, max_cut as u64) as usize;
                let mut alive = true;
                if cut > 0 {
                    alive = t.write(kind, &bytes[..cut]).await;
                }
                if cut > HEADER || (mode == CutMode::AnywhereSmallChannels && bytes.len() > HEADER + 1) {
                    marks.set_split(kind, *idx);
                }
                settle().await;
                let issue = t.local(kind, op, true).await;
                marks.record_issue(*idx, op, issue);
                settle().await;
                if alive {
                    let (_, split) = feed(t, kind, &bytes[cut..], cut, mode, rng).await;
                    if split {
                        marks.set_split(kind, *idx);
                    }
                }
            }
            Step::N(note) => {
                let bytes = note.encode();
                let split;
                if note.is_take_drop() {
                    settle().await;
                    let before = t.trace_len(kind);
                    split = feed(t, kind, &bytes, 0, mode, rng).await.1;
                    settle().await;
                    let after = t.trace_len(kind);
                    let slot = match kind {
                        Kind::Value => &mut marks.value[*idx],
                        Kind::Map => &mut marks.map[*idx],
                    };
                    *slot = Some((before, after));
                } else {
                    split = feed(t, kind, &bytes, 0, mode, rng).await.1;
                }
                if split {
                    marks.set_split(kind, *idx);
                }
            }
        }
    }
    settle().await;
    settle().await;
    marks
}

/// What one implementation did with one case.
#[derive(Default, Clone, Debug)]
pub struct ImplObs {
    pub vtrace: Vec<Cb>,
    pub mtrace: Vec<Cb>,
    /// Client only: the stateless event downlink fed with the value script.
    pub etrace: Option<Vec<Cb>>,
    pub marks: Marks,
    /// Callbacks made after the harness closed the input channels / stopped the agent.
    pub v_after_close: Vec<Cb>,
    pub m_after_close: Vec<Cb>,
    /// Operations the downlinks wrote to their output channels (decoded).
    pub v_out: Vec<u64>,
    pub m_out: Vec<LocalOp>,
    /// How the tasks ended (client only): (downlink, "ok" / "error:<class>").
    pub task_end: Vec<(&'static str, String)>,
    /// (rule, downlink kind, description): panics, task errors, tasks that never finished.
    pub problems: Vec<(&'static str, &'static str, String)>,
    /// Driver-side budget exhaustion (inconclusive, never a violation).
    pub stuck: Vec<String>,
}
