//! Parts added for the code no earlier workload executed (coverage report, rows 15 and 16):
//!
//!  * `input-failure` – the *input* of a downlink fails in the middle of a legal script: the channel
//!    is closed (before `linked`, while syncing, while synced, between links), a frame with an
//!    unknown tag or an undecodable body arrives, or a frame is cut off by the end of the stream. The
//!    same bytes go to both implementations.
//!  * `write-pressure` – the consumer of a downlink's *output* is slow: a 2..16 byte channel whose
//!    reader stalls while local writes are issued, then the downlink is stopped / loses its handle /
//!    loses the reader, then the reader resumes.
//!
//! What the statement of C08 decides on these paths, and therefore what is judged:
//!  * everything up to the fault is an ordinary legal prefix: reference fold, callback order and
//!    arguments, equal logs of the two implementations;
//!  * a fault is not a notification. At most one `on_unlinked` / `on_failed` may report it; an event
//!    callback, `on_synced` or `on_linked` there would be a callback no notification implies;
//!  * after the fault a downlink dispatches nothing unless it was given a new connection, and then
//!    the fold starts afresh with that connection's `linked`;
//!  * the downlink that was not touched is unaffected.
//! Which of `on_unlinked` / `on_failed` / nothing is reported, whether the task ends with an error,
//! whether the agent reconnects: observations (counters), the statement does not say.
//!
//! What reaches the *output* of a downlink in `write-pressure` is an observation, never a verdict:
//! the statement of C08 speaks of the state a downlink holds and of its lifecycle callbacks, not of
//! local writes reaching the lane. The findings are counted under `observed/output-*` (see
//! `output_observations`); one witness per counter is kept in the notes of the report.

use std::collections::BTreeMap;
use std::sync::Mutex;

use common::{json, CaseOut, Json, Rng};

use crate::client::Env;
use crate::drive::{CutMode, FaultMark, ImplObs};
use crate::reference::{check, show_trace, Cb, CheckInput, Mode};
use crate::script::{cut_by_phase, gen_fault, gen_legal, gen_local_op, merge, phases, show_script, with_handle_drop, Fault, Flags, GenOpts, Kind, LocalOp, Note, Step, Uniq};
use crate::{apply_stats, check_kind, client, hosted, index_merged, report_problems, trace_of, Imp, P};

fn mode_of(kind: Kind) -> Mode {
    if kind == Kind::Value {
        Mode::Value
    } else {
        Mode::Map
    }
}

fn kinds_of(seg: &[Cb]) -> String {
    if seg.is_empty() {
        "none".into()
    } else {
        seg.iter().map(|c| c.kind()).collect::<Vec<_>>().join("+")
    }
}

// ---------------------------------------------------------------------------------------------
// input-failure
// ---------------------------------------------------------------------------------------------

/// The script of one downlink of an `input-failure` case.
struct Faulted {
    /// Legal prefix, fault, legal script for the connection that may follow (None: control downlink,
    /// `a` is then the whole script).
    a: Vec<Step>,
    fault: Option<(Fault, Vec<Step>, &'static str)>,
}

impl Faulted {
    fn script(&self) -> Vec<Step> {
        let mut s = self.a.clone();
        if let Some((f, b, _)) = &self.fault {
            s.push(Step::InputFault(f.clone()));
            s.extend(b.iter().cloned());
        }
        s
    }
}

/// Judge the downlink of `kind` whose input failed. Returns (conformed, trace length before the fault).
#[allow(clippy::too_many_arguments)]
fn judge_faulted(out: &mut CaseOut, imp: Imp, kind: Kind, flags: Flags, fs: &Faulted, obs: &ImplObs, ctx: &Json) -> Option<(bool, usize)> {
    let (fault, b, phase) = fs.fault.as_ref()?;
    let a = &fs.a;
    let Some(fm): Option<&FaultMark> = obs.marks.faults.iter().find(|f| f.kind == kind) else {
        out.inconclusive("the input fault was not executed");
        return None;
    };
    let trace = trace_of(obs, kind).to_vec();
    let before = fm.before.min(trace.len());
    let after = fm.after.min(trace.len()).max(before);
    let seg = trace[before..after].to_vec();
    let class = fault.class();
    out.count(&format!("input-failure/{}/{}/{class}/{phase}/callbacks={}", imp.name(), kind.name(), kinds_of(&seg)));
    out.count(&format!("input-failure/{}/{class}/gave-up-input={}/new-connection={}/term={}", imp.name(), fm.detected as u8, fm.reconnected as u8, flags.terminate_on_unlinked as u8));
    let detail = |extra: Json| json!({"context": ctx, "implementation": imp.name(), "downlink": kind.name(), "fault": fault.show(), "phase_at_fault": phase, "trace": show_trace(&trace), "more": extra});

    // At the fault: nothing, or one callback that reports the end of the link.
    let mut trace2 = trace.clone();
    let mut effective = a.clone();
    let mut marks: Vec<Option<(usize, usize)>> = obs.marks.of(kind)[..a.len()].to_vec();
    match seg.as_slice() {
        [] => {}
        [Cb::Unlinked] => {
            effective.push(Step::N(Note::Unlinked));
            marks.push(None);
        }
        [Cb::Failed] => {
            trace2.remove(before);
        }
        _ => {
            let first_bad = seg.iter().find(|c| !matches!(c, Cb::Unlinked | Cb::Failed)).unwrap_or(&seg[0]);
            out.violation(
                P,
                format!("callbacks-at-input-failure/{}/{}/{class}/{}/{}", kind.name(), imp.name(), first_bad.kind(), flags.sig()),
                "callbacks that no notification implies when the input of the downlink failed",
                detail(json!({"callbacks_at_fault": show_trace(&seg)})),
            );
            return Some((false, before));
        }
    }
    let followed = if !fm.detected {
        // The implementation carried on reading the same channel (it did not take the bytes for a
        // failure): what it makes of the frames that follow is outside the statement. Only the
        // prefix is judged.
        trace2.truncate(after.min(trace2.len()));
        "same-connection"
    } else if fm.reconnected {
        effective.push(Step::Reconnected);
        marks.push(None);
        effective.extend(b.iter().cloned());
        marks.extend(obs.marks.of(kind)[a.len() + 1..].iter().cloned());
        "new-connection"
    } else {
        "nothing"
    };
    out.count(&format!("input-failure/{}/{}/judged-after-fault={followed}", imp.name(), kind.name()));
    let (finding, st) = check(&CheckInput { mode: mode_of(kind), imp: imp.name(), flags, steps: &effective, trace: &trace2, marks: &marks });
    apply_stats(out, imp, kind.name(), &st);
    if let Some(f) = finding {
        let in_a = f.step.map_or(false, |s| s < a.len());
        let sig = f.signature(kind.name(), imp.name(), &flags);
        let sig = if in_a { sig } else { format!("after-input-failure/{class}/{sig}") };
        out.violation(P, sig, f.what.clone(), detail(json!({"effective_script": show_script(&effective), "divergence": f.detail})));
        return Some((false, before));
    }
    Some((true, before))
}

pub fn input_failure_case(case: u64, rng: &mut Rng, out: &mut CaseOut) {
    let flags = Flags::of_index(case % 4);
    // Which downlink fails: both, the value downlink only, the map downlink only (the other one is
    // the control: it must not notice).
    let which = (case / 4) % 3;
    let value_locals = (case / 12) % 2 == 1;
    // One case in six: the handle is dropped somewhere before the fault (client: the task is in its
    // read-only loop when the input fails; hosted: the write stream has ended).
    let handle_dropped = (case / 24) % 6 == 5;
    let mut uniq = Uniq::new(1000);
    let mut build = |rng: &mut Rng, kind: Kind, faulted: bool| -> Faulted {
        // No take/drop and no local map writes: the client map downlink has known divergences there
        // and a case reports its first divergence only.
        let opts = GenOpts { local_writes: kind == Kind::Value && value_locals, take_drop: false, max_links: 3, terminates: flags.terminate_on_unlinked };
        let full = gen_legal(rng, kind, &mut uniq, &opts);
        if !faulted {
            return Faulted { a: full, fault: None };
        }
        let (mut a, phase) = cut_by_phase(rng, &full, &flags);
        if handle_dropped {
            a = with_handle_drop(rng, a, &flags).0;
        }
        let fault = gen_fault(rng);
        let b = gen_legal(rng, kind, &mut uniq, &GenOpts { local_writes: false, ..opts });
        Faulted { a, fault: Some((fault, b, phase)) }
    };
    let v = build(rng, Kind::Value, which != 2);
    let m = build(rng, Kind::Map, which != 1);
    let (vs, ms) = (v.script(), m.script());
    out.sig(&(flags, &vs, &ms));
    let merged = index_merged(merge(rng, &vs, &ms));
    let ctx = json!({"flags": flags.json(), "value_script": show_script(&vs), "map_script": show_script(&ms)});
    let drive_rng = rng.fork();
    let client = client::run_client(flags, &merged, vs.len(), ms.len(), CutMode::HeaderOnly, &mut drive_rng.clone(), true);
    let (hosted, extra) = hosted::run_hosted(flags, &merged, vs.len(), ms.len(), CutMode::HeaderOnly, &mut drive_rng.clone(), &[]);
    report_problems(out, Imp::Client, flags, &client, true, &ctx);
    report_problems(out, Imp::Hosted, flags, &hosted, true, &ctx);
    if out.inconclusive.is_some() {
        return;
    }
    out.count(&format!("input-failure/handle-dropped-before={}", handle_dropped as u8));
    for (k, e) in &client.task_end {
        let faulted = match *k {
            "map" => m.fault.is_some(),
            _ => v.fault.is_some(),
        };
        if faulted {
            out.count(&format!("input-failure/client/{k}/task-end={e}"));
        }
    }

    let mut checked = 0u64;
    for (kind, fs, steps) in [(Kind::Value, &v, &vs), (Kind::Map, &m, &ms)] {
        if fs.fault.is_some() {
            let rc = judge_faulted(out, Imp::Client, kind, flags, fs, &client, &ctx);
            let rh = judge_faulted(out, Imp::Hosted, kind, flags, fs, &hosted, &ctx);
            if out.inconclusive.is_some() {
                return;
            }
            // Up to the fault both saw a sequence a well-behaved link produces: equal logs.
            if let (Some((ok_c, bc)), Some((ok_h, bh))) = (rc, rh) {
                let (tc, th) = (&trace_of(&client, kind)[..bc], &trace_of(&hosted, kind)[..bh]);
                if tc == th {
                    out.count(&format!("equivalence/{}/equal-logs-before-fault", kind.name()));
                    checked += tc.len() as u64;
                } else if ok_c && ok_h {
                    out.violation(
                        P,
                        format!("impl-equivalence-before-input-failure/{}/both/{}", kind.name(), flags.sig()),
                        "client and hosted callback logs differ before the input failed",
                        json!({"context": ctx, "client": show_trace(tc), "hosted": show_trace(th)}),
                    );
                }
                // How the two report the fault itself (observation).
                let at = |o: &ImplObs| o.marks.faults.iter().find(|f| f.kind == kind).map(|f| kinds_of(&trace_of(o, kind)[f.before.min(trace_of(o, kind).len())..f.after.min(trace_of(o, kind).len())])).unwrap_or_default();
                out.count(&format!("input-failure/at-fault/{}/client={}/hosted={}", kind.name(), at(&client), at(&hosted)));
            }
        } else {
            // The control downlink: the ordinary oracles, both implementations, equal logs.
            let mut oks = [true, true];
            for (slot, (imp, obs)) in [(Imp::Client, &client), (Imp::Hosted, &hosted)].into_iter().enumerate() {
                let (f, st) = check_kind(imp, kind, flags, steps, obs);
                apply_stats(out, imp, kind.name(), &st);
                checked += st.callbacks_checked;
                if let Some(f) = f {
                    oks[slot] = false;
                    out.violation(
                        P,
                        f.signature(kind.name(), imp.name(), &flags),
                        f.what,
                        json!({"context": ctx, "implementation": imp.name(), "downlink": kind.name(), "trace": show_trace(trace_of(obs, kind)), "divergence": f.detail}),
                    );
                }
            }
            let (tc, th) = (trace_of(&client, kind), trace_of(&hosted, kind));
            if tc == th {
                out.count(&format!("equivalence/{}/equal-logs", kind.name()));
            } else if oks[0] && oks[1] {
                out.violation(
                    P,
                    format!("impl-equivalence/{}/both/{}", kind.name(), flags.sig()),
                    "client and hosted callback logs differ on a sequence a well-behaved link can produce",
                    json!({"context": ctx, "client": show_trace(tc), "hosted": show_trace(th)}),
                );
            }
        }
    }
    // The stateless event downlink (client) reads the bytes of the value downlink.
    if let (Some(et), Some((fault, _, _))) = (&client.etrace, &v.fault) {
        let (f, st) = check(&CheckInput { mode: Mode::EventDl, imp: "client", flags, steps: &v.a, trace: et, marks: &[] });
        apply_stats(out, Imp::Client, "event", &st);
        if let Some(f) = f {
            let in_a = f.step.is_some();
            let sig = f.signature("event", "client", &flags);
            let sig = if in_a { sig } else { format!("after-input-failure/{}/{sig}", fault.class()) };
            out.violation(P, sig, f.what, json!({"context": ctx, "trace": show_trace(et), "divergence": f.detail}));
        }
    }
    out.add("hosted/connections", extra.connections as u64);
    out.add("hosted/commands-run", extra.commands_run);
    out.events += checked;
    // Non-trivial: a fault was executed on both implementations and callbacks were compared.
    out.nontrivial = !client.marks.faults.is_empty() && !hosted.marks.faults.is_empty() && checked > 0;
    out.set_sample(ctx);
}

// ---------------------------------------------------------------------------------------------
// write-pressure
// ---------------------------------------------------------------------------------------------

/// What ends the writing of a downlink in a `write-pressure` case.
#[derive(Clone, Copy, PartialEq, Eq, Debug, Hash)]
enum End {
    /// Nothing: the downlink is writable to the end of the case.
    None,
    /// `handle.stop()` (hosted; the client loses its handle instead).
    Stop,
    /// The handle is dropped (both).
    HandleDropped,
    /// The reader of the output goes away while it is stalled (client; the hosted run ignores it:
    /// what a failed write does to a hosted downlink is driven by the `writer-failure` part).
    ReaderGone,
}

impl End {
    fn name(self) -> &'static str {
        match self {
            End::None => "none",
            End::Stop => "stop",
            End::HandleDropped => "handle-dropped",
            End::ReaderGone => "reader-gone",
        }
    }
}

/// How the consumer of the output behaves in a `write-pressure` case.
#[derive(Clone, Copy, PartialEq, Eq, Debug, Hash)]
enum Consumer {
    /// It reads all the time (through the small channel); the last write races with the end action.
    Reading,
    /// It stalls (from the start or at a point of the script) and resumes after the end action.
    Stalled,
    /// It stalls and the downlink's own write buffer is then filled up.
    StalledBufferFull,
}

impl Consumer {
    fn name(self) -> &'static str {
        match self {
            Consumer::Reading => "reading",
            Consumer::Stalled => "stalled",
            Consumer::StalledBufferFull => "stalled+buffer-full",
        }
    }
}

struct PressureScript {
    steps: Vec<Step>,
    end: End,
    /// Index of the end step in `steps` (None for `End::None`).
    end_at: Option<usize>,
    consumer: Consumer,
}

/// A legal notification script with many local writes (isolated and racing). `Consumer::Reading`:
/// the consumer reads; a write and the end action are issued back to back ("set; stop"). Otherwise:
/// the consumer stalls, optionally the downlink's own write buffer is filled, writes isolated by
/// quiescence precede the end action, more writes and notifications follow, the consumer resumes.
fn gen_pressure(rng: &mut Rng, kind: Kind, uniq: &mut Uniq, flags: &Flags, end: End, consumer: Consumer, stalled_from_start: bool) -> PressureScript {
    let opts = GenOpts { local_writes: false, take_drop: false, max_links: 2, terminates: flags.terminate_on_unlinked };
    let notes = gen_legal(rng, kind, uniq, &opts);
    let mut steps: Vec<Step> = Vec::new();
    let local = |rng: &mut Rng, uniq: &mut Uniq, steps: &mut Vec<Step>| {
        for _ in 0..rng.range(1, 2) {
            let op = gen_local_op(rng, uniq, kind);
            steps.push(if rng.chance(1, 3) { Step::LocalRacing(op) } else { Step::Local(op) });
        }
    };
    if rng.chance(1, 3) {
        local(rng, uniq, &mut steps);
    }
    for n in notes {
        steps.push(n);
        if rng.chance(1, 3) {
            local(rng, uniq, &mut steps);
        }
    }
    let stalls = consumer != Consumer::Reading;
    // The stall begins somewhere in the first half (unless the consumer never read at all).
    let mut stall_at = 0;
    if stalls && !stalled_from_start {
        stall_at = rng.usize_below(steps.len() / 2 + 1);
        steps.insert(stall_at, Step::OutputGate(false));
        stall_at += 1;
    }
    // The end action: after the stall began.
    let mut end_at = None;
    let mut at = stall_at + rng.usize_below(steps.len() - stall_at + 1);
    if consumer == Consumer::StalledBufferFull {
        let (first, n) = if kind == Kind::Value { (10_000_000_000_000_000_000, 330) } else { (10_000_000_000_000_001_000, 230) };
        steps.insert(at, Step::LocalFill { first, n });
        at += 1;
    }
    if stalls && rng.chance(2, 3) {
        // An isolated write behind the stalled consumer.
        steps.insert(at, Step::Local(gen_local_op(rng, uniq, kind)));
        at += 1;
    }
    if end != End::None {
        let racing = consumer == Consumer::Reading;
        if racing {
            // Everything delivered so far is digested; then the write and the end action back to back.
            steps.insert(at, Step::Barrier);
            steps.insert(at + 1, Step::LocalRacing(gen_local_op(rng, uniq, kind)));
            at += 2;
        }
        steps.insert(
            at,
            match end {
                End::Stop => Step::Stop { racing },
                End::HandleDropped => Step::DropHandle,
                _ => Step::OutputFault,
            },
        );
        end_at = Some(at);
        if end == End::HandleDropped {
            // No handle, no writes.
            let tail: Vec<Step> = steps.drain(at + 1..).filter(|s| !matches!(s, Step::Local(_) | Step::LocalRacing(_))).collect();
            steps.extend(tail);
        } else if rng.chance(1, 2) {
            // Writes after `stop` must never be seen.
            let op = gen_local_op(rng, uniq, kind);
            steps.insert(at + 1, if rng.bool() { Step::LocalRacing(op) } else { Step::Local(op) });
        }
    }
    if stalls {
        // The consumer resumes: somewhere after the end action or only at the very end.
        let lo = end_at.map_or(at, |e| e + 1);
        let resume = if rng.bool() { steps.len() } else { lo + rng.usize_below(steps.len() - lo + 1) };
        steps.insert(resume, Step::OutputGate(true));
    }
    steps.push(Step::Barrier);
    PressureScript { steps, end, end_at, consumer }
}

/// First witness (lowest case index) per observation counter of the output path.
static OBSERVED: Mutex<BTreeMap<String, (u64, Json)>> = Mutex::new(BTreeMap::new());

/// Count an observation, remember it for the case sample and keep the first witness of its kind.
fn observe(out: &mut CaseOut, case: u64, seen_here: &mut Vec<Json>, key: String, what: &str, detail: Json) {
    out.count(&key);
    seen_here.push(json!({"observed": key, "what": what}));
    let mut g = OBSERVED.lock().unwrap();
    match g.get(&key) {
        Some((c, _)) if *c <= case => {}
        _ => {
            g.insert(key, (case, json!({"case": case, "what": what, "detail": detail})));
        }
    }
}

/// The witnesses collected by `observe`, one line per counter (for the notes of the report).
pub fn observed_witnesses() -> Vec<String> {
    OBSERVED.lock().unwrap().iter().map(|(k, (_, j))| format!("{k}: {j}")).collect()
}

/// What the local writes amount to for the lane: whether everything it held was cleared and, per
/// key, the last thing said about it.
fn effect<'a>(ops: impl Iterator<Item = &'a LocalOp>) -> (bool, BTreeMap<i32, Option<u64>>) {
    let mut cleared = false;
    let mut m = BTreeMap::new();
    for op in ops {
        match op {
            LocalOp::Upd(k, v) => {
                m.insert(*k, Some(*v));
            }
            LocalOp::Rem(k) => {
                m.insert(*k, None);
            }
            LocalOp::Clr => {
                cleared = true;
                m.clear();
            }
            LocalOp::SetV(_) => {}
        }
    }
    (cleared, m)
}

fn is_subsequence<T: PartialEq>(sub: &[T], of: &[T]) -> bool {
    let mut it = of.iter();
    sub.iter().all(|x| it.any(|y| y == x))
}

/// For every key the output mentions: what the output says about the key (and the clears), in
/// order, is a subsequence of what was issued about it. Holds for a FIFO and for a queue that
/// replaces a pending operation on a key by a later one and lets a clear wipe what is pending.
fn map_output_explained(output: &[LocalOp], issued: &[LocalOp]) -> bool {
    let key_of = |op: &LocalOp| match op {
        LocalOp::Upd(k, _) | LocalOp::Rem(k) => Some(*k),
        _ => None,
    };
    let mut keys: Vec<i32> = output.iter().filter_map(key_of).collect();
    keys.sort_unstable();
    keys.dedup();
    let about = |ops: &[LocalOp], k: Option<i32>| -> Vec<LocalOp> { ops.iter().filter(|o| matches!(o, LocalOp::Clr) || (k.is_some() && key_of(o) == k)).cloned().collect() };
    keys.into_iter().map(Some).chain(std::iter::once(None)).all(|k| is_subsequence(&about(output, k), &about(issued, k)))
}

/// What reaches the output of a downlink. **Observations only**: the statement of C08 is about the
/// replica and the callbacks, so none of this is reported as a violation. Each is counted as
/// `observed/<name>/...` and the first witness (lowest case index) per counter is kept for the notes of
/// the report; the case sample lists what was observed in that case.
///  * `output-not-issued`   – value: the output is a subsequence of the sets issued (nothing invented,
///    repeated or reordered); map: per key (and for clears) the output follows the order of issue;
///  * `output-after-stop`   – nothing issued after `stop` reaches the output;
///  * `output-last-write-lost` – once the consumer has resumed and everything is quiet, the output
///    ends with the last value set before the end action (value: last value wins), resp. has the
///    same effect on the lane as the operations issued before it (map). Demanded only while the
///    write side is alive: not after the reader went away, not when the downlink terminated on an
///    `unlinked`, not for writes the handle refused. Facets: what the consumer did (`reading`: the
///    last write and the end action were issued back to back; `stalled`; `stalled+buffer-full`) and
///    the end action.
#[allow(clippy::too_many_arguments)]
fn output_observations(out: &mut CaseOut, case: u64, seen_here: &mut Vec<Json>, imp: Imp, kind: Kind, flags: Flags, ps: &PressureScript, obs: &ImplObs, reconnected: bool, ctx: &Json) {
    let steps = &ps.steps;
    // Writes issued before the end action are the ones that count; `stop` on the client is a
    // dropped handle, after which nothing can be issued anyway.
    let end_idx = match ps.end {
        End::Stop | End::HandleDropped => ps.end_at.unwrap_or(usize::MAX),
        _ => usize::MAX,
    };
    let terminated = flags.terminate_on_unlinked && steps.iter().any(|s| matches!(s, Step::N(Note::Unlinked)));
    let reader_gone = ps.end == End::ReaderGone && imp == Imp::Client;
    let live = !terminated && !reader_gone && !reconnected;
    // The client downlinks cannot be stopped: they lose their handle instead.
    let end_name = if imp == Imp::Client && ps.end == End::Stop { End::HandleDropped.name() } else { ps.end.name() };
    let facets = format!("consumer={}/end={end_name}", ps.consumer.name());
    let p = format!("{}/{}", imp.name(), kind.name());
    let detail = |what: Json| json!({"context": ctx, "implementation": imp.name(), "downlink": kind.name(), "script": show_script(steps), "output": what});
    match kind {
        Kind::Value => {
            let all: Vec<u64> = obs.marks.issued_v.iter().map(|(_, v)| *v).collect();
            let before: Vec<u64> = obs.marks.issued_v.iter().filter(|(i, _)| *i < end_idx).map(|(_, v)| *v).collect();
            let output = &obs.v_out;
            out.add(&format!("output/{p}/writes-issued"), all.len() as u64);
            out.add(&format!("output/{p}/writes-seen"), output.len() as u64);
            if !is_subsequence(output, &all) {
                observe(out, case, seen_here, format!("observed/output-not-issued/value/{}", imp.name()), "the output of the downlink is not a subsequence of the values that were set", detail(json!({"issued": all, "seen": output})));
                return;
            }
            if !is_subsequence(output, &before) {
                observe(out, case, seen_here, format!("observed/output-after-stop/value/{}", imp.name()), "a value set after the downlink was stopped reached its output", detail(json!({"issued_before_stop": before, "seen": output})));
                return;
            }
            out.count(&format!("output/{p}/{}", if *output == before { "exact" } else { "subsequence" }));
            if live && !before.is_empty() {
                out.count(&format!("output/{p}/last-write-judged/{facets}"));
                if output.last() != before.last() {
                    observe(
                        out,
                        case,
                        seen_here,
                        format!("observed/output-last-write-lost/value/{}/{facets}", imp.name()),
                        "the last value set before the downlink stopped writing never reached its output although the consumer resumed",
                        detail(json!({"issued_before_end": before.len(), "last_issued": before.last(), "seen_count": output.len(), "last_seen": output.last()})),
                    );
                }
            }
        }
        Kind::Map => {
            let all: Vec<LocalOp> = obs.marks.issued_m.iter().map(|(_, o)| o.clone()).collect();
            let before: Vec<LocalOp> = obs.marks.issued_m.iter().filter(|(i, _)| *i < end_idx).map(|(_, o)| o.clone()).collect();
            let output = &obs.m_out;
            out.add(&format!("output/{p}/writes-issued"), all.len() as u64);
            out.add(&format!("output/{p}/writes-seen"), output.len() as u64);
            let show = |ops: &[LocalOp]| Json::Array(ops.iter().rev().take(12).rev().map(|o| Json::String(o.show())).collect());
            if !map_output_explained(output, &all) {
                observe(out, case, seen_here, format!("observed/output-not-issued/map/{}", imp.name()), "the output of the downlink holds operations that were not issued, or not in the order of issue", detail(json!({"issued(last 12)": show(&all), "seen(last 12)": show(output)})));
                return;
            }
            if !map_output_explained(output, &before) {
                observe(out, case, seen_here, format!("observed/output-after-stop/map/{}", imp.name()), "an operation issued after the downlink was stopped reached its output", detail(json!({"issued_before_stop(last 12)": show(&before), "seen(last 12)": show(output)})));
                return;
            }
            out.count(&format!("output/{p}/{}", if *output == before { "exact" } else { "coalesced-or-partial" }));
            if live && !before.is_empty() {
                out.count(&format!("output/{p}/last-write-judged/{facets}"));
                if effect(output.iter()) != effect(before.iter()) {
                    observe(
                        out,
                        case,
                        seen_here,
                        format!("observed/output-last-write-lost/map/{}/{facets}", imp.name()),
                        "the operations that reached the output do not have the effect of the operations issued before the downlink stopped writing, although the consumer resumed",
                        detail(json!({"issued_before_end": before.len(), "issued(last 12)": show(&before), "seen_count": output.len(), "seen(last 12)": show(output)})),
                    );
                }
            }
        }
    }
}

/// The callback trace of a downlink in a `write-pressure` case: the ordinary oracle; a stopped
/// (hosted) downlink dispatches at most one `on_unlinked` from then on.
fn judge_pressure_trace(out: &mut CaseOut, imp: Imp, kind: Kind, flags: Flags, ps: &PressureScript, obs: &ImplObs, ctx: &Json) -> u64 {
    let trace = trace_of(obs, kind);
    let stop = if imp == Imp::Hosted && ps.end == End::Stop { obs.marks.stops.iter().find(|s| s.0 == kind) } else { None };
    let (steps, marks): (Vec<Step>, Vec<Option<(usize, usize)>>) = match stop {
        None => (ps.steps.clone(), obs.marks.of(kind).to_vec()),
        Some((_, idx, tlen, _)) => {
            let rest = &trace[(*tlen).min(trace.len())..];
            let phase = phases(&ps.steps, &flags)[*idx];
            out.count(&format!("stop/hosted/{}/{phase}/callbacks-after={}", kind.name(), kinds_of(rest)));
            let mut steps = ps.steps[..*idx].to_vec();
            let mut marks = obs.marks.of(kind)[..*idx].to_vec();
            match rest {
                [] => {}
                [Cb::Unlinked] => {
                    steps.push(Step::N(Note::Unlinked));
                    marks.push(None);
                }
                _ => {
                    let bad = rest.iter().find(|c| !matches!(c, Cb::Unlinked)).unwrap_or(&rest[0]);
                    out.violation(
                        P,
                        format!("callbacks-after-stop/{}/hosted/{}/{}", kind.name(), bad.kind(), flags.sig()),
                        "a stopped downlink dispatched callbacks other than a single on_unlinked",
                        json!({"context": ctx, "downlink": kind.name(), "script": show_script(&ps.steps), "trace": show_trace(trace), "after_stop": show_trace(rest)}),
                    );
                    return 0;
                }
            }
            (steps, marks)
        }
    };
    let (finding, st) = check(&CheckInput { mode: mode_of(kind), imp: imp.name(), flags, steps: &steps, trace, marks: &marks });
    apply_stats(out, imp, kind.name(), &st);
    let has_locals = ps.steps.iter().any(|s| matches!(s, Step::Local(_) | Step::LocalRacing(_) | Step::LocalFill { .. }));
    if imp == Imp::Client && kind == Kind::Map && has_locals && finding.is_some() {
        // The client map downlink folds its own writes into the replica (known finding of `legal`,
        // rule `local-write-in-state`). With writes that race with the frames (a write issued before
        // `linked` may be handled after it) the reference cannot tell where a write was folded in,
        // so the divergence cannot be named reliably here; it is judged by `legal` and
        // `exhaustive-map`, not in this part.
        out.count("write-pressure/client/map/trace-with-local-writes-diverges(judged-in-legal)");
        return st.callbacks_checked;
    }
    if let Some(f) = finding {
        out.violation(
            P,
            f.signature(kind.name(), imp.name(), &flags),
            f.what,
            json!({"context": ctx, "implementation": imp.name(), "downlink": kind.name(), "script": show_script(&steps), "trace": show_trace(trace), "divergence": f.detail}),
        );
    }
    st.callbacks_checked
}

pub fn write_pressure_case(case: u64, rng: &mut Rng, out: &mut CaseOut) {
    let flags = Flags::of_index(case % 4);
    let (end, mut consumer) = [
        (End::None, Consumer::Stalled),
        (End::Stop, Consumer::Stalled),
        (End::HandleDropped, Consumer::Stalled),
        (End::Stop, Consumer::Reading),
        (End::HandleDropped, Consumer::Reading),
        (End::ReaderGone, Consumer::Stalled),
    ][((case / 4) % 6) as usize];
    // One case in ten of those with a stalling consumer first fills the downlink's own write buffer
    // (8 KiB) of one of the two downlinks.
    let fill_kind = if consumer == Consumer::Stalled && (case / 24) % 10 == 9 { Some(if (case / 240) % 2 == 0 { Kind::Value } else { Kind::Map }) } else { None };
    let env = Env { out_cap: Some(*rng.pick(&[2usize, 3, 5, 8, 13, 16])), out_stalled: consumer == Consumer::Stalled && rng.chance(1, 3) };
    let mut uniq = Uniq::new(1000);
    let with_fill = |k: Kind| if fill_kind == Some(k) { Consumer::StalledBufferFull } else { consumer };
    let v = gen_pressure(rng, Kind::Value, &mut uniq, &flags, end, with_fill(Kind::Value), env.out_stalled);
    let m = gen_pressure(rng, Kind::Map, &mut uniq, &flags, end, with_fill(Kind::Map), env.out_stalled);
    if fill_kind.is_some() {
        consumer = Consumer::StalledBufferFull;
    }
    out.sig(&(flags, &v.steps, &m.steps, env.out_cap, env.out_stalled));
    let merged = index_merged(merge(rng, &v.steps, &m.steps));
    let ctx = json!({"flags": flags.json(), "output_channel_bytes": env.out_cap, "consumer_stalled_from_start": env.out_stalled, "value_script": show_script(&v.steps), "map_script": show_script(&m.steps)});
    out.count(&format!("write-pressure/consumer={}/end={}/{}", consumer.name(), end.name(), flags.sig()));
    let drive_rng = rng.fork();
    let client = client::run_client_in(flags, &merged, v.steps.len(), m.steps.len(), CutMode::HeaderOnly, &mut drive_rng.clone(), true, &env);
    let (hosted, extra) = hosted::run_hosted_in(flags, &merged, v.steps.len(), m.steps.len(), CutMode::HeaderOnly, &mut drive_rng.clone(), &[], &env);
    report_problems(out, Imp::Client, flags, &client, true, &ctx);
    report_problems(out, Imp::Hosted, flags, &hosted, true, &ctx);
    if out.inconclusive.is_some() {
        return;
    }
    let mut checked = 0;
    let mut seen_here: Vec<Json> = vec![];
    for (imp, obs) in [(Imp::Client, &client), (Imp::Hosted, &hosted)] {
        // The hosted downlinks asked for more than their two connections: a write failed.
        let reconnected = imp == Imp::Hosted && extra.connections > 2;
        for (kind, ps) in [(Kind::Value, &v), (Kind::Map, &m)] {
            checked += judge_pressure_trace(out, imp, kind, flags, ps, obs, &ctx);
            output_observations(out, case, &mut seen_here, imp, kind, flags, ps, obs, reconnected, &ctx);
        }
        out.add(&format!("write-pressure/{}/writes-refused-by-handle", imp.name()), obs.marks.refused);
    }
    out.add("hosted/connections", extra.connections as u64);
    out.add("hosted/commands-run", extra.commands_run);
    for (k, n) in &extra.probes {
        out.add(&format!("hosted/handle/{k}/{}", flags.sig()), *n);
    }
    out.events += checked + (client.v_out.len() + client.m_out.len() + hosted.v_out.len() + hosted.m_out.len()) as u64;
    // Non-trivial: writes were issued on both implementations and something reached the outputs.
    let issued = |o: &ImplObs| o.marks.issued_v.len() + o.marks.issued_m.len();
    out.nontrivial = issued(&client) > 0 && issued(&hosted) > 0 && !(client.v_out.is_empty() && client.m_out.is_empty()) && !(hosted.v_out.is_empty() && hosted.m_out.is_empty());
    let mut sample = ctx;
    sample["observed_on_the_output_path"] = Json::Array(seen_here);
    out.set_sample(sample);
}
